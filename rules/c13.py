"""C13 - write_csv followed by read_csv reproduces the WBS.   (DESIGN.md section 5, C13; rule family R10 table agreement)

The spec side (column names and order, date format, separators, field kinds, the list of data fields) is taken from the
property text; the code side is read from io/csv_io.py, io/raw.py and the Task / TaskRaw constructors.

Obligations
  columns        __DEFAULT_FIELDS == the ten names in order; header row = that list + discovered custom list; row literal
                 has ten entries and entry i derives from <row task>.<column i>; custom cells iterate the same list
  reader-keys    TaskRaw keyword K is fed from row[header['K']] for exactly the ten names; every other header goes to **kwargs;
                 header map is name -> column index
  converters     per column the writer form and the reader parser are an inverse pair (table in `KIND`), same date format
                 constant, full float precision, same id separator, negative ids accepted, None <-> empty cell
  io-modes       open(): text mode, explicit equal encodings, newline '' or '\\n' on both sides; csv delimiter passed through
                 with equal defaults, no one-sided dialect options; BOM stripped from header names
  fields-covered every data field of the property travels Task -> TaskRaw -> row -> TaskRaw -> Task
  no-leak        the generic attribute copies do not move structural raw keys onto tasks nor private task fields onto raws
  id-opacity     ids are never compared with literals, tested for truth or used in arithmetic
  order          loops iterate in file / WBS order, results are appended

Not decided: the csv module's quoting (trusted stdlib, default dialect only), the two-digit-year window, custom attribute
names that collide with Task members, tasks whose parent_id is dangling, numeric behaviour of float()/str().
Known finding (F20): min_start reaches the file as a custom column but is skipped by the `not in dir(t)` filter on rebuild.
"""
from __future__ import annotations

import ast

from sa.model import walk_no_nested, src
from sa.pat import same, attr_path
from .c13_util import (fx_of, split_cases, helper_opaque, sym_facts, cond_text, StaticNames, KeyEnv, eval_filter,
                       failing_atoms, generic_copies, set_attr_call, get_attr_expr, keys_owner, dict_owner, parent_map,
                       call_kwargs, const_str, const_seq, module_const_stmt, module_consts, is_empty_container)

# ----------------------------------------------------------------------------------------------------- spec (property)
COLUMNS = ['id', 'name', 'resource', 'start', 'end', 'estimate', 'spent', 'milestone', 'parent_id', 'predecessor_ids']
KIND = {'id': 'int', 'name': 'text', 'resource': 'text', 'start': 'date', 'end': 'date', 'estimate': 'float',
        'spent': 'float', 'milestone': 'bool', 'parent_id': 'optint', 'predecessor_ids': 'idlist'}
NULLABLE = {'text', 'date', 'float', 'optint'}
DATE_FMT = '%d.%m.%y'
ID_SEP = ';'
DELIMITER = ';'
BOM = '\ufeff'
DATA_FIELDS = ['id', 'name', 'resource', 'start', 'end', 'estimate', 'spent', 'milestone', 'min_start']
FIELD_KIND = dict(KIND, min_start='date')
STRUCTURAL = ['parent_id', 'predecessor_ids']
CUSTOM = 'custom_attribute_x'          # stands for any custom attribute name

CSV = 'io.csv_io'
RAW = 'io.raw'


class Facts:
    """facts shared between obligations (filled by the earlier ones; None = could not be established)"""

    def __init__(self):
        self.row_loop = None        # ast.For of the row loop in write_csv
        self.row_var = None         # ast.Name
        self.row_elts = None        # expanded fixed part of the row literal (list of exprs)
        self.row_custom = None      # (comprehension node expanded) custom part of the row
        self.custom_ok = False      # custom discovery + emission recognised and correct
        self.discover_conds = None  # (conds, keyvar, owner expr) of the custom column discovery
        self.reader_cells = None    # keyword -> (expanded value, cell node, header key)
        self.kwargs_filter = None   # (conds, keyvar)
        self.kwargs_ok = False
        self.bom = None             # (stripped?, func, node) of the header name expression


def check(ctx):
    prog = ctx.prog
    F = Facts()
    ctx.assume("WBS order is the order of WBS.tasks (pre-order of the hierarchy); csv.reader/csv.writer quoting with the "
               "default dialect is trusted")
    ctx.assume("term expansion assumes no aliasing writes between a definition and its use inside one function")
    for oid, fam, text, floor, fn in [
        ('columns', 'R10', "header list == property's ten names in order; row entry i derives from task.<column i>; header and "
                           "rows iterate the same custom column list", 23, ob_columns),
        ('reader-keys', 'R10', "TaskRaw keyword K is read from row[header['K']] for exactly the ten names, all other headers go "
                               "to **kwargs, header map is name -> index", 12, ob_reader_keys),
        ('converters', 'R10', "writer form and reader parser of every column are an inverse pair (date format %d.%m.%y on both "
                              "sides, full float precision, ';' joined ids incl. negative, None <-> empty cell)", 20, ob_converters),
        ('io-modes', 'R10', "open(): text mode, explicit equal encoding, newline '' or '\\n' on both sides; csv delimiter defaults "
                            "agree; BOM stripped from header names", 9, ob_io_modes),
        ('fields-covered', 'R10', "id, name, resource, start, end, estimate, spent, milestone, min_start and custom attributes "
                                  "travel Task -> TaskRaw -> row -> TaskRaw -> Task", 10, ob_fields),
        ('no-leak', 'R9', "generic attribute copies exclude TaskRaw's structural keys (raw -> Task) and Task's private fields "
                          "(Task -> raw)", 3, ob_no_leak),
        ('id-opacity', 'R10', "ids are only used as keys, formatted, passed on or compared with None / other ids - never compared "
                              "with a literal, tested for truth or used in arithmetic", 10, ob_id_opacity),
        ('order', 'R10', "loops iterate in file / WBS order (no sorted/reversed/set), elements are appended", 24, ob_order),
    ]:
        o = ctx.ob(oid, fam, text, floor=floor)
        ctx.guarded(o, lambda o, fn=fn: fn(ctx, o, F))


# ======================================================================================================== shared finders
def _is_csv_call(func, call, what):
    p = attr_path(call.func)
    if p == 'csv.' + what:
        return True
    return p == what and func.module.imports.get(what) == 'csv.' + what


def _default_list(ctx, node, fx):
    """python list a (resolved) expression denotes, or None"""
    return const_seq(node)


def find_writer(ctx, o):
    """-> (func, fx, header_call, row_call, row_for) of write_csv or None after recording undecided"""
    f = ctx.prog.func(CSV + '.write_csv')
    fx = fx_of(ctx, f)
    wr = [c for c in walk_no_nested(f.node) if isinstance(c, ast.Call) and isinstance(c.func, ast.Attribute)
          and c.func.attr in ('writerow', 'writerows')]
    hdr = [c for c in wr if not fx.enclosing_fors(c)]
    rows = [c for c in wr if fx.enclosing_fors(c)]
    if len(hdr) != 1 or len(rows) != 1 or any(c.func.attr != 'writerow' or len(c.args) != 1 for c in wr):
        o.undecided(f, f.node, 'write_csv writerow calls', f"expected one header writerow outside the row loop and one writerow "
                                                           f"inside it, found {len(hdr)} / {len(rows)}")
        return None
    fors = fx.enclosing_fors(rows[0])
    if len(fors) != 1 or not isinstance(fors[0].target, ast.Name):
        o.undecided(f, rows[0], rows[0], "row writerow is not inside exactly one `for <task> in <raws>` loop")
        return None
    return f, fx, hdr[0], rows[0], fors[0]


def find_reader(ctx, o):
    """-> dict(func, fx, reader_call, loop, rowvar, hdr_name, hdr_value, ctor) of read_csv or None"""
    f = ctx.prog.func(CSV + '.read_csv')
    fx = fx_of(ctx, f)
    ctors = [c for c in walk_no_nested(f.node) if isinstance(c, ast.Call) and isinstance(c.func, ast.Name) and c.func.id == 'TaskRaw']
    if len(ctors) != 1:
        o.undecided(f, f.node, 'read_csv TaskRaw(...)', f"expected exactly one TaskRaw(...) call in read_csv, found {len(ctors)}")
        return None
    ctor = ctors[0]
    fors = fx.enclosing_fors(ctor)
    if len(fors) != 1 or not isinstance(fors[0].target, ast.Name):
        o.undecided(f, ctor, 'read_csv row loop', "TaskRaw(...) is not built inside exactly one `for <row> in <reader>` loop")
        return None
    loop = fors[0]
    it = fx.x(loop.iter)
    if not (isinstance(it, ast.Call) and _is_csv_call(f, it, 'reader')):
        o.undecided(f, loop, loop.iter, f"rows are not iterated from csv.reader(...) (`{src(it)}`)")
        return None
    return dict(func=f, fx=fx, reader=it, loop=loop, rowvar=loop.target.id, ctor=ctor)


def _cell_of(expr, rowvar):
    """all `row[H['K']]` / `row[H[k]]` subscripts inside expr -> [(node, header map expr, key expr)]"""
    out = []
    for n in ast.walk(expr):
        if isinstance(n, ast.Subscript) and isinstance(n.value, ast.Name) and n.value.id == rowvar and isinstance(n.slice, ast.Subscript):
            out.append((n, n.slice.value, n.slice.slice))
    return out


# ======================================================================================================== C13.columns
def ob_columns(ctx, o, F):
    prog = ctx.prog
    mod = prog.module(CSV)
    # ---- the default field list
    st = module_const_stmt(mod, '__DEFAULT_FIELDS')
    consts = module_consts(mod)
    default_ok = False
    if st is None or '__DEFAULT_FIELDS' not in consts:
        o.undecided(None, st, '__DEFAULT_FIELDS', "module constant __DEFAULT_FIELDS of io/csv_io.py not found as a single literal assignment")
    else:
        val = const_seq(fx_resolve_module(mod, consts['__DEFAULT_FIELDS']))
        if val is None:
            o.undecided(None, st, '__DEFAULT_FIELDS', "__DEFAULT_FIELDS is not a literal list of strings")
        else:
            default_ok = _compare_columns(o, None, st, val, '__DEFAULT_FIELDS')
    w = find_writer(ctx, o)
    if w is None:
        return
    f, fx, hcall, rcall, rfor = w
    F.row_loop, F.row_var = rfor, rfor.target
    rowvar = rfor.target.id
    # ---- header row
    h = fx.x(hcall.args[0])
    hfixed, hcustom = _split_concat(h)
    hv = const_seq(hfixed) if hfixed is not None else None
    if hv is None:
        o.undecided(f, hcall, hcall, f"header row `{src(h)[:100]}` is not <literal column list> + <custom column list>")
    else:
        _compare_columns(o, f, hcall, hv, 'header row')
    if fx.cfg.node_containing(hcall) is not None and fx.cfg.node_of(rfor) is not None and \
            not fx.cfg.dominates(fx.cfg.node_containing(hcall), fx.cfg.node_of(rfor)):
        o.refute(f, hcall, 'header after rows', "the header row is not written before the row loop on every path")
    # ---- row literal
    r = fx.x(rcall.args[0], keep=[rowvar])
    rfixed, rcustom = _split_concat(r)
    if not isinstance(rfixed, (ast.List, ast.Tuple)) or any(isinstance(e, ast.Starred) for e in rfixed.elts):
        o.undecided(f, rcall, rcall, f"row `{src(r)[:100]}` is not <list literal> + <custom cells>")
        return
    elts = rfixed.elts
    if len(elts) != len(COLUMNS):
        o.refute(f, rcall, 'row length', f"the row literal has {len(elts)} fixed cells, the header has {len(COLUMNS)} columns "
                                         f"({';'.join(COLUMNS)}): cells shift under the wrong header")
        return
    F.row_elts = elts
    for i, (col, e) in enumerate(zip(COLUMNS, elts)):
        attrs = sorted({n.attr for n in ast.walk(e) if isinstance(n, ast.Attribute) and isinstance(n.value, ast.Name)
                        and n.value.id == rowvar})
        if attrs == [col]:
            o.site(f, rcall, f"cell {i} <- {rowvar}.{col}")
        elif not attrs:
            o.undecided(f, rcall, e, f"cell {i} (column {col}) does not read an attribute of the row task `{rowvar}`")
        else:
            o.refute(f, rcall, f"cell {i}: {src(e)[:80]}", f"cell {i} is written under header `{col}` but derives from "
                                                           f"{', '.join(rowvar + '.' + a for a in attrs)}; expected {rowvar}.{col}")
    # ---- custom columns: header part and row part iterate the same discovered list
    _custom_columns(ctx, o, F, f, fx, hcall, rcall, hcustom, rcustom, rfor)


def fx_resolve_module(mod, node):
    from .c13_util import resolve_consts
    import copy
    return resolve_consts(mod, copy.deepcopy(node), set())


def _split_concat(e):
    """A + B -> (A, B);  A -> (A, None)"""
    if isinstance(e, ast.BinOp) and isinstance(e.op, ast.Add):
        return e.left, e.right
    return e, None


def _compare_columns(o, f, node, val, what) -> bool:
    if val == COLUMNS:
        for c in COLUMNS:
            o.site(f, node, f"{what}: {c}")
        return True
    if sorted(map(str, val)) == sorted(COLUMNS):
        diff = [f"{i}:{a}!={b}" for i, (a, b) in enumerate(zip(val, COLUMNS)) if a != b]
        o.refute(f, node, f"{what} order {';'.join(map(str, val))}", f"{what} lists the ten columns in a different order "
                                                                    f"({', '.join(diff)}); the property fixes {';'.join(COLUMNS)}")
    else:
        missing = [c for c in COLUMNS if c not in val]
        extra = [c for c in val if c not in COLUMNS]
        o.refute(f, node, f"{what} {';'.join(map(str, val))}", f"{what} differs from the property's header: missing {missing}, extra {extra}")
    return False


def _keys_of_dict(e):
    """expression denoting the keys of dict D in insertion order -> D (Name) else None"""
    if isinstance(e, ast.Name):
        return e
    if isinstance(e, ast.Call) and isinstance(e.func, ast.Attribute) and e.func.attr == 'keys' and not e.args:
        return _keys_of_dict(e.func.value)
    if isinstance(e, ast.Call) and isinstance(e.func, ast.Name) and e.func.id in ('list', 'tuple') and len(e.args) == 1:
        return _keys_of_dict(e.args[0])
    if isinstance(e, (ast.ListComp, ast.GeneratorExp)) and len(e.generators) == 1 and not e.generators[0].ifs \
            and isinstance(e.generators[0].target, ast.Name):
        k = e.generators[0].target.id
        elt = e.elt
        ok = isinstance(elt, ast.Name) and elt.id == k
        if isinstance(elt, ast.JoinedStr) and len(elt.values) == 1 and isinstance(elt.values[0], ast.FormattedValue) \
                and isinstance(elt.values[0].value, ast.Name) and elt.values[0].value.id == k and elt.values[0].format_spec is None:
            ok = True
        if isinstance(elt, ast.Call) and isinstance(elt.func, ast.Name) and elt.func.id == 'str' and len(elt.args) == 1 \
                and isinstance(elt.args[0], ast.Name) and elt.args[0].id == k:
            ok = True
        return _keys_of_dict(e.generators[0].iter) if ok else None
    return None


def _custom_columns(ctx, o, F, f, fx, hcall, rcall, hcustom, rcustom, rfor):
    rowvar = rfor.target.id
    if hcustom is None and rcustom is None:
        o.refute(f, hcall, 'no custom columns', "neither the header nor the rows carry custom attribute columns")
        return
    if hcustom is None or rcustom is None:
        o.refute(f, rcall, 'custom columns one-sided', "custom attribute columns appear only in the header or only in the rows")
        return
    if not (isinstance(rcustom, (ast.ListComp,)) and len(rcustom.generators) == 1 and isinstance(rcustom.generators[0].target, ast.Name)):
        o.undecided(f, rcall, rcustom, "custom cells are not a single-generator list comprehension over the custom column list")
        return
    g = rcustom.generators[0]
    kv = g.target.id
    hd, rd = _keys_of_dict(hcustom), _keys_of_dict(g.iter)
    if not (same(hcustom, g.iter) or (hd is not None and rd is not None and same(hd, rd))):
        o.refute(f, rcall, f"custom cells over {src(g.iter)[:60]}", f"header custom columns come from `{src(hcustom)[:60]}` but the row's custom "
                                                                     f"cells iterate `{src(g.iter)[:60]}`: cells and headers can disagree")
        return
    if g.ifs:
        o.refute(f, rcall, f"custom cells filter {src(g.ifs[0])[:60]}", "custom cells are filtered while the header is not: cells shift under the wrong header")
        return
    o.site(f, rcall, f"header and rows iterate the same custom list {src(g.iter)[:40]}")
    # ---- cell value
    good = True
    for conds, leaf in split_cases(ctx, f, rcustom.elt):
        if isinstance(leaf, ast.Constant) and leaf.value in ('', None):
            continue          # absent attribute -> empty cell
        inner = leaf
        if isinstance(inner, ast.Call) and isinstance(inner.func, ast.Name) and inner.func.id == 'str' and len(inner.args) == 1:
            inner = inner.args[0]
        ga = get_attr_expr(inner)
        if ga is None or not (isinstance(ga[1], ast.Name) and ga[1].id == kv):
            o.undecided(f, rcall, leaf, "custom cell value is not an attribute lookup by the column name")
            good = False
            continue
        if not (isinstance(ga[0], ast.Name) and ga[0].id == rowvar):
            o.refute(f, rcall, f"custom cell {src(leaf)[:60]}", f"custom cell reads `{src(ga[0])}` instead of the row's task `{rowvar}`")
            good = False
            continue
        guarded = ga[2] is not None
        for t, pol in conds:
            if pol and isinstance(t, ast.Compare) and len(t.ops) == 1 and isinstance(t.ops[0], ast.In) and isinstance(t.left, ast.Name) \
                    and t.left.id == kv and keys_owner(t.comparators[0]) is not None and same(keys_owner(t.comparators[0]), ga[0]):
                guarded = True
            elif pol and isinstance(t, ast.Call) and isinstance(t.func, ast.Name) and t.func.id == 'hasattr' and len(t.args) == 2 \
                    and same(t.args[0], ga[0]):
                guarded = True
        if not guarded:
            o.refute(f, rcall, f"custom cell unguarded {src(leaf)[:60]}", "custom cell reads the attribute without testing that this task has it: "
                                                                          "attributes carried by only some tasks raise AttributeError")
            good = False
    if good:
        o.site(f, rcall, "custom cell = attribute of the row task by column name, '' when absent")
    # ---- discovery of the custom columns
    d = rd if rd is not None else None
    if d is None or not isinstance(d, ast.Name):
        o.undecided(f, hcall, hcustom, "custom column list is not the key list of a dict filled by a discovery loop")
        return
    stores = []
    for n in walk_no_nested(f.node):
        if isinstance(n, ast.Assign) and len(n.targets) == 1 and isinstance(n.targets[0], ast.Subscript) \
                and isinstance(n.targets[0].value, ast.Name) and n.targets[0].value.id == d.id:
            stores.append(n)
        elif isinstance(n, ast.Call) and isinstance(n.func, ast.Attribute) and n.func.attr in ('append', 'setdefault', 'add') \
                and isinstance(n.func.value, ast.Name) and n.func.value.id == d.id:
            stores.append(n)
    if len(stores) != 1 or not isinstance(stores[0], ast.Assign) or not isinstance(stores[0].targets[0].slice, ast.Name):
        o.undecided(f, hcall, d, f"custom column accumulator `{d.id}` is not filled by exactly one `{d.id}[k] = ..` store")
        return
    stn = stores[0]
    k = stn.targets[0].slice.id
    fors = fx.enclosing_fors(stn)
    if len(fors) != 2:
        o.undecided(f, stn, stn, "custom column discovery is not a two level loop (tasks, attribute names)")
        return
    outer, inner = fors
    if not same(fx.x(outer.iter), fx.x(rfor.iter)):
        o.refute(f, stn, f"discovery over {src(outer.iter)[:60]}", f"custom columns are discovered over `{src(fx.x(outer.iter))[:60]}` but rows are written "
                                                                   f"for `{src(fx.x(rfor.iter))[:60]}`: attributes of some tasks get no column")
        return
    owner = keys_owner(fx.x(inner.iter))
    tnames = [inner.target.id] if isinstance(inner.target, ast.Name) else [e.id for e in getattr(inner.target, 'elts', []) if isinstance(e, ast.Name)]
    if owner is None or not (isinstance(owner, ast.Name) and isinstance(outer.target, ast.Name) and owner.id == outer.target.id) \
            or not tnames or tnames[0] != k:
        o.undecided(f, stn, inner, "custom column discovery does not iterate `<task>.__dict__` of the outer loop's task by key")
        return
    conds = [c for c in fx.conds(stn)]
    F.discover_conds = (conds, k, owner)
    env = KeyEnv(ctx, f)
    bad = False
    for col in COLUMNS:
        r, unk = eval_filter(conds, k, col, env)
        if r is None:
            o.undecided(f, stn, unk[0], "custom column filter atom not understood")
            return
        if r:
            o.refute(f, stn, f"discovery admits {col}", f"default column `{col}` passes the custom column filter and would be written twice")
            bad = True
    r, unk = eval_filter(conds, k, CUSTOM, env)
    if r is None:
        o.undecided(f, stn, unk[0], "custom column filter atom not understood")
        return
    if not r:
        fa = failing_atoms(conds, k, CUSTOM, env)
        o.refute(f, stn, f"discovery rejects custom: {cond_text(fa)[:80]}", "an ordinary custom attribute name does not pass the custom column filter")
        bad = True
    if not bad:
        o.site(f, stn, f"custom discovery: every task, every __dict__ key not in the default list ({cond_text(conds)[:60]})")
        F.custom_ok = good


# ======================================================================================================== C13.reader-keys
def ob_reader_keys(ctx, o, F):
    prog = ctx.prog
    r = find_reader(ctx, o)
    if r is None:
        return
    f, fx, ctor, rowvar, loop = r['func'], r['fx'], r['ctor'], r['rowvar'], r['loop']
    sn = StaticNames(prog, 'TaskRaw')
    kw, star = call_kwargs(ctor, sn.params())
    cells = {}
    hdr_exprs = []
    for k, v in kw.items():
        vx = fx.x(v, keep=[rowvar])
        cs = _cell_of(vx, rowvar)
        if len(cs) != 1 or const_str(cs[0][2]) is None:
            o.undecided(f, ctor, v, f"TaskRaw keyword `{k}` is not computed from exactly one cell row[header['<name>']]")
            continue
        node, hexpr, key = cs[0]
        hdr_exprs.append(hexpr)
        cells[k] = (vx, node, key.value)
        if key.value == k:
            if k in COLUMNS:
                o.site(f, ctor, f"{k} <- row[header['{k}']]")
        else:
            o.refute(f, ctor, f"{k}=..['{key.value}']", f"TaskRaw keyword `{k}` is read from column `{key.value}`; expected column `{k}`")
    F.reader_cells = cells
    missing = [c for c in COLUMNS if c not in kw]
    extra = [k for k in kw if k not in COLUMNS]
    for c in missing:
        o.refute(f, ctor, f"TaskRaw(...) without {c}", f"column `{c}` of the property's header is not passed to TaskRaw(...): its value is dropped on read")
    for c in extra:
        o.undecided(f, ctor, f"TaskRaw(... {c}=)", f"TaskRaw receives keyword `{c}` which is not one of the ten default columns")
    # ---- header map: all cells use the same map, built as name -> index from the first row of the same reader
    hmaps = {src(h) for h in hdr_exprs}
    if len(hmaps) == 1:
        _header_map(ctx, o, F, r, hdr_exprs[0])
    elif hmaps:
        o.undecided(f, ctor, ctor, "cells are looked up through different header maps")
    # ---- everything else -> **kwargs
    if star is None:
        o.refute(f, ctor, 'TaskRaw(...) without **kwargs', "custom attribute columns are not passed to TaskRaw(**kwargs): they are dropped on read")
        return
    _kwargs_fill(ctx, o, F, r, star, set(kw))


def _header_map(ctx, o, F, r, hexpr):
    """hexpr: the (expanded) header map expression used in cells"""
    f, fx, loop = r['func'], r['fx'], r['loop']
    prog = ctx.prog
    # hexpr after expansion is the defining expression of the header map (a helper call or a dict comprehension)
    first_row = None
    triple = None       # (key expr, value expr, target, iter, ctxfunc)
    if isinstance(hexpr, ast.Call) and isinstance(hexpr.func, ast.Name):
        tg = [t for t in ctx.typer.resolve_name_call(hexpr.func.id, f) if t.kind == 'function']
        if len(tg) == 1 and len(hexpr.args) == 1 and len(tg[0].params) == 1:
            first_row = hexpr.args[0]
            triple = _map_builder(ctx, tg[0])
            hf = tg[0]
    elif isinstance(hexpr, ast.DictComp):
        g = hexpr.generators[0]
        triple = (hexpr.key, hexpr.value, g.target, g.iter, None)
        hf = f
        first_row = _iter_source(g.iter)
    if triple is None:
        o.undecided(f, r['ctor'], hexpr, f"header map `{src(hexpr)[:80]}` is not built by a recognised name -> index loop")
        return
    key, val, target, it, _ = triple
    # the row passed in must be next(<the same reader>) taken before the row loop
    rd = fx.x(loop.iter)
    ok_first = isinstance(first_row, ast.Call) and isinstance(first_row.func, ast.Name) and first_row.func.id == 'next' \
        and first_row.args and same(first_row.args[0], rd)
    if not ok_first:
        o.undecided(f, r['ctor'], first_row if first_row is not None else hexpr, "header names are not taken from next(<csv reader>) of the reader the rows come from")
        return
    # index form
    elem = None
    tnames = [e.id for e in target.elts] if isinstance(target, ast.Tuple) and all(isinstance(e, ast.Name) for e in target.elts) else \
        ([target.id] if isinstance(target, ast.Name) else [])
    if isinstance(it, ast.Call) and isinstance(it.func, ast.Name) and it.func.id == 'enumerate' and len(tnames) == 2 and len(it.args) == 1:
        idx, elem = tnames[0], ast.Name(id=tnames[1], ctx=ast.Load())
    elif isinstance(it, ast.Call) and isinstance(it.func, ast.Name) and it.func.id == 'range' and len(tnames) == 1:
        a = it.args
        good = (len(a) == 1 and _is_len(a[0])) or (len(a) == 2 and isinstance(a[0], ast.Constant) and a[0].value == 0 and _is_len(a[1]))
        if not good:
            o.refute(hf, it, f"header range {src(it)}", f"header columns are enumerated with `{src(it)}`; expected range(len(row)) - some columns get no index")
            return
        seq = (a[0] if len(a) == 1 else a[1]).args[0]
        idx = tnames[0]
        elem = ast.Subscript(value=seq, slice=ast.Name(id=idx, ctx=ast.Load()), ctx=ast.Load())
    else:
        o.undecided(hf, it, it, "header map loop is neither enumerate(row) nor range(len(row))")
        return
    if not (isinstance(val, ast.Name) and val.id == idx):
        o.refute(hf, val, f"header index {src(val)}", f"header map stores `{src(val)}` for a name; expected the column index `{idx}`")
        return
    # key = elem with wrappers
    wrappers = []
    n = key
    cond_wrapped = False
    if isinstance(n, ast.IfExp):
        cond_wrapped = True
    while isinstance(n, ast.Call) and isinstance(n.func, ast.Attribute):
        wrappers.append((n.func.attr, n.args))
        n = n.func.value
    if cond_wrapped or not same(n, elem):
        o.undecided(hf, key, key, f"header name `{src(key)[:80]}` is not the cell text of column `{src(elem)}` with string methods applied")
        return
    bom = False
    for m, args in wrappers:
        if m == 'replace' and len(args) == 2 and const_str(args[0]) == BOM and const_str(args[1]) == '':
            bom = True
        elif m in ('lstrip', 'removeprefix', 'strip') and len(args) == 1 and const_str(args[0]) == BOM:
            bom = True
        elif m in ('lower', 'upper', 'title', 'capitalize', 'casefold', 'strip', 'lstrip', 'rstrip', 'replace'):
            o.refute(hf, key, f"header name .{m}({', '.join(src(a) for a in args)})", f"header names are altered by .{m}(): custom attribute names do not survive the round trip")
            return
        else:
            o.undecided(hf, key, key, f"header name transformed by .{m}()")
            return
    o.site(hf, key, f"header map: {src(key)[:50]} -> {idx}")
    ctx.notes['c13_bom_stripped'] = bom
    F.bom = (bom, hf, key)


def _is_len(n):
    return isinstance(n, ast.Call) and isinstance(n.func, ast.Name) and n.func.id == 'len' and len(n.args) == 1


def _iter_source(it):
    if isinstance(it, ast.Call) and isinstance(it.func, ast.Name) and it.func.id == 'enumerate' and it.args:
        return it.args[0]
    return None


def _map_builder(ctx, hf):
    """helper `res = {}; for T in IT: [name = ..]; res[KEY] = VAL; return res` or `return {KEY: VAL for T in IT}`
    -> (KEY expanded, VAL expanded, T, IT expanded, hf)"""
    fx = fx_of(ctx, hf)
    rets = [n for n in walk_no_nested(hf.node) if isinstance(n, ast.Return)]
    if len(rets) != 1 or rets[0].value is None:
        return None
    rv = fx.x(rets[0].value)
    if isinstance(rv, ast.DictComp) and len(rv.generators) == 1 and not rv.generators[0].ifs:
        g = rv.generators[0]
        return rv.key, rv.value, g.target, g.iter, hf
    if not isinstance(rv, ast.Name):
        return None
    stores = [n for n in walk_no_nested(hf.node) if isinstance(n, ast.Assign) and len(n.targets) == 1
              and isinstance(n.targets[0], ast.Subscript) and isinstance(n.targets[0].value, ast.Name) and n.targets[0].value.id == rv.id]
    if len(stores) != 1:
        return None
    st = stores[0]
    fors = fx.enclosing_fors(st)
    if len(fors) != 1 or fx.cfg.conditions(fx.cfg.node_of(st)):
        return None
    keep = [n.id for n in ast.walk(fors[0].target) if isinstance(n, ast.Name)]
    return fx.x(st.targets[0].slice, keep=keep), fx.x(st.value, keep=keep), fors[0].target, fx.x(fors[0].iter), hf


def _kwargs_fill(ctx, o, F, r, star, consumed):
    f, fx, ctor, rowvar = r['func'], r['fx'], r['ctor'], r['rowvar']
    sx = fx.x(star)
    key = val = target = it = None
    conds = None
    at = None
    if isinstance(sx, ast.DictComp) and len(sx.generators) == 1:
        g = sx.generators[0]
        key, val, target, it = sx.key, sx.value, g.target, g.iter
        from sa.facts import split_conj
        conds = []
        for c in g.ifs:
            conds += split_conj(c, True)
        at = ctor
    elif isinstance(sx, ast.Name):
        stores = [n for n in walk_no_nested(f.node) if isinstance(n, ast.Assign) and len(n.targets) == 1
                  and isinstance(n.targets[0], ast.Subscript) and isinstance(n.targets[0].value, ast.Name) and n.targets[0].value.id == sx.id]
        if len(stores) == 1:
            st = stores[0]
            fors = [x for x in fx.enclosing_fors(st) if x is not r['loop']]
            if len(fors) == 1:
                keep = [n.id for n in ast.walk(fors[0].target) if isinstance(n, ast.Name)] + [rowvar]
                key, val = fx.x(st.targets[0].slice, keep=keep), fx.x(st.value, keep=keep)
                target, it = fors[0].target, fx.x(fors[0].iter)
                # conditions inside the row loop only
                outer = {id(t) for t, _ in fx.cfg.conditions(fx.cfg.node_of(r['loop']))}
                conds = fx.conds(st)
                at = st
                # the accumulator must be reset for every row
                dv = fx.def_value(sx.id, ctor)
                if dv is None or not is_empty_container(dv) or r['loop'] not in fx.enclosing_fors(dv):
                    o.undecided(f, st, sx, f"`{sx.id}` is not re-initialised to an empty dict for every row")
                    return
    if key is None:
        o.undecided(f, ctor, star, f"**{src(star)} is not filled by a recognised loop over the header map")
        return
    # target / iter: for k, v in H.items()  |  for k in H
    tn = [e.id for e in target.elts] if isinstance(target, ast.Tuple) and all(isinstance(e, ast.Name) for e in target.elts) else \
        ([target.id] if isinstance(target, ast.Name) else [])
    hm = None
    if isinstance(it, ast.Call) and isinstance(it.func, ast.Attribute) and it.func.attr == 'items' and len(tn) == 2:
        hm, kname = it.func.value, tn[0]
        good_val = isinstance(val, ast.Subscript) and isinstance(val.value, ast.Name) and val.value.id == rowvar \
            and isinstance(val.slice, ast.Name) and val.slice.id == tn[1]
    elif len(tn) == 1:
        hm, kname = it, tn[0]
        if isinstance(hm, ast.Call) and isinstance(hm.func, ast.Attribute) and hm.func.attr == 'keys':
            hm = hm.func.value
        cs = _cell_of(val, rowvar)
        good_val = len(cs) == 1 and cs[0][0] is val and same(cs[0][1], hm) and isinstance(cs[0][2], ast.Name) and cs[0][2].id == kname
    else:
        o.undecided(f, at, it, "custom attribute loop does not iterate the header map")
        return
    cells = F.reader_cells or {}
    hdrs = {src(_cell_of(v[0], rowvar)[0][1]) for v in cells.values()}
    if hdrs and src(hm) not in hdrs:
        o.undecided(f, at, it, f"custom attributes iterate `{src(hm)[:60]}`, the default cells use another header map")
        return
    if not (isinstance(key, ast.Name) and key.id == kname):
        o.refute(f, at, f"kwargs key {src(key)[:60]}", f"custom attribute is stored under `{src(key)}` instead of its header name `{kname}`")
        return
    if not good_val:
        o.refute(f, at, f"kwargs value {src(val)[:60]}", f"custom attribute `{kname}` is filled from `{src(val)}`; expected the cell of its own column")
        return
    env = KeyEnv(ctx, f)
    bad = False
    for col in sorted(consumed):
        res, unk = eval_filter(conds, kname, col, env)
        if res is None:
            o.undecided(f, at, unk[0], "custom attribute filter atom not understood")
            return
        if res:
            o.refute(f, at, f"kwargs admits {col}", f"column `{col}` is passed to TaskRaw both as keyword and inside **kwargs (TypeError on read)")
            bad = True
    for col in [CUSTOM] + [c for c in COLUMNS if c not in consumed]:
        res, unk = eval_filter(conds, kname, col, env)
        if res is None:
            o.undecided(f, at, unk[0], "custom attribute filter atom not understood")
            return
        if not res:
            fa = failing_atoms(conds, kname, col, env)
            o.refute(f, at, f"kwargs rejects {'custom' if col == CUSTOM else col}: {cond_text(fa)[:80]}",
                     f"header `{'<custom attribute>' if col == CUSTOM else col}` is neither a TaskRaw keyword nor admitted to **kwargs: dropped on read")
            bad = True
    F.kwargs_filter = (conds, kname)
    if not bad:
        F.kwargs_ok = True
        o.site(f, at, f"every header outside the ten default names goes to **kwargs ({cond_text(conds)[:60]})")


# ======================================================================================================== C13.converters
def _plain_str(leaf, S):
    """how a writer leaf turns S into text: ('raw'|'plain'|'spec'|'round'|'int'|'bool', detail) or None.
    plain = str()/repr()/f"{S}"/'{}'.format(S)/'%s' % S : the full repr of a number, 'True'/'False' of a bool"""
    if same(leaf, S):
        return 'raw', None
    if isinstance(leaf, ast.Call) and isinstance(leaf.func, ast.Name) and leaf.args and not leaf.keywords:
        n, a = leaf.func.id, leaf.args
        if n in ('str', 'repr') and len(a) == 1:
            inner = _plain_str(a[0], S)
            if inner is None:
                return None
            return ('plain', None) if inner[0] in ('raw', 'plain') else inner
        if n == 'format' and same(a[0], S):
            if len(a) == 1 or (const_str(a[1]) == ''):
                return 'plain', None
            return 'spec', src(a[1])
        if n == 'round' and same(a[0], S):
            return 'round', src(leaf)
        if n in ('int', 'float', 'bool') and len(a) == 1 and same(a[0], S):
            return n, None
    if isinstance(leaf, ast.JoinedStr):
        fv = [v for v in leaf.values if isinstance(v, ast.FormattedValue)]
        txt = [v for v in leaf.values if isinstance(v, ast.Constant) and v.value != '']
        if len(fv) == 1 and not txt and same(fv[0].value, S):
            if fv[0].format_spec is None or src(fv[0].format_spec) in ("f''", "''"):
                return 'plain', None
            spec = ''.join(v.value for v in fv[0].format_spec.values if isinstance(v, ast.Constant))
            return 'spec', spec or src(fv[0].format_spec)
        return None
    if isinstance(leaf, ast.Call) and isinstance(leaf.func, ast.Attribute) and leaf.func.attr == 'format' \
            and const_str(leaf.func.value) is not None and len(leaf.args) == 1 and same(leaf.args[0], S):
        t = leaf.func.value.value
        return ('plain', None) if t in ('{}', '{0}', '{!s}', '{!r}', '{0!s}', '{0!r}') else ('spec', t)
    if isinstance(leaf, ast.BinOp) and isinstance(leaf.op, ast.Mod) and const_str(leaf.left) is not None and \
            (same(leaf.right, S) or (isinstance(leaf.right, ast.Tuple) and len(leaf.right.elts) == 1 and same(leaf.right.elts[0], S))):
        return ('plain', None) if leaf.left.value in ('%s', '%r') else ('spec', leaf.left.value)
    return None


def _mentions(e, S):
    return any(same(n, S) for n in ast.walk(e) if type(n) is type(S))


def _writer_column(ctx, o, f, node, col, e, S, W):
    """W collects per column facts of the writer: W[col] = dict(fmt=.., sep=.., true=.., false=..)"""
    kind = KIND[col]
    info = W.setdefault(col, {})
    ok = True

    def bad(construct, msg):
        nonlocal ok
        ok = False
        o.refute(f, node, f"{col}: {construct}"[:150], msg)

    def unk(construct, msg):
        nonlocal ok
        ok = False
        o.undecided(f, node, f"{col}: {src(construct) if isinstance(construct, ast.AST) else construct}"[:150], msg)

    for conds, leaf in split_cases(ctx, f, e):
        facts, unknown = sym_facts(conds, S)
        if unknown:
            unk(unknown[0][0], f"writer cell of `{col}` is chosen under a condition the rule does not understand")
            continue
        absent = 'none' in facts
        falsy = bool(facts & {'falsy', 'empty'})
        present = bool(facts & {'notnone', 'truthy', 'nonempty'})
        if isinstance(leaf, ast.Constant) and (leaf.value is None or isinstance(leaf.value, str)) and not (kind == 'bool' and leaf.value):
            if leaf.value not in ('', None):
                bad(f"constant {leaf.value!r}", f"column `{col}` is written as the constant {leaf.value!r} when {cond_text(conds)}")
            elif absent:
                pass
            elif falsy:
                if kind == 'float':
                    bad(f"'' when {cond_text(conds)}", f"`{col}` is written as an empty cell whenever it is falsy: 0.0 is read back as None")
                elif kind in ('int', 'optint'):
                    bad(f"'' when {cond_text(conds)}", f"`{col}` is written as an empty cell whenever it is falsy: id 0 is read back as None")
                elif kind == 'bool':
                    info['false'] = ''
            else:
                bad(f"'' when {cond_text(conds)}", f"`{col}` is written as an empty cell under `{cond_text(conds)}`, which does not mean the value is absent")
            continue
        if kind == 'bool' and isinstance(leaf, ast.Constant):
            if 'truthy' in facts:
                info['true'] = str(leaf.value)
            elif falsy or absent:
                info['false'] = str(leaf.value)
            else:
                bad(f"constant {leaf.value!r}", f"`{col}` is written as a constant regardless of its value")
            continue
        ps = _plain_str(leaf, S)
        if kind in NULLABLE and not present and not (ps and ps[0] == 'raw'):
            if absent or falsy:
                pass      # value form applied on the absent branch is dead or harmless only if it is raw; fall through to checks
            bad(f"{src(leaf)[:70]} without None test", f"`{col}` may be None but `{src(leaf)[:70]}` is evaluated without a preceding None test "
                                                      f"(None would be written as 'None' or raise)")
            continue
        if kind in ('int', 'optint', 'float', 'bool', 'text'):
            if ps is not None:
                form, detail = ps
                if form in ('raw', 'plain'):
                    continue
                if kind == 'float' and form in ('spec', 'round', 'int'):
                    bad(f"{src(leaf)[:80]}", f"`{col}` is formatted with `{detail or form}`: digits beyond that format are lost "
                                             f"(expected str()/repr() of the float)")
                    continue
                if kind == 'float' and form == 'float':
                    continue
                if kind in ('int', 'optint') and form == 'int':
                    continue
                if kind == 'bool' and form == 'bool':
                    continue
                if kind == 'bool' and form == 'int':
                    info['true'], info['false'] = '1', '0'
                    continue
                if kind == 'text' and form in ('spec', 'round', 'int', 'float', 'bool'):
                    bad(f"{src(leaf)[:80]}", f"text column `{col}` is converted with `{src(leaf)[:60]}`")
                    continue
                unk(leaf, f"writer form of `{col}` not classified")
                continue
            if kind == 'text' and _text_altering(leaf, S):
                bad(f"{src(leaf)[:80]}", f"text column `{col}` is altered before writing (`{src(leaf)[:60]}`): the text does not round trip")
                continue
            unk(leaf, f"writer form `{src(leaf)[:60]}` of `{col}` not recognised")
            continue
        if kind == 'date':
            if isinstance(leaf, ast.Call) and isinstance(leaf.func, ast.Attribute) and leaf.func.attr == 'strftime' \
                    and same(leaf.func.value, S) and len(leaf.args) == 1:
                fmt = const_str(leaf.args[0])
                if fmt is None:
                    unk(leaf.args[0], f"date format of `{col}` is not a constant")
                else:
                    info['fmt'] = fmt
                    if fmt != DATE_FMT:
                        bad(f"strftime({fmt!r})", f"`{col}` is written with format {fmt!r}; the property fixes dd.mm.yy ({DATE_FMT!r})")
                continue
            if ps is not None or (isinstance(leaf, ast.Call) and isinstance(leaf.func, ast.Attribute)
                                  and leaf.func.attr in ('isoformat', 'date', 'ctime', 'timestamp', 'toordinal') and _mentions(leaf, S)):
                bad(f"{src(leaf)[:80]}", f"`{col}` is written as `{src(leaf)[:60]}`, not as dd.mm.yy via strftime({DATE_FMT!r})")
                continue
            unk(leaf, f"writer form `{src(leaf)[:60]}` of date column `{col}` not recognised")
            continue
        if kind == 'idlist':
            if isinstance(leaf, ast.Call) and isinstance(leaf.func, ast.Attribute) and leaf.func.attr == 'join' and len(leaf.args) == 1:
                sep = const_str(leaf.func.value)
                if sep is None:
                    unk(leaf.func.value, f"separator of `{col}` is not a constant")
                    continue
                info['sep'] = sep
                if sep != ID_SEP:
                    bad(f"{sep!r}.join", f"`{col}` is joined with {sep!r}; the property fixes {ID_SEP!r}")
                    continue
                a = leaf.args[0]
                if isinstance(a, ast.Call) and isinstance(a.func, ast.Name) and a.func.id == 'map' and len(a.args) == 2 \
                        and isinstance(a.args[0], ast.Name) and a.args[0].id in ('str', 'repr') and same(a.args[1], S):
                    continue
                if isinstance(a, (ast.ListComp, ast.GeneratorExp)) and len(a.generators) == 1 and isinstance(a.generators[0].target, ast.Name):
                    g = a.generators[0]
                    v = ast.Name(id=g.target.id, ctx=ast.Load())
                    if not same(g.iter, S):
                        if any(isinstance(n, ast.Name) and n.id in ('sorted', 'reversed', 'set') for n in ast.walk(g.iter)) and _mentions(g.iter, S):
                            bad(f"{src(g.iter)[:60]}", f"`{col}` is written from `{src(g.iter)[:60]}`: the order (or multiplicity) of the predecessor list changes")
                        else:
                            unk(g.iter, f"`{col}` is joined from `{src(g.iter)[:60]}`, not from the task's list")
                        continue
                    if g.ifs:
                        bad(f"filter {src(g.ifs[0])[:60]}", f"`{col}` drops ids by `{src(g.ifs[0])[:60]}` when writing (e.g. id 0 is falsy)")
                        continue
                    pe = _plain_str(a.elt, v)
                    if pe is None or pe[0] not in ('plain',):
                        if pe is not None and pe[0] == 'raw':
                            bad(f"join of raw ids", f"`{col}`: str.join over non-string ids raises TypeError")
                        else:
                            unk(a.elt, f"id cell form `{src(a.elt)[:60]}` not recognised")
                    continue
                unk(a, f"`{col}` join argument not recognised")
                continue
            if ps is not None:
                bad(f"{src(leaf)[:80]}", f"`{col}` is written as `{src(leaf)[:60]}`, not as ids joined by {ID_SEP!r}")
                continue
            unk(leaf, f"writer form `{src(leaf)[:60]}` of `{col}` not recognised")
    if ok:
        o.site(f, node, f"writer {col} ({kind}): {src(e)[:70]}")


_TEXT_ALTER = ('strip', 'lstrip', 'rstrip', 'lower', 'upper', 'title', 'capitalize', 'casefold', 'replace', 'splitlines',
               'expandtabs', 'encode', 'translate', 'removeprefix', 'removesuffix', 'swapcase', 'center', 'ljust', 'rjust', 'zfill')


def _text_altering(leaf, S):
    n = leaf
    if isinstance(n, ast.Call) and isinstance(n.func, ast.Name) and n.func.id in ('str', 'repr') and len(n.args) == 1:
        if n.func.id == 'repr' and same(n.args[0], S):
            return True
        n = n.args[0]
    if isinstance(n, ast.Subscript) and _mentions(n.value, S) and isinstance(n.slice, ast.Slice):
        return True
    if isinstance(n, ast.Call) and isinstance(n.func, ast.Attribute) and n.func.attr in _TEXT_ALTER and _mentions(n.func.value, S):
        return True
    if isinstance(n, ast.Call) and isinstance(n.func, ast.Attribute) and n.func.attr == 'join' and n.args and _mentions(n.args[0], S):
        return True
    return False


def _strip_ws(n):
    while isinstance(n, ast.Call) and isinstance(n.func, ast.Attribute) and n.func.attr == 'strip' and not n.args:
        n = n.func.value
    return n


def _reader_column(ctx, o, f, node, col, vx, S, W, R):
    kind = KIND[col]
    info = R.setdefault(col, {})
    ok = True
    has_empty_case = False
    unguarded_value = None

    def bad(construct, msg, fn=f, nd=node):
        nonlocal ok
        ok = False
        o.refute(fn, nd, f"{col}: {construct}"[:150], msg)

    def unk(construct, msg):
        nonlocal ok
        ok = False
        o.undecided(f, node, f"{col}: {src(construct) if isinstance(construct, ast.AST) else construct}"[:150], msg)

    cases = split_cases(ctx, f, vx)
    for conds, leaf in cases:
        facts, unknown = sym_facts(conds, S)
        if 'digits' in facts and kind in ('int', 'optint', 'float', 'idlist'):
            bad("isdigit() guard", f"`{col}` is parsed only when the cell is all digits: negative numbers"
                                   f"{' and fractions' if kind == 'float' else ''} are dropped")
            continue
        if unknown:
            unk(unknown[0][0], f"parser of `{col}` branches on a condition the rule does not understand")
            continue
        empty = bool(facts & {'empty', 'falsy', 'none'})
        nonempty = bool(facts & {'nonempty', 'truthy'})
        if empty:
            has_empty_case = True
            if kind in ('date', 'float', 'optint'):
                if not (isinstance(leaf, ast.Constant) and leaf.value is None):
                    bad(f"empty cell -> {src(leaf)[:50]}", f"an empty `{col}` cell (written for None) is read as `{src(leaf)[:50]}`; expected None")
            elif kind == 'text':
                if not ((isinstance(leaf, ast.Constant) and leaf.value in (None, '')) or same(leaf, S)):
                    bad(f"empty cell -> {src(leaf)[:50]}", f"an empty `{col}` cell is read as `{src(leaf)[:50]}`; expected None or ''")
            elif kind == 'bool':
                if isinstance(leaf, ast.Constant) and leaf.value not in (False, None, 0, ''):
                    bad(f"empty cell -> {src(leaf)[:50]}", f"an empty `{col}` cell is read as {src(leaf)[:50]}; expected False")
            elif kind == 'idlist':
                if not ((isinstance(leaf, (ast.List, ast.Tuple)) and not leaf.elts) or is_empty_container(leaf)):
                    bad(f"empty cell -> {src(leaf)[:50]}", f"an empty `{col}` cell is read as `{src(leaf)[:50]}`; expected an empty list")
            continue
        if not nonempty:
            unguarded_value = leaf
        # ---- value forms
        if kind in ('int', 'optint'):
            if isinstance(leaf, ast.Call) and isinstance(leaf.func, ast.Name) and leaf.func.id == 'int' and len(leaf.args) == 1 \
                    and not leaf.keywords and same(_strip_ws(leaf.args[0]), S):
                continue
            if isinstance(leaf, ast.Constant) and leaf.value is None:
                bad(f"None when {cond_text(conds)[:60]}", f"`{col}` is read as None for non-empty cells ({cond_text(conds)[:60]})")
                continue
            if _mentions(leaf, S) and any(isinstance(n, ast.Call) and isinstance(n.func, ast.Name) and n.func.id == 'abs' for n in ast.walk(leaf)):
                bad(src(leaf)[:60], f"`{col}` is read through abs(): negative ids change")
                continue
            if same(leaf, S) or (isinstance(leaf, ast.Call) and isinstance(leaf.func, ast.Name) and leaf.func.id == 'str'):
                bad(src(leaf)[:60], f"`{col}` is left as text `{src(leaf)[:40]}`; ids are integers (expected int(cell))")
                continue
            unk(leaf, f"parser form `{src(leaf)[:60]}` of `{col}` not recognised")
        elif kind == 'float':
            if isinstance(leaf, ast.Call) and isinstance(leaf.func, ast.Name) and leaf.func.id == 'float' and len(leaf.args) == 1 \
                    and same(_strip_ws(leaf.args[0]), S):
                continue
            if isinstance(leaf, ast.Call) and isinstance(leaf.func, ast.Name) and leaf.func.id in ('round', 'int') and _mentions(leaf, S):
                bad(src(leaf)[:60], f"`{col}` is read through `{src(leaf)[:40]}`: digits are lost (expected float(cell))")
                continue
            if isinstance(leaf, ast.Constant):
                bad(f"{src(leaf)} when {cond_text(conds)[:60]}", f"`{col}` is read as the constant {src(leaf)} for non-empty cells")
                continue
            unk(leaf, f"parser form `{src(leaf)[:60]}` of `{col}` not recognised")
        elif kind == 'date':
            if isinstance(leaf, ast.Call) and isinstance(leaf.func, ast.Attribute) and leaf.func.attr == 'strptime' and len(leaf.args) == 2 \
                    and same(_strip_ws(leaf.args[0]), S) and attr_path(leaf.func.value) in ('datetime', 'datetime.datetime'):
                fmt = const_str(leaf.args[1])
                if fmt is None:
                    unk(leaf.args[1], f"date format of `{col}` is not a constant")
                else:
                    info['fmt'] = fmt
                    wf = W.get(col, {}).get('fmt')
                    if fmt != DATE_FMT:
                        bad(f"strptime({fmt!r})", f"`{col}` is parsed with format {fmt!r}; the property fixes dd.mm.yy ({DATE_FMT!r})"
                                                  + (f" and the writer uses {wf!r}" if wf else ''))
                    elif wf is not None and wf != fmt:
                        bad(f"strptime({fmt!r}) vs strftime({wf!r})", f"`{col}` is written with {wf!r} and parsed with {fmt!r}")
                continue
            if isinstance(leaf, ast.Constant) or same(leaf, S):
                bad(src(leaf)[:60], f"`{col}` is read as `{src(leaf)[:40]}` instead of strptime(cell, {DATE_FMT!r})")
                continue
            unk(leaf, f"parser form `{src(leaf)[:60]}` of date column `{col}` not recognised")
        elif kind == 'text':
            if same(leaf, S) or (isinstance(leaf, ast.Call) and isinstance(leaf.func, ast.Name) and leaf.func.id == 'str'
                                 and len(leaf.args) == 1 and same(leaf.args[0], S)):
                continue
            if _text_altering(leaf, S):
                bad(src(leaf)[:60], f"text column `{col}` is altered on read (`{src(leaf)[:50]}`)")
                continue
            if isinstance(leaf, ast.Constant):
                bad(f"{src(leaf)} when {cond_text(conds)[:60]}", f"`{col}` is read as the constant {src(leaf)} for non-empty cells")
                continue
            unk(leaf, f"parser form `{src(leaf)[:60]}` of text column `{col}` not recognised")
        elif kind == 'bool':
            wt, wf_ = W.get(col, {}).get('true', 'True'), W.get(col, {}).get('false', 'False')
            acc = _bool_accepts(leaf, S)
            if acc is None:
                if isinstance(leaf, ast.Call) and isinstance(leaf.func, ast.Name) and leaf.func.id == 'bool' and _mentions(leaf, S):
                    bad(src(leaf)[:60], f"`{col}` is read with bool(cell): the text 'False' is truthy")
                else:
                    unk(leaf, f"parser form `{src(leaf)[:60]}` of `{col}` not recognised")
                continue
            if not acc(wt) or acc(wf_):
                bad(src(leaf)[:60], f"`{col}` is written as {wt!r}/{wf_!r} but read by `{src(leaf)[:50]}`, which maps "
                                    f"{wt!r} to {acc(wt)} and {wf_!r} to {acc(wf_)}")
        elif kind == 'idlist':
            _reader_idlist(leaf, S, col, info, W, bad, unk)
    if ok and not has_empty_case and unguarded_value is not None and kind in ('date', 'float', 'optint', 'idlist'):
        bad(f"no empty-cell case: {src(unguarded_value)[:60]}", f"`{col}` is parsed by `{src(unguarded_value)[:50]}` without an empty-cell case: "
                                                                 f"None is written as '' and raises on read")
    if ok:
        o.site(f, node, f"reader {col} ({kind}): {src(vx)[:70]}")


def _bool_accepts(leaf, S):
    """predicate on the cell text the bool parser computes, as a python function; None if not recognised"""
    if isinstance(leaf, ast.Compare) and len(leaf.ops) == 1:
        l, op, r = leaf.left, leaf.ops[0], leaf.comparators[0]
        if not _mentions(l, S):
            l, r = r, l
        low = False
        if isinstance(l, ast.Call) and isinstance(l.func, ast.Attribute) and l.func.attr in ('lower', 'casefold') and same(_strip_ws(l.func.value), S):
            low = True
        elif not same(_strip_ws(l), S):
            return None
        vals = [r.value] if const_str(r) is not None else const_seq(r)
        if vals is None:
            return None
        if isinstance(op, (ast.Eq, ast.In)):
            return lambda t: (t.lower() if low else t) in vals
        if isinstance(op, (ast.NotEq, ast.NotIn)):
            return lambda t: (t.lower() if low else t) not in vals
    return None


def _reader_idlist(leaf, S, col, info, W, bad, unk):
    n = leaf
    if isinstance(n, ast.Call) and isinstance(n.func, ast.Name) and n.func.id == 'list' and len(n.args) == 1:
        n = n.args[0]
    elt = it = None
    ifs = []
    var = None
    if isinstance(n, (ast.ListComp, ast.GeneratorExp)) and len(n.generators) == 1 and isinstance(n.generators[0].target, ast.Name):
        g = n.generators[0]
        var = ast.Name(id=g.target.id, ctx=ast.Load())
        elt, it, ifs = n.elt, g.iter, g.ifs
    elif isinstance(n, ast.Call) and isinstance(n.func, ast.Name) and n.func.id == 'map' and len(n.args) == 2 \
            and isinstance(n.args[0], ast.Name) and n.args[0].id == 'int':
        it = n.args[1]
    else:
        unk(leaf, f"parser form `{src(leaf)[:60]}` of `{col}` not recognised")
        return
    if any(isinstance(c, ast.Call) and isinstance(c.func, ast.Name) and c.func.id in ('sorted', 'reversed', 'set') for c in ast.walk(it)):
        bad(src(it)[:60], f"`{col}` is read through `{src(it)[:50]}`: the order (or multiplicity) of predecessors changes")
        return
    if not (isinstance(it, ast.Call) and isinstance(it.func, ast.Attribute) and it.func.attr == 'split' and same(_strip_ws(it.func.value), S)):
        unk(it, f"`{col}` is not split from the cell text")
        return
    if len(it.args) != 1 or const_str(it.args[0]) is None:
        bad(src(it)[:60], f"`{col}` is split with `{src(it)[:50]}`; expected split({ID_SEP!r})")
        return
    sep = it.args[0].value
    info['sep'] = sep
    ws = W.get(col, {}).get('sep')
    if sep != ID_SEP:
        bad(f"split({sep!r})", f"`{col}` is split at {sep!r}; the property fixes {ID_SEP!r}" + (f" and the writer joins with {ws!r}" if ws else ''))
        return
    if ws is not None and ws != sep:
        bad(f"split({sep!r}) vs {ws!r}.join", f"`{col}` is joined with {ws!r} and split at {sep!r}")
        return
    if elt is not None:
        if not (isinstance(elt, ast.Call) and isinstance(elt.func, ast.Name) and elt.func.id == 'int' and len(elt.args) == 1
                and same(_strip_ws(elt.args[0]), var)):
            if any(isinstance(c, ast.Call) and isinstance(c.func, ast.Name) and c.func.id == 'abs' for c in ast.walk(elt)):
                bad(src(elt)[:60], f"`{col}` ids are read through abs(): negative ids change")
            elif same(elt, var):
                bad(src(elt)[:60], f"`{col}` ids stay text; ids are integers (expected int(v))")
            else:
                unk(elt, f"id parser `{src(elt)[:60]}` not recognised")
            return
        from sa.facts import split_conj
        from .c13_util import atom_fact
        for c in ifs:
            for a, pol in split_conj(c, True):
                fact = atom_fact(a, pol, var)
                if fact == 'digits':
                    bad(f"filter {src(c)[:60]}", f"`{col}` keeps only fragments that are all digits (`{src(c)[:50]}`): negative predecessor ids are dropped")
                    return
                if fact in ('nonempty', 'truthy'):
                    continue
                if fact is None:
                    unk(c, f"`{col}` fragments are filtered by `{src(c)[:60]}`")
                else:
                    bad(f"filter {src(c)[:60]}", f"`{col}` fragments are filtered by `{src(c)[:50]}`")
                return


def ob_converters(ctx, o, F):
    w = find_writer(ctx, o)
    r = find_reader(ctx, o)
    if w is None or r is None:
        return
    f, fx, hcall, rcall, rfor = w
    W, R = {}, {}
    rowvar = rfor.target.id
    if F.row_elts is None:
        o.undecided(f, rcall, 'row literal', "the row literal was not recognised (see C13.columns): writer forms cannot be paired with columns")
    else:
        for col, e in zip(COLUMNS, F.row_elts):
            S = ast.Attribute(value=ast.Name(id=rowvar, ctx=ast.Load()), attr=col, ctx=ast.Load())
            if not _mentions(e, S):
                continue        # reported by C13.columns
            _writer_column(ctx, o, f, rcall, col, e, S, W)
    rf = r['func']
    cells = F.reader_cells
    if cells is None:
        o.undecided(rf, r['ctor'], 'reader cells', "TaskRaw(...) cells were not recognised (see C13.reader-keys)")
        return
    for col in COLUMNS:
        if col not in cells:
            continue
        vx, cell, key = cells[col]
        if key != col:
            continue
        _reader_column(ctx, o, rf, r['ctor'], col, vx, cell, W, R)


# @@PART3@@
