"""C13 - write_csv followed by read_csv reproduces the WBS.   (DESIGN.md section 5, C13; rule family R10 table agreement)

The spec side (column names and order, date format, separators, field kinds, the list of data fields) is taken from the
property text; the code side is read from io/csv_io.py, io/raw.py and the Task / TaskRaw constructors.

Obligations
  columns        __DEFAULT_FIELDS == the ten names in order; header row = that list + discovered custom list; row literal
                 has ten entries and entry i derives from <row task>.<column i>; custom cells iterate the same list
  reader-keys    TaskRaw keyword K is fed from row[header['K']] for exactly the ten names; every other header goes to **kwargs;
                 header map is name -> column index
  converters     per column the writer form and the reader parser are an inverse pair (table in `KIND`), same date format
                 constant, full float precision, same id separator, negative ids accepted, None <-> empty cell
  io-modes       open(): text mode, explicit equal encodings, newline '' or '\\n' on both sides; csv delimiter passed through
                 with equal defaults, no one-sided dialect options; BOM stripped from header names
  fields-covered every data field of the property travels Task -> TaskRaw -> row -> TaskRaw -> Task
  no-leak        the generic attribute copies do not move structural raw keys onto tasks nor private task fields onto raws
  id-opacity     ids are never compared with literals, tested for truth or used in arithmetic
  order          loops iterate in file / WBS order, results are appended

Round 3 additions: io-modes refutes a csv.writer lineterminator that lacks '\\r' or '\\n' (the writer only quotes fields that
contain a character of the terminator, CPython < 3.13); converters refutes a hand-built datetime(<fixed century> + yy, ..)
date parser (cannot reproduce %y over 1969-2068) and judges value forms under a not-understood extra condition on their own;
reader-keys follows a custom column selection hoisted out of the row loop (`[(k, v) for k, v in header.items() if ..]`);
fields-covered resolves a copy filter set computed once in the first pass (`if names is None: names = set(raw.__dict__)`)
and refutes the live-view variant (`raw.__dict__.keys()` / `vars(raw)` kept across rows).

Round 4 additions: read_csv / write_csv may delegate the file handling to one private helper (`_entry_body`: parameters are
looked through to the entry function's arguments and defaults); tasks_to_raws / raws_to_wbs may build their objects through a
per-item helper called in a loop, a list comprehension or map() (`_item_helper`); custom column discovery may be a two-generator
dict comprehension; reader-keys refutes a **kwargs dict created once before the row loop when a cell is stored under a
row-dependent condition (stale values of earlier rows; an unconditional store into a shared dict is accepted); id-opacity
refutes a predecessor filter `p.id in S` whose S is still being filled by the loop that builds the raws.

Round 5 additions: rows may be written by `writerows(..)` from a comprehension or a private generator (`for t in raws: yield
ROW`, see _row_generator); custom column discovery may append names to a list guarded by `k not in L` (missing guard ->
refuted: duplicate columns); header vs row custom lists that differ by a sorted()/reversed() are refuted; order checks where
`<task>.predecessors` is filled in io/raw.py (_pred_rebuild): elements must come from walking `<raw>.predecessor_ids` in
order - walking another sequence filtered by membership in the listed ids is refuted (order of that sequence, duplicates merged).

Round 6 additions: TaskRaw(**values, **kwargs) with `values` filled from a module level column -> parser table is unrolled
into keywords (_table_kwargs); several unresolved ** arguments make "column not passed" undecided, not refuted; the custom cell
guard is read with its polarity (`'' if k not in t.__dict__ or .. else value`), an inverted guard is refuted, a presence test the
rule cannot evaluate is undecided; a custom column list filtered on the per-name value the discovery dict records is refuted;
validation guards (`if ..: raise`) in the header map builder are judged - membership of the expected names in the RAW header
row while names are BOM-stripped is refuted; order checks where `<parent>.children` is filled (_children_rebuild): assigning
the list per `itertools.groupby(rows, key=parent_id)` group over unsorted rows is refuted.

Round 7 additions: the row loop of read_csv may live in a private generator (`for row in rows: ..; yield TaskRaw(..)`) consumed
by list(..); `.predecessors` / `.children` may be filled through a local alias of the list; csv.reader over
str.splitlines(keepends=True) is refuted (splitlines breaks at more characters than the file's line structure); a generic
attribute copy that passes values through a numeric cast (builtin, a helper returning int/float(value), or its expanded
conditional form) is refuted, str() is accepted, other wrappers are undecided; a custom column list read from a module level
container that functions store into (cross-call cache) is refuted.

Round 8 additions: table-driven writer cells `[fmt(getattr(task, name)) for name, fmt in <literal table>]` are unrolled
(_unroll_listcomp); `**{f: getattr(x, f) for f in <literal names>}` / `**{'id': ..}` in the TaskRaw / Task constructor calls are
unrolled into keywords; a header map built in place in read_csv is recognised; NAME_SET = frozenset(NAMES) is a constant;
`S in ('', 'None')` is an emptiness test, and for TEXT columns an emptiness test that also holds for non-empty cells (literal
spellings of "missing", test after strip()) is refuted; work-list tree walks (W.pop()/popleft() with W.extend()/extendleft()) are
judged: same side without reversed(..) -> siblings reversed (refuted), with reversed(..) -> pre-order, other combinations undecided.

Round 9 additions: parent_id / predecessor_ids assigned to the new TaskRaw AFTER construction (`if parent: raw.parent_id =
parent.id`, `raw.predecessor_ids = <list filled by one loop>`) are followed (_post_ctor_store) instead of being reported as not
recorded; a constructor keyword `<constant> if C else x.field` is refuted when C says nothing about x.field (the value is
dropped for some objects), accepted when C only says the field is absent; joining predecessor ids with a function parameter
(e.g. the csv delimiter) is refuted - the property fixes ';'.

Round 10 additions: a row assembled statement by statement (`row = [..]`, append / extend / +=, if/else appends, loops over
literal tuples unrolled, a final loop over the custom column list) is read as <fixed cells> + <custom cells> (_incremental_row);
the bool reader must keep the legacy spelling 'True'/'False' (str of the bool) when the writer changes its own spelling;
unicodedata.normalize(..) counts as text altering; an altered text in a Task(..)/TaskRaw(..) keyword or in the generic copy's
value (also in the expanded conditional form of a helper) is refuted.

Round 11 additions: a row wrapped into a small immutable accessor class of the module (`record = _Record(header, row)`, `record['id']`
with `__getitem__` returning `self._cells[self._columns[column]]`) is folded back to row[header['id']] by FX.x (c13_util._fold_records;
a class that stores into self outside __init__ is not followed -> undecided); a **kwargs value that passes the row to a call the rule
cannot open is undecided instead of refuted; the default column list constant is found by its content, not by its name; the generic
Task -> raw copy may select its names up front (`names = [k for k in t.__dict__ if C]; for n in names: raw.__setattr__(n, ..)`,
c13_util._peel_selection); io-modes reads `csv.reader(g(file))` with a private line generator g as the generator expression it
stands for (_gen_as_comp) and refutes one that removes U+FEFF from every line (text values lose the character); converters refutes
a formatter memoised with functools.lru_cache / cache (typed=False) that serves the bool column and a numeric column (True / 1 / 1.0
share one cache entry; read from the module text because the normaliser splices such helpers away); order refutes a parameter
whose default is a mutable object built at definition time (`wbs: WBS = WBS()`, `acc=[]`) that the function stores into or returns
(_shared_defaults: state shared by all calls).

Not decided: the csv module's quoting (trusted stdlib, default dialect only), a hand-rolled date parser with its own year
pivot (undecided), custom attribute
names that collide with Task members, tasks whose parent_id is dangling, numeric behaviour of float()/str().
Known finding (F20): min_start reaches the file as a custom column but is skipped by the `not in dir(t)` filter on rebuild.
"""
from __future__ import annotations

import ast

from sa.flow import subst
from sa.model import walk_no_nested, src
from sa.pat import same, attr_path
from .c13_util import (bind_call, package_helper, built_list, fx_of, split_cases, helper_opaque, sym_facts, cond_text, StaticNames, KeyEnv, eval_filter,
                       failing_atoms, generic_copies, set_attr_call, get_attr_expr, keys_owner, dict_owner, parent_map,
                       call_kwargs, const_str, const_seq, module_const_stmt, module_consts, is_empty_container)

# ----------------------------------------------------------------------------------------------------- spec (property)
COLUMNS = ['id', 'name', 'resource', 'start', 'end', 'estimate', 'spent', 'milestone', 'parent_id', 'predecessor_ids']
KIND = {'id': 'int', 'name': 'text', 'resource': 'text', 'start': 'date', 'end': 'date', 'estimate': 'float',
        'spent': 'float', 'milestone': 'bool', 'parent_id': 'optint', 'predecessor_ids': 'idlist'}
NULLABLE = {'text', 'date', 'float', 'optint'}
DATE_FMT = '%d.%m.%y'
ID_SEP = ';'
DELIMITER = ';'
BOM = '\ufeff'
DATA_FIELDS = ['id', 'name', 'resource', 'start', 'end', 'estimate', 'spent', 'milestone', 'min_start']
FIELD_KIND = dict(KIND, min_start='date')
STRUCTURAL = ['parent_id', 'predecessor_ids']
CUSTOM = 'custom_attribute_x'          # stands for any custom attribute name

CSV = 'io.csv_io'
RAW = 'io.raw'


class Facts:
    """facts shared between obligations (filled by the earlier ones; None = could not be established)"""

    def __init__(self):
        self.row_loop = None        # ast.For of the row loop in write_csv
        self.row_var = None         # ast.Name
        self.row_elts = None        # expanded fixed part of the row literal (list of exprs)
        self.row_custom = None      # (comprehension node expanded) custom part of the row
        self.custom_ok = False      # custom discovery + emission recognised and correct
        self.discover_conds = None  # (conds, keyvar, owner expr) of the custom column discovery
        self.reader_cells = None    # keyword -> (expanded value, cell node, header key)
        self.kwargs_filter = None   # (conds, keyvar)
        self.kwargs_ok = False
        self.bom = None             # (stripped?, func, node) of the header name expression


def check(ctx):
    prog = ctx.prog
    F = Facts()
    ctx.assume("WBS order is the order of WBS.tasks (pre-order of the hierarchy); csv.reader/csv.writer quoting with the "
               "default dialect is trusted")
    ctx.assume("term expansion assumes no aliasing writes between a definition and its use inside one function")
    for oid, fam, text, floor, fn in [
        ('columns', 'R10', "header list == property's ten names in order; row entry i derives from task.<column i>; header and "
                           "rows iterate the same custom column list", 33, ob_columns),
        ('reader-keys', 'R10', "TaskRaw keyword K is read from row[header['K']] for exactly the ten names, all other headers go "
                               "to **kwargs, header map is name -> index", 12, ob_reader_keys),
        ('converters', 'R10', "writer form and reader parser of every column are an inverse pair (date format %d.%m.%y on both "
                              "sides, full float precision, ';' joined ids incl. negative, None <-> empty cell)", 20, ob_converters),
        ('io-modes', 'R10', "open(): text mode, explicit equal encoding, newline '' or '\\n' on both sides; csv delimiter defaults "
                            "agree; BOM stripped from header names", 9, ob_io_modes),
        ('fields-covered', 'R10', "id, name, resource, start, end, estimate, spent, milestone, min_start and custom attributes "
                                  "travel Task -> TaskRaw -> row -> TaskRaw -> Task", 10, ob_fields),
        ('no-leak', 'R9', "generic attribute copies exclude TaskRaw's structural keys (raw -> Task) and Task's private fields "
                          "(Task -> raw)", 4, ob_no_leak),
        ('id-opacity', 'R10', "ids are only used as keys, formatted, passed on or compared with None / other ids - never compared "
                              "with a literal, tested for truth or used in arithmetic", 12, ob_id_opacity),
        ('order', 'R10', "loops iterate in file / WBS order (no sorted/reversed/set), elements are appended", 26, ob_order),
    ]:
        o = ctx.ob(oid, fam, text, floor=floor)
        ctx.guarded(o, lambda o, fn=fn: fn(ctx, o, F))


# ======================================================================================================== shared finders
def _is_csv_call(func, call, what):
    p = attr_path(call.func)
    if p == 'csv.' + what:
        return True
    return p == what and func.module.imports.get(what) == 'csv.' + what


def _default_list(ctx, node, fx):
    """python list a (resolved) expression denotes, or None"""
    return const_seq(node)


_ENTRY = {}


def _entry_body(ctx, name):
    """read_csv / write_csv, or - when that function only delegates - the single private helper of the same module that holds
    the open(...) call  ->  (function with the file handling, {helper parameter: argument expression in the entry function} or
    None, the call in the entry function or None)"""
    f = ctx.prog.func(CSV + '.' + name)
    cache = _ENTRY.setdefault(id(ctx), {})
    if name in cache:
        return cache[name]
    is_open = lambda c: isinstance(c, ast.Call) and isinstance(c.func, ast.Name) and c.func.id == 'open'
    res = (f, None, None)
    if not any(is_open(c) for c in walk_no_nested(f.node)):
        cands = []
        for c in walk_no_nested(f.node):
            hf = package_helper(ctx, f, c) if isinstance(c, ast.Call) else None
            if hf is not None and hf.module is f.module and hf is not f and any(is_open(x) for x in walk_no_nested(hf.node)):
                cands.append((hf, bind_call(c, hf), c))
        fx = fx_of(ctx, f)
        if len(cands) == 1 and cands[0][1] is not None and not fx.enclosing_fors(cands[0][2]) \
                and not fx.cfg.conditions(fx.cfg.node_containing(cands[0][2])):
            hf, b, c = cands[0]
            res = (hf, {p_: fx.x(a) for p_, a in b.items()}, c)
    cache[name] = res
    return res


def _row_generator(ctx, f, fx, arg):
    """the argument of writerows(..): `[ROW for t in RAWS]` / `(ROW for ..)`, or a call of a private generator
    `def g(.., raws, ..): for t in raws: [locals]; yield ROW`
    -> synthetic ast.For(target=t, iter=<RAWS expanded in f>) carrying .c13_row = (function of ROW, ROW node, helper bind or None)"""
    a = arg
    if isinstance(a, ast.Name) and fx.flow.node_of_expr(a) is not None:
        a = fx.def_value(a.id, a) or a
    if isinstance(a, ast.Call) and isinstance(a.func, ast.Name) and a.func.id in ('list', 'iter', 'tuple') and len(a.args) == 1 and not a.keywords:
        a = a.args[0]
    if isinstance(a, (ast.ListComp, ast.GeneratorExp)) and len(a.generators) == 1 and not a.generators[0].ifs \
            and isinstance(a.generators[0].target, ast.Name):
        g = a.generators[0]
        lp = ast.For(target=g.target, iter=fx.x(g.iter), body=[], orelse=[])
        lp.c13_row = (f, a.elt, None)
        return lp
    hf = package_helper(ctx, f, a)
    if hf is None or hf.module is not f.module:
        return None
    b = bind_call(a, hf)
    body = [st for st in hf.node.body if not (isinstance(st, ast.Expr) and isinstance(st.value, ast.Constant))]
    ylds = [n for n in walk_no_nested(hf.node) if isinstance(n, (ast.Yield, ast.YieldFrom))]
    if b is None or len(body) != 1 or not isinstance(body[0], ast.For) or not isinstance(body[0].target, ast.Name) or body[0].orelse \
            or len(ylds) != 1 or not isinstance(ylds[0], ast.Yield) or ylds[0].value is None:
        return None
    inner = body[0].body
    if not (isinstance(inner[-1], ast.Expr) and inner[-1].value is ylds[0]) \
            or any(not isinstance(st, (ast.Assign, ast.AnnAssign)) for st in inner[:-1]):
        return None
    fxh = fx_of(ctx, hf)
    bind = {p_: (fx.x(x) if fx.flow.node_of_expr(x) is not None else x) for p_, x in b.items()}
    lp = ast.For(target=body[0].target, iter=subst(fxh.x(body[0].iter), bind), body=[], orelse=[])
    lp.c13_row = (hf, ylds[0].value, bind)
    return lp


def find_writer(ctx, o):
    """-> (func, fx, header_call, row_call, row_for) of write_csv or None after recording undecided.
    row_for is the `for task in raws` loop around the row writerow, or a synthetic loop (see _row_generator) for writerows(..)"""
    f = _entry_body(ctx, 'write_csv')[0]
    fx = fx_of(ctx, f)
    wr = [c for c in walk_no_nested(f.node) if isinstance(c, ast.Call) and isinstance(c.func, ast.Attribute)
          and c.func.attr in ('writerow', 'writerows')]
    hdr = [c for c in wr if not fx.enclosing_fors(c) and c.func.attr == 'writerow']
    many = [c for c in wr if not fx.enclosing_fors(c) and c.func.attr == 'writerows']
    rows = [c for c in wr if fx.enclosing_fors(c)]
    if len(hdr) == 1 and len(many) == 1 and not rows and len(many[0].args) == 1 and len(hdr[0].args) == 1 \
            and same(hdr[0].func.value, many[0].func.value):
        lp = _row_generator(ctx, f, fx, many[0].args[0])
        if lp is None:
            o.undecided(f, many[0], many[0], "rows are written by writerows(..) from a source the rule does not recognise")
            return None
        lp.c13_at = many[0]
        return f, fx, hdr[0], many[0], lp
    if len(hdr) != 1 or len(rows) != 1 or many or any(c.func.attr != 'writerow' or len(c.args) != 1 for c in wr):
        o.undecided(f, f.node, 'write_csv writerow calls', f"expected one header writerow outside the row loop and one writerow "
                                                           f"inside it, found {len(hdr) + len(many)} / {len(rows)}")
        return None
    fors = fx.enclosing_fors(rows[0])
    if len(fors) != 1 or not isinstance(fors[0].target, ast.Name):
        o.undecided(f, rows[0], rows[0], "row writerow is not inside exactly one `for <task> in <raws>` loop")
        return None
    return f, fx, hdr[0], rows[0], fors[0]


def find_reader(ctx, o):
    """-> dict(func, fx, reader_call, loop, rowvar, hdr_name, hdr_value, ctor) of read_csv or None"""
    f = _entry_body(ctx, 'read_csv')[0]
    fx = fx_of(ctx, f)
    is_ctor = lambda c: isinstance(c, ast.Call) and isinstance(c.func, ast.Name) and c.func.id == 'TaskRaw'
    ctors = [c for c in walk_no_nested(f.node) if is_ctor(c)]
    if not ctors:
        # the row -> TaskRaw conversion may live in a private helper called once per row
        for c in walk_no_nested(f.node):
            hf = package_helper(ctx, f, c) if isinstance(c, ast.Call) else None
            if hf is None or hf.module is not f.module:
                continue
            inner = [x for x in walk_no_nested(hf.node) if is_ctor(x)]
            fors = fx.enclosing_fors(c)
            b = bind_call(c, hf)
            if len(inner) != 1 or len(fors) != 1 or not isinstance(fors[0].target, ast.Name) or b is None \
                    or fx_of(ctx, hf).enclosing_fors(inner[0]):
                continue
            rowp = [p_ for p_, a in b.items() if isinstance(a, ast.Name) and a.id == fors[0].target.id]
            it = fx.x(fors[0].iter)
            if len(rowp) != 1 or not (isinstance(it, ast.Call) and _is_csv_call(f, it, 'reader')):
                continue
            bind = {p_: fx.x(a) for p_, a in b.items() if p_ != rowp[0]}
            return dict(func=hf, fx=fx_of(ctx, hf), reader=it, loop=fors[0], rowvar=rowp[0], ctor=inner[0], cfunc=f, cfx=fx,
                        bind=bind, helper=True)
    if not ctors:
        # .. or the whole row loop lives in a private generator `def g(rows, header): for row in rows: ..; yield TaskRaw(..)`
        # consumed by read_csv (list(g(reader, header)))
        for c in walk_no_nested(f.node):
            hf = package_helper(ctx, f, c) if isinstance(c, ast.Call) else None
            if hf is None or hf.module is not f.module or fx.enclosing_fors(c):
                continue
            inner = [x for x in walk_no_nested(hf.node) if is_ctor(x)]
            ylds = [n for n in walk_no_nested(hf.node) if isinstance(n, (ast.Yield, ast.YieldFrom))]
            b = bind_call(c, hf)
            hfx = fx_of(ctx, hf)
            if len(inner) != 1 or len(ylds) != 1 or not isinstance(ylds[0], ast.Yield) or b is None:
                continue
            yv = ylds[0].value
            if not (yv is inner[0] or (isinstance(yv, ast.Name) and hfx.def_value(yv.id, yv) is inner[0])):
                continue
            fors = hfx.enclosing_fors(inner[0])
            yfors = hfx.enclosing_fors(ylds[0])
            if len(fors) != 1 or yfors != fors or not isinstance(fors[0].target, ast.Name) or not isinstance(fors[0].iter, ast.Name) \
                    or fors[0].iter.id not in b or hfx.flow.defs_of(fors[0].iter.id) and any(d.kind != 'param' for d in hfx.flow.defs_of(fors[0].iter.id)):
                continue
            # the yield is reached once per row: no condition between the loop header and the yield
            if hfx.cfg.conditions(hfx.cfg.node_containing(ylds[0])) != hfx.cfg.conditions(hfx.cfg.node_of(fors[0])):
                continue
            it = fx.x(b[fors[0].iter.id])
            if not (isinstance(it, ast.Call) and _is_csv_call(f, it, 'reader')):
                continue
            bind = {p_: fx.x(a) for p_, a in b.items() if p_ != fors[0].iter.id}
            return dict(func=hf, fx=hfx, reader=it, loop=fors[0], rowvar=fors[0].target.id, ctor=inner[0], cfunc=f, cfx=fx,
                        bind=bind, helper=True, loop_in_func=True, gen_call=c)
    if len(ctors) != 1:
        o.undecided(f, f.node, 'read_csv TaskRaw(...)', f"expected exactly one TaskRaw(...) call in read_csv, found {len(ctors)}")
        return None
    ctor = ctors[0]
    fors = fx.enclosing_fors(ctor)
    if len(fors) != 1 or not isinstance(fors[0].target, ast.Name):
        o.undecided(f, ctor, 'read_csv row loop', "TaskRaw(...) is not built inside exactly one `for <row> in <reader>` loop")
        return None
    loop = fors[0]
    it = fx.x(loop.iter)
    if not (isinstance(it, ast.Call) and _is_csv_call(f, it, 'reader')):
        o.undecided(f, loop, loop.iter, f"rows are not iterated from csv.reader(...) (`{src(it)}`)")
        return None
    return dict(func=f, fx=fx, reader=it, loop=loop, rowvar=loop.target.id, ctor=ctor, cfunc=f, cfx=fx, bind={}, helper=False)


def _cell_of(expr, rowvar):
    """all `row[H['K']]` / `row[H[k]]` subscripts inside expr -> [(node, header map expr, key expr)]"""
    out = []
    for n in ast.walk(expr):
        if isinstance(n, ast.Subscript) and isinstance(n.value, ast.Name) and n.value.id == rowvar and isinstance(n.slice, ast.Subscript):
            out.append((n, n.slice.value, n.slice.slice))
    return out


# ======================================================================================================== C13.columns
def ob_columns(ctx, o, F):
    prog = ctx.prog
    mod = prog.module(CSV)
    # ---- the default field list
    consts = module_consts(mod)
    # the module constant that lists the default columns, under whatever name (today __DEFAULT_FIELDS): the one literal string
    # list that shares at least half of the property's column names
    cands = []
    for nm, v in consts.items():
        seq = const_seq(fx_resolve_module(mod, v))
        if seq is not None and all(isinstance(x, str) for x in seq) and len(set(seq) & set(COLUMNS)) * 2 >= len(COLUMNS):
            cands.append(nm)
    if len(cands) > 1:      # derived constants (NAME_SET = frozenset(NAMES), A = B + []) are not the list itself
        lit = [nm for nm in cands if isinstance(consts[nm], (ast.List, ast.Tuple))]
        cands = lit if len(lit) == 1 else (['__DEFAULT_FIELDS'] if '__DEFAULT_FIELDS' in cands else cands)
    dname = cands[0] if len(cands) == 1 else '__DEFAULT_FIELDS'
    st = module_const_stmt(mod, dname)
    default_ok = False
    if st is None or dname not in consts:
        o.undecided(None, st, dname, f"module constant {dname} (list of the default columns) of io/csv_io.py not found as a single literal assignment")
    else:
        val = const_seq(fx_resolve_module(mod, consts[dname]))
        if val is None:
            o.undecided(None, st, dname, f"{dname} is not a literal list of strings")
        else:
            default_ok = _compare_columns(o, None, st, val, dname)
    w = find_writer(ctx, o)
    if w is None:
        return
    f, fx, hcall, rcall, rfor = w
    F.row_loop, F.row_var = rfor, rfor.target
    rowvar = rfor.target.id
    # ---- header row
    h = fx.x(hcall.args[0])
    hfixed, hcustom = _split_concat(h)
    hv = const_seq(hfixed) if hfixed is not None else None
    if hv is None:
        o.undecided(f, hcall, hcall, f"header row `{src(h)[:100]}` is not <literal column list> + <custom column list>")
    else:
        _compare_columns(o, f, hcall, hv, 'header row')
    rows_at = fx.cfg.node_containing(rfor.c13_at) if hasattr(rfor, 'c13_at') else fx.cfg.node_of(rfor)
    if fx.cfg.node_containing(hcall) is not None and rows_at is not None and \
            not fx.cfg.dominates(fx.cfg.node_containing(hcall), rows_at):
        o.refute(f, hcall, 'header after rows', "the header row is not written before the row loop on every path")
    # ---- row literal
    rowsrc = getattr(rfor, 'c13_row', None)
    rowf = f
    if rowsrc is not None and rowsrc[2] is not None:
        # writerows(<private generator>(..)): the row literal is the value yielded per task
        hf = rowsrc[0]
        built = _split_concat(fx_of(ctx, hf).x(rowsrc[1], keep=[rowvar]))
        r = None
        rfixed = subst(built[0], rowsrc[2])
        rcustom = subst(built[1], rowsrc[2]) if built[1] is not None else None
        rowf = hf
        hf = None
    else:
        r = fx.x(rowsrc[1] if rowsrc is not None else rcall.args[0], keep=[rowvar])
        hf = package_helper(ctx, f, r)
    if rowsrc is not None and rowsrc[2] is not None:
        pass
    elif hf is not None and hf.module is f.module:
        # the row is built by a private helper: read the row literal (and the custom cells appended to it) there
        b = bind_call(r, hf)
        taskp = [p_ for p_, a in (b or {}).items() if isinstance(a, ast.Name) and a.id == rowvar]
        rets = [n for n in walk_no_nested(hf.node) if isinstance(n, ast.Return)]
        built = None
        if b is not None and len(taskp) == 1 and len(rets) == 1 and rets[0].value is not None:
            fxh = fx_of(ctx, hf)
            rv = rets[0].value
            if isinstance(rv, ast.Name):
                built = built_list(fxh, rv.id, rv, [taskp[0]])
            if built is None and not (isinstance(rv, ast.Name) and any(isinstance(n, ast.Call) and isinstance(n.func, ast.Attribute)
                                      and isinstance(n.func.value, ast.Name) and n.func.value.id == rv.id for n in walk_no_nested(hf.node))):
                built = _split_concat(fxh.x(rv, keep=[taskp[0]]))
        if built is None:
            o.undecided(f, rcall, rcall, f"row is built by `{hf.name}` in a way the rule does not recognise")
            return
        others = {p_: a for p_, a in b.items() if p_ != taskp[0]}
        r = None
        rfixed = subst(built[0], others)
        rcustom = subst(built[1], others) if built[1] is not None else None
        rowf, rowvar = hf, taskp[0]
        F.row_var = ast.Name(id=rowvar, ctx=ast.Load())
    else:
        rfixed, rcustom = _split_concat(r)
        if isinstance(r, ast.Name) and isinstance(rfor, ast.For) and not hasattr(rfor, 'c13_row'):
            inc = _incremental_row(fx, rfor, r.id, rowvar, rcall)
            if inc is not None:
                rfixed, rcustom = inc
    F.row_func = rowf
    if isinstance(rfixed, ast.ListComp):
        # table-driven default cells: `[fmt(getattr(task, name)) for name, fmt in <literal (name, formatter) table>]`
        un = _unroll_listcomp(rfixed)
        if un is not None:
            rfixed = un
    if not isinstance(rfixed, (ast.List, ast.Tuple)) or any(isinstance(e, ast.Starred) for e in rfixed.elts):
        o.undecided(f, rcall, rcall, f"row `{src(r if r is not None else rfixed)[:100]}` is not <list literal> + <custom cells>")
        return
    elts = rfixed.elts
    if len(elts) != len(COLUMNS):
        o.refute(f, rcall, 'row length', f"the row literal has {len(elts)} fixed cells, the header has {len(COLUMNS)} columns "
                                         f"({';'.join(COLUMNS)}): cells shift under the wrong header")
        return
    F.row_elts = elts
    for i, (col, e) in enumerate(zip(COLUMNS, elts)):
        attrs = sorted({n.attr for n in ast.walk(e) if isinstance(n, ast.Attribute) and isinstance(n.value, ast.Name)
                        and n.value.id == rowvar})
        if attrs == [col]:
            o.site(rowf, None if rowf is not f else rcall, f"cell {i} <- {rowvar}.{col}")
        elif not attrs:
            o.undecided(rowf, None if rowf is not f else rcall, e, f"cell {i} (column {col}) does not read an attribute of the row task `{rowvar}`")
        else:
            o.refute(rowf, None if rowf is not f else rcall, f"cell {i}: {src(e)[:80]}", f"cell {i} is written under header `{col}` but derives from "
                                                           f"{', '.join(rowvar + '.' + a for a in attrs)}; expected {rowvar}.{col}")
    # ---- custom columns: header part and row part iterate the same discovered list
    _custom_columns(ctx, o, F, f, fx, hcall, rcall, hcustom, rcustom, rfor, rowvar, rowf)


def fx_resolve_module(mod, node):
    from .c13_util import resolve_consts
    import copy
    return resolve_consts(mod, copy.deepcopy(node), set())


def _split_concat(e):
    """A + B -> (A, B);  A -> (A, None)"""
    if isinstance(e, ast.BinOp) and isinstance(e.op, ast.Add):
        return e.left, e.right
    return e, None


def _compare_columns(o, f, node, val, what) -> bool:
    if val == COLUMNS:
        for c in COLUMNS:
            o.site(f, node, f"{what}: {c}")
        return True
    if sorted(map(str, val)) == sorted(COLUMNS):
        diff = [f"{i}:{a}!={b}" for i, (a, b) in enumerate(zip(val, COLUMNS)) if a != b]
        o.refute(f, node, f"{what} order {';'.join(map(str, val))}", f"{what} lists the ten columns in a different order "
                                                                    f"({', '.join(diff)}); the property fixes {';'.join(COLUMNS)}")
    else:
        missing = [c for c in COLUMNS if c not in val]
        extra = [c for c in val if c not in COLUMNS]
        o.refute(f, node, f"{what} {';'.join(map(str, val))}", f"{what} differs from the property's header: missing {missing}, extra {extra}")
    return False


def _keys_of_dict(e):
    """expression denoting the keys of dict D in insertion order -> D (Name, or the dict comprehension that builds it) else None"""
    if isinstance(e, (ast.Name, ast.DictComp)):
        return e
    if isinstance(e, ast.Call) and isinstance(e.func, ast.Attribute) and e.func.attr == 'keys' and not e.args:
        return _keys_of_dict(e.func.value)
    if isinstance(e, ast.Call) and isinstance(e.func, ast.Name) and e.func.id in ('list', 'tuple', 'sorted') and len(e.args) == 1 \
            and not e.keywords:
        return _keys_of_dict(e.args[0])     # sorted(): the property does not fix the order of custom columns
    if isinstance(e, (ast.ListComp, ast.GeneratorExp)) and len(e.generators) == 1 and not e.generators[0].ifs \
            and isinstance(e.generators[0].target, ast.Tuple) and len(e.generators[0].target.elts) == 2 \
            and isinstance(e.generators[0].target.elts[0], ast.Name) and _key_name(e.elt) == e.generators[0].target.elts[0].id:
        it = e.generators[0].iter       # [k for k, _ in D.items()]
        if isinstance(it, ast.Call) and isinstance(it.func, ast.Attribute) and it.func.attr == 'items' and not it.args:
            return _keys_of_dict(it.func.value)
        return None
    if isinstance(e, (ast.ListComp, ast.GeneratorExp)) and len(e.generators) == 1 and not e.generators[0].ifs \
            and isinstance(e.generators[0].target, ast.Name):
        k = e.generators[0].target.id
        elt = e.elt
        ok = isinstance(elt, ast.Name) and elt.id == k
        if isinstance(elt, ast.JoinedStr) and len(elt.values) == 1 and isinstance(elt.values[0], ast.FormattedValue) \
                and isinstance(elt.values[0].value, ast.Name) and elt.values[0].value.id == k and elt.values[0].format_spec is None:
            ok = True
        if isinstance(elt, ast.Call) and isinstance(elt.func, ast.Name) and elt.func.id == 'str' and len(elt.args) == 1 \
                and isinstance(elt.args[0], ast.Name) and elt.args[0].id == k:
            ok = True
        return _keys_of_dict(e.generators[0].iter) if ok else None
    return None


def _key_name(e):
    """k | f"{k}" | str(k)  ->  'k' (the attribute name itself, as text) else None"""
    if isinstance(e, ast.Name):
        return e.id
    if isinstance(e, ast.JoinedStr) and len(e.values) == 1 and isinstance(e.values[0], ast.FormattedValue) \
            and isinstance(e.values[0].value, ast.Name) and e.values[0].format_spec is None and e.values[0].conversion in (-1, 115):
        return e.values[0].value.id
    if isinstance(e, ast.Call) and isinstance(e.func, ast.Name) and e.func.id == 'str' and len(e.args) == 1 and isinstance(e.args[0], ast.Name) \
            and not e.keywords:
        return e.args[0].id
    return None


def _strip_list(e):
    while isinstance(e, ast.Call) and isinstance(e.func, ast.Name) and e.func.id in ('list', 'tuple', 'sorted') and len(e.args) == 1 and not e.keywords:
        e = e.args[0]
    return e


def _value_filtered_keys(e):
    """[k for k, v in D.items() if <test mentioning v>] (k possibly as f"{k}" / str(k)) -> (D name, test, v) else None"""
    if not (isinstance(e, (ast.ListComp, ast.GeneratorExp)) and len(e.generators) == 1):
        return None
    g = e.generators[0]
    it = g.iter
    if not (isinstance(it, ast.Call) and isinstance(it.func, ast.Attribute) and it.func.attr == 'items' and not it.args and isinstance(it.func.value, ast.Name)
            and isinstance(g.target, ast.Tuple) and len(g.target.elts) == 2 and all(isinstance(x, ast.Name) for x in g.target.elts)):
        return None
    kn, vn = g.target.elts[0].id, g.target.elts[1].id
    if _key_name(e.elt) != kn:
        return None
    for c in g.ifs:
        if any(isinstance(n, ast.Name) and n.id == vn for n in ast.walk(c)):
            return it.func.value.id, c, vn
    return None


def _cross_call_state(ctx, f, e):
    """some value case of e reads a module level container that functions of the module store into (a cache that survives
    the call) -> (name, the store, conditions of that case) else None"""
    mod = f.module
    consts = module_consts(mod)
    top = {t.id for st in mod.tree.body if isinstance(st, (ast.Assign, ast.AnnAssign))
           for t in (st.targets if isinstance(st, ast.Assign) else [st.target]) if isinstance(t, ast.Name)} - set(consts)
    if not top:
        return None
    stores = {}
    for q, fn in ctx.prog.funcs.items():
        if fn.module is not mod:
            continue
        loc = fx_of(ctx, fn).locals
        for n in ast.walk(fn.node):
            tgt = None
            if isinstance(n, ast.Assign):
                tgt = [t.value for t in n.targets if isinstance(t, ast.Subscript) and isinstance(t.value, ast.Name)]
            elif isinstance(n, ast.Call) and isinstance(n.func, ast.Attribute) and n.func.attr in ('setdefault', 'update', 'append', 'add', 'extend') \
                    and isinstance(n.func.value, ast.Name):
                tgt = [n.func.value]
            for t in tgt or []:
                if t.id in top and t.id not in loc:
                    stores.setdefault(t.id, n)
    if not stores:
        return None
    for conds, leaf in split_cases(ctx, f, e):
        for n in ast.walk(leaf):
            if isinstance(n, ast.Name) and isinstance(n.ctx, ast.Load) and n.id in stores:
                return n.id, stores[n.id], conds
    return None


def _incremental_row(fx, rfor, name, rowvar, rcall):
    """the row list `name` assembled statement by statement in the body of the row loop:
        name = [a, ..]; name.append(E); name.extend([..]) / name += [..]; `if c: name.append(A) else: name.append(B)`;
        `for v in (X, Y, ..): <one append per pass>` (a literal tuple: unrolled);
        finally, optionally, `for k in <custom column list>: <one append per pass>` (the custom cells)
    -> (ast.List of the fixed cells, ListComp of the custom cells or None); anything else touching the list -> None"""
    from .c13_util import loop_elt
    cells, custom = None, None

    def touches(st):
        return any(isinstance(n, ast.Name) and n.id == name for n in ast.walk(st))

    for st in rfor.body:
        if not touches(st):
            if isinstance(st, (ast.Assign, ast.AnnAssign, ast.Pass)) or (isinstance(st, ast.Expr) and isinstance(st.value, ast.Constant)):
                continue
            if any(isinstance(n, (ast.Continue, ast.Break, ast.Return)) for n in ast.walk(st)):
                return None
            continue
        if custom is not None and not (isinstance(st, ast.Expr) and st.value is rcall):
            return None             # something is added after the custom cells
        if isinstance(st, ast.Assign) and len(st.targets) == 1 and isinstance(st.targets[0], ast.Name) and st.targets[0].id == name \
                and isinstance(st.value, (ast.List, ast.Tuple)) and cells is None:
            cells = [fx.x(e, keep=[rowvar]) for e in st.value.elts]
            continue
        if cells is None:
            return None
        if isinstance(st, ast.Expr) and st.value is rcall:
            break
        if isinstance(st, ast.AugAssign) and isinstance(st.op, ast.Add) and isinstance(st.target, ast.Name) and st.target.id == name \
                and isinstance(st.value, (ast.List, ast.Tuple)):
            cells += [fx.x(e, keep=[rowvar]) for e in st.value.elts]
            continue
        if isinstance(st, ast.Expr) and isinstance(st.value, ast.Call) and isinstance(st.value.func, ast.Attribute) \
                and isinstance(st.value.func.value, ast.Name) and st.value.func.value.id == name and st.value.func.attr == 'extend' \
                and len(st.value.args) == 1 and isinstance(st.value.args[0], (ast.List, ast.Tuple)):
            cells += [fx.x(e, keep=[rowvar]) for e in st.value.args[0].elts]
            continue
        if isinstance(st, (ast.Expr, ast.If)):
            e = loop_elt(fx, [st], name, [rowvar])
            if e is None or isinstance(e, tuple):
                return None
            cells.append(e)
            continue
        if isinstance(st, ast.For) and isinstance(st.target, ast.Name) and not st.orelse \
                and not any(isinstance(n, (ast.Break, ast.Continue, ast.Return, ast.For, ast.While)) for b in st.body for n in ast.walk(b)):
            v = st.target.id
            e = loop_elt(fx, st.body, name, [rowvar, v])
            if e is None or isinstance(e, tuple):
                return None
            if isinstance(st.iter, (ast.Tuple, ast.List)):
                for x in st.iter.elts:
                    cells.append(subst(e, {v: fx.x(x, keep=[rowvar])}))
            else:
                custom = ast.fix_missing_locations(ast.ListComp(elt=e, generators=[ast.comprehension(
                    target=ast.Name(id=v, ctx=ast.Store()), iter=fx.x(st.iter, keep=[rowvar]), ifs=[], is_async=0)]))
            continue
        return None
    if cells is None:
        return None
    return ast.fix_missing_locations(ast.List(elts=cells, ctx=ast.Load())), custom


def _custom_columns(ctx, o, F, f, fx, hcall, rcall, hcustom, rcustom, rfor, rowvar, rowf):
    if hcustom is None and rcustom is None:
        o.refute(f, hcall, 'no custom columns', "neither the header nor the rows carry custom attribute columns")
        return
    if hcustom is None or rcustom is None:
        o.refute(f, rcall, 'custom columns one-sided', "custom attribute columns appear only in the header or only in the rows")
        return
    if not (isinstance(rcustom, (ast.ListComp,)) and len(rcustom.generators) == 1 and isinstance(rcustom.generators[0].target, ast.Name)):
        o.undecided(f, rcall, rcustom, "custom cells are not a single-generator list comprehension over the custom column list")
        return
    g = rcustom.generators[0]
    kv = g.target.id
    hd, rd = _keys_of_dict(hcustom), _keys_of_dict(g.iter)
    def n_sorted(e):
        return sum(1 for n in ast.walk(e) if isinstance(n, ast.Call) and isinstance(n.func, ast.Name) and n.func.id in ('sorted', 'reversed'))
    if not same(hcustom, g.iter) and hd is not None and rd is not None and same(hd, rd) and (n_sorted(hcustom) > 0) != (n_sorted(g.iter) > 0):
        o.refute(f, rcall, f"custom cells over {src(g.iter)[:60]} vs header {src(hcustom)[:40]}",
                 f"header custom columns are `{src(hcustom)[:60]}` but the row's custom cells iterate `{src(g.iter)[:60]}`: one side is re-ordered, "
                 f"so cells are written under the wrong custom header")
        return
    if not (same(hcustom, g.iter) or (hd is not None and rd is not None and same(hd, rd))):
        o.refute(f, rcall, f"custom cells over {src(g.iter)[:60]}", f"header custom columns come from `{src(hcustom)[:60]}` but the row's custom "
                                                                     f"cells iterate `{src(g.iter)[:60]}`: cells and headers can disagree")
        return
    if g.ifs:
        o.refute(f, rcall, f"custom cells filter {src(g.ifs[0])[:60]}", "custom cells are filtered while the header is not: cells shift under the wrong header")
        return
    o.site(f, rcall, f"header and rows iterate the same custom list {src(g.iter)[:40]}")
    # ---- cell value
    good = True
    for conds, leaf in split_cases(ctx, rowf, rcustom.elt):
        if isinstance(leaf, ast.Constant) and leaf.value in ('', None):
            continue          # absent attribute -> empty cell
        inner = leaf
        if isinstance(inner, ast.Call) and isinstance(inner.func, ast.Name) and inner.func.id == 'str' and len(inner.args) == 1:
            inner = inner.args[0]
        ga = get_attr_expr(inner)
        if ga is None or not (isinstance(ga[1], ast.Name) and ga[1].id == kv):
            o.undecided(f, rcall, leaf, "custom cell value is not an attribute lookup by the column name")
            good = False
            continue
        if not (isinstance(ga[0], ast.Name) and ga[0].id == rowvar):
            o.refute(f, rcall, f"custom cell {src(leaf)[:60]}", f"custom cell reads `{src(ga[0])}` instead of the row's task `{rowvar}`")
            good = False
            continue
        guarded = ga[2] is not None
        presence_atoms, inverted = [], []
        for t, pol in conds:
            # `k in task.__dict__` holds / `k not in task.__dict__` does not hold / hasattr(task, k) holds
            if isinstance(t, ast.Compare) and len(t.ops) == 1 and isinstance(t.ops[0], (ast.In, ast.NotIn)) and isinstance(t.left, ast.Name) \
                    and t.left.id == kv and keys_owner(t.comparators[0]) is not None and same(keys_owner(t.comparators[0]), ga[0]):
                presence_atoms.append(t)
                if pol == isinstance(t.ops[0], ast.In):
                    guarded = True
                else:
                    inverted.append((t, pol))
            elif isinstance(t, ast.Call) and isinstance(t.func, ast.Name) and t.func.id == 'hasattr' and len(t.args) == 2 \
                    and same(t.args[0], ga[0]):
                presence_atoms.append(t)
                if pol:
                    guarded = True
                else:
                    inverted.append((t, pol))
            elif any(isinstance(n, ast.Attribute) and n.attr == '__dict__' for n in ast.walk(t)) \
                    or any(isinstance(n, ast.Name) and n.id in ('hasattr', 'dir', 'vars', 'getattr') for n in ast.walk(t)):
                presence_atoms.append(t)        # some presence test the rule cannot evaluate (e.g. inside an `or`)
        if not guarded and inverted and len(presence_atoms) == len(inverted):
            o.refute(f, rcall, f"custom cell read when {cond_text(inverted)[:60]}", f"custom cell reads the attribute exactly when `{cond_text(inverted)[:60]}` - "
                                                                                    f"i.e. when the task does NOT have it (AttributeError), and writes '' when it has")
            good = False
        elif not guarded and presence_atoms:
            o.undecided(f, rcall, leaf, f"custom cell is read under a presence test the rule does not understand (`{cond_text(conds)[:70]}`)")
            good = False
        elif not guarded:
            o.refute(f, rcall, f"custom cell unguarded {src(leaf)[:60]}", "custom cell reads the attribute without testing that this task has it: "
                                                                          "attributes carried by only some tasks raise AttributeError")
            good = False
    if good:
        o.site(f, rcall, "custom cell = attribute of the row task by column name, '' when absent")
    # ---- discovery of the custom columns
    d = rd if rd is not None else None
    if isinstance(d, ast.DictComp) and len(d.generators) == 2 and isinstance(d.key, ast.Name) and not any(g.is_async for g in d.generators):
        # {k: .. for t in RAWS for k[, v] in t.__dict__[.items()] if ..}: the discovery loop as one comprehension (already expanded)
        from sa.facts import split_conj
        g1, g2 = d.generators
        k, stn = d.key.id, hcall
        outer_t, outer_it, inner_t, inner_it, inner_node = g1.target, g1.iter, g2.target, g2.iter, d
        conds = []
        for c in g1.ifs + g2.ifs:
            conds += split_conj(c, True)
    elif isinstance(d, ast.Name) and d.id not in fx.locals:
        st_ = _cross_call_state(ctx, f, d)
        if st_ is not None:
            o.refute(f, hcall, f"custom columns from module state {st_[0]}",
                     f"the custom column list is the module level container `{st_[0]}`, filled by `{src(st_[1])[:50]}` and kept between calls: the columns "
                     f"are those of an earlier export, not the attributes the tasks carry now (an attribute added since then gets no column and is lost)")
        else:
            o.undecided(f, hcall, hcustom, f"custom column list `{d.id}` is not a local of {f.name}")
        return
    elif d is None or not isinstance(d, ast.Name):
        vf = _value_filtered_keys(_strip_list(g.iter))
        if vf is not None:
            dn, flt, vname = vf
            o.refute(f, hcall, f"custom columns of {dn} filtered by {src(flt)[:50]}",
                     f"a custom attribute gets a column only if `{src(flt)[:50]}`, a test on the ONE value `{dn}` records per attribute name (the discovery "
                     f"loop overwrites it task by task, the last task wins): whether the attribute's column exists for all tasks depends on a single "
                     f"task's value, so attributes with real values on other tasks are dropped from the file")
            return
        st_ = _cross_call_state(ctx, f, _strip_list(g.iter))
        if st_ is not None:
            gname, store, conds_ = st_
            o.refute(f, hcall, f"custom columns from module state {gname}",
                     f"the custom column list is read from the module level container `{gname}` when `{cond_text(conds_)[:70]}`; `{gname}` is filled by "
                     f"`{src(store)[:50]}` during an earlier call, so the columns are those of a previous export, not the attributes the tasks carry now "
                     f"(an attribute added since then gets no column and is lost)")
            return
        o.undecided(f, hcall, hcustom, "custom column list is not the key list of a dict filled by a discovery loop")
        return
    else:
        stores = []
        for n in walk_no_nested(f.node):
            if isinstance(n, ast.Assign) and len(n.targets) == 1 and isinstance(n.targets[0], ast.Subscript) \
                    and isinstance(n.targets[0].value, ast.Name) and n.targets[0].value.id == d.id:
                stores.append(n)
            elif isinstance(n, ast.Call) and isinstance(n.func, ast.Attribute) and n.func.attr in ('append', 'setdefault', 'add') \
                    and isinstance(n.func.value, ast.Name) and n.func.value.id == d.id:
                stores.append(n)
        list_acc = False
        if len(stores) == 1 and isinstance(stores[0], ast.Call) and stores[0].func.attr == 'append' and len(stores[0].args) == 1 \
                and _key_name(stores[0].args[0]) is not None:
            list_acc = True       # an ordered list of names: `if k not in L: L.append(k)`
        elif len(stores) != 1 or not isinstance(stores[0], ast.Assign) or not isinstance(stores[0].targets[0].slice, ast.Name):
            o.undecided(f, hcall, d, f"custom column accumulator `{d.id}` is not filled by exactly one `{d.id}[k] = ..` store")
            return
        stn = stores[0]
        k = _key_name(stn.args[0]) if list_acc else stn.targets[0].slice.id
        fors = fx.enclosing_fors(stn)
        if len(fors) != 2:
            o.undecided(f, stn, stn, "custom column discovery is not a two level loop (tasks, attribute names)")
            return
        outer, inner = fors
        outer_t, outer_it, inner_t, inner_it, inner_node = outer.target, fx.x(outer.iter), inner.target, fx.x(inner.iter), inner
        conds = [c for c in fx.conds(stn)]
        if list_acc:
            # the names must be unique: the append has to be guarded by `k not in L` (a dict accumulator gets that for free)
            def dedupe(t, pol):
                return isinstance(t, ast.Compare) and len(t.ops) == 1 \
                    and ((isinstance(t.ops[0], ast.NotIn) and pol) or (isinstance(t.ops[0], ast.In) and not pol)) \
                    and _key_name(t.left) == k and isinstance(t.comparators[0], ast.Name) and t.comparators[0].id == d.id
            if not any(dedupe(t, pol) for t, pol in conds):
                o.refute(f, stn, f"{src(stn)[:60]} without `{k} not in {d.id}`",
                         f"custom column names are appended to the list `{d.id}` for every task that carries them, without a `{k} not in {d.id}` test: "
                         f"an attribute carried by several tasks gets several columns")
                return
            conds = [(t, pol) for t, pol in conds if not dedupe(t, pol)]
    if not same(outer_it, fx.x(rfor.iter)):
        o.refute(f, stn, f"discovery over {src(outer_it)[:60]}", f"custom columns are discovered over `{src(outer_it)[:60]}` but rows are written "
                                                                f"for `{src(fx.x(rfor.iter))[:60]}`: attributes of some tasks get no column")
        return
    owner = keys_owner(inner_it)
    tnames = [inner_t.id] if isinstance(inner_t, ast.Name) else [e.id for e in getattr(inner_t, 'elts', []) if isinstance(e, ast.Name)]
    if owner is None or not (isinstance(owner, ast.Name) and isinstance(outer_t, ast.Name) and owner.id == outer_t.id) \
            or not tnames or tnames[0] != k:
        o.undecided(f, stn, inner_node, "custom column discovery does not iterate `<task>.__dict__` of the outer loop's task by key")
        return
    F.discover_conds = (conds, k, owner)
    env = KeyEnv(ctx, f)
    bad = False
    for col in COLUMNS:
        r, unk = eval_filter(conds, k, col, env)
        if r is None:
            o.undecided(f, stn, unk[0], "custom column filter atom not understood")
            return
        if r:
            o.refute(f, stn, f"discovery admits {col}", f"default column `{col}` passes the custom column filter and would be written twice")
            bad = True
    r, unk = eval_filter(conds, k, CUSTOM, env)
    if r is None:
        o.undecided(f, stn, unk[0], "custom column filter atom not understood")
        return
    if not r:
        fa = failing_atoms(conds, k, CUSTOM, env)
        o.refute(f, stn, f"discovery rejects custom: {cond_text(fa)[:80]}", "an ordinary custom attribute name does not pass the custom column filter")
        bad = True
    if not bad:
        o.site(f, stn, f"custom discovery: every task, every __dict__ key not in the default list ({cond_text(conds)[:60]})")
        F.custom_ok = good


# ======================================================================================================== C13.reader-keys
def ob_reader_keys(ctx, o, F):
    prog = ctx.prog
    r = find_reader(ctx, o)
    if r is None:
        return
    f, fx, ctor, rowvar, loop = r['func'], r['fx'], r['ctor'], r['rowvar'], r['loop']
    sn = StaticNames(prog, 'TaskRaw')
    kw, star = call_kwargs(ctor, sn.params())
    # several ** arguments: a dict of converted default columns filled from a column -> parser table is unrolled into keywords
    stars = [k_.value for k_ in ctor.keywords if k_.arg is None]
    rest = []
    for sv in stars:
        tk = _table_kwargs(f, fx, sv, rowvar, r['loop'] if _loop_in(r) else None)
        if tk is None:
            rest.append(sv)
        else:
            for k_, v_ in tk.items():
                if k_ in kw:
                    o.refute(f, ctor, f"TaskRaw(... {k_} twice)", f"TaskRaw receives `{k_}` both as keyword and through **{src(sv)} (TypeError)")
                kw[k_] = v_
    star = rest[0] if len(rest) == 1 else None
    stars_unresolved = len(rest) > 1
    cells = {}
    hdr_exprs = []
    # the local name of the header map (kept unexpanded in reported constructs)
    keepn = [rowvar]
    full = None
    for v in kw.values():
        cs0 = _cell_of(fx.x(v, keep=[rowvar]), rowvar)
        if cs0:
            full = cs0[0][1]
            break
    if full is not None:
        for n in ast.walk(loop if _loop_in(r) else f.node):
            if isinstance(n, ast.Name) and isinstance(n.ctx, ast.Load) and n.id != rowvar and n.id not in keepn \
                    and fx.flow.node_of_expr(n) is not None and same(fx.x(n), full) and not same(n, full):
                keepn.append(n.id)
    F.hexpr = full
    for k, v in kw.items():
        vx = fx.x(v, keep=keepn)
        cs = _cell_of(vx, rowvar)
        if not cs:
            # row[<arithmetic on header['K']>]: the cell of another column
            off = [n for n in ast.walk(vx) if isinstance(n, ast.Subscript) and isinstance(n.value, ast.Name) and n.value.id == rowvar
                   and isinstance(n.slice, (ast.BinOp, ast.UnaryOp)) and any(isinstance(m, ast.Subscript) and const_str(m.slice) == k
                                                                              for m in ast.walk(n.slice))]
            if off:
                o.refute(f, ctor, f"{k}: {src(off[0])[:60]}", f"TaskRaw keyword `{k}` is read from `{src(off[0])[:60]}`: the column index from the header map is "
                                                              f"shifted, so the value comes from another column")
                continue
        if not cs or const_str(cs[0][2]) is None or any(not same(c[0], cs[0][0]) for c in cs):
            o.undecided(f, ctor, v, f"TaskRaw keyword `{k}` is not computed from exactly one cell row[header['<name>']]")
            continue
        node, hexpr, key = cs[0]
        hdr_exprs.append(hexpr)
        cells[k] = (vx, node, key.value)
        if key.value == k:
            if k in COLUMNS:
                o.site(f, ctor, f"{k} <- row[header['{k}']]")
        else:
            o.refute(f, ctor, f"{k}=..['{key.value}']", f"TaskRaw keyword `{k}` is read from column `{key.value}`; expected column `{k}`")
    F.reader_cells = cells
    F.reader_kw = set(kw)
    F.reader_func = f
    missing = [c for c in COLUMNS if c not in kw]
    extra = [k for k in kw if k not in COLUMNS]
    for c in missing:
        if stars_unresolved:
            o.undecided(f, ctor, f"TaskRaw(...) without {c}", f"column `{c}` is not a keyword of TaskRaw(...), which receives several ** arguments the rule could not resolve")
        else:
            o.refute(f, ctor, f"TaskRaw(...) without {c}", f"column `{c}` of the property's header is not passed to TaskRaw(...): its value is dropped on read")
    for c in extra:
        o.undecided(f, ctor, f"TaskRaw(... {c}=)", f"TaskRaw receives keyword `{c}` which is not one of the ten default columns")
    # ---- header map: all cells use the same map, built as name -> index from the first row of the same reader
    hmaps = {src(h) for h in hdr_exprs}
    if len(hmaps) == 1 and full is not None:
        full_c = r['bind'][full.id] if isinstance(full, ast.Name) and full.id in r['bind'] else full
        _header_map(ctx, o, F, r, full_c)
    elif hmaps:
        o.undecided(f, ctor, ctor, "cells are looked up through different header maps")
    # ---- everything else -> **kwargs
    if stars_unresolved:
        o.undecided(f, ctor, ctor, "TaskRaw(...) receives several ** arguments the rule could not resolve")
        return
    if star is None:
        o.refute(f, ctor, 'TaskRaw(...) without **kwargs', "custom attribute columns are not passed to TaskRaw(**kwargs): they are dropped on read")
        return
    _kwargs_fill(ctx, o, F, r, star, set(kw))


def _loop_in(r) -> bool:
    """the row loop lies inside r['func'] (read_csv itself or a row generator), not around a per-row helper call"""
    return r.get('loop_in_func', not r['helper'])


def _header_map(ctx, o, F, r, hexpr):
    """hexpr: the (expanded) header map expression used in cells"""
    f, fx, loop = r['cfunc'], r['cfx'], r['loop']
    prog = ctx.prog
    # hexpr after expansion is the defining expression of the header map (a helper call or a dict comprehension)
    first_row = None
    triple = None       # (key expr, value expr, target, iter, ctxfunc)
    if isinstance(hexpr, ast.Call) and isinstance(hexpr.func, ast.Name):
        tg = [t for t in ctx.typer.resolve_name_call(hexpr.func.id, f) if t.kind == 'function']
        if len(tg) == 1 and len(hexpr.args) == 1 and len(tg[0].params) == 1:
            first_row = hexpr.args[0]
            triple = _map_builder(ctx, tg[0])
            hf = tg[0]
    elif isinstance(hexpr, ast.DictComp):
        g = hexpr.generators[0]
        triple = (hexpr.key, hexpr.value, g.target, g.iter, None)
        hf = f
        first_row = _iter_source(g.iter)
    elif isinstance(hexpr, ast.Name) and hexpr.id in fx.acc:
        # built in place: `header = {}` / `for i, name in enumerate(next(reader)): header[name..] = i` before the row loop
        name = hexpr.id
        stores = [n for n in walk_no_nested(f.node) if isinstance(n, ast.Assign) and len(n.targets) == 1 and isinstance(n.targets[0], ast.Subscript)
                  and isinstance(n.targets[0].value, ast.Name) and n.targets[0].value.id == name]
        muts = [n for n in walk_no_nested(f.node) if isinstance(n, ast.Call) and isinstance(n.func, ast.Attribute) and isinstance(n.func.value, ast.Name)
                and n.func.value.id == name and n.func.attr in ('update', 'setdefault', 'pop', 'clear', 'popitem')]
        if len(stores) == 1 and not muts and len(fx.flow.defs_of(name)) == 1:
            st = stores[0]
            fors = fx.enclosing_fors(st)
            if len(fors) == 1 and fors[0] is not loop and fx.cfg.conditions(fx.cfg.node_of(st)) == fx.cfg.conditions(fx.cfg.node_of(fors[0])) \
                    and fx.cfg.node_of(loop) is not None and fx.cfg.dominates(fx.cfg.node_of(fors[0]), fx.cfg.node_of(loop)):
                keep = [n.id for n in ast.walk(fors[0].target) if isinstance(n, ast.Name)]
                itx = fx.x(fors[0].iter)
                triple = (fx.x(st.targets[0].slice, keep=keep), fx.x(st.value, keep=keep), fors[0].target, itx, None)
                hf = f
                first_row = _iter_source(itx)
                if first_row is None and isinstance(itx, ast.Call) and isinstance(itx.func, ast.Name) and itx.func.id == 'range' and itx.args \
                        and _is_len(itx.args[-1]):
                    first_row = itx.args[-1].args[0]
    if triple is None:
        o.undecided(f, r['ctor'], hexpr, f"header map `{src(hexpr)[:80]}` is not built by a recognised name -> index loop")
        return
    key, val, target, it, _ = triple
    # the row passed in must be next(<the same reader>) taken before the row loop
    rd = r['reader']
    ok_first = isinstance(first_row, ast.Call) and isinstance(first_row.func, ast.Name) and first_row.func.id == 'next' \
        and first_row.args and same(first_row.args[0], rd)
    if not ok_first:
        o.undecided(f, r['ctor'], first_row if first_row is not None else hexpr, "header names are not taken from next(<csv reader>) of the reader the rows come from")
        return
    # index form
    elem = None
    tnames = [e.id for e in target.elts] if isinstance(target, ast.Tuple) and all(isinstance(e, ast.Name) for e in target.elts) else \
        ([target.id] if isinstance(target, ast.Name) else [])
    if isinstance(it, ast.Call) and isinstance(it.func, ast.Name) and it.func.id == 'enumerate' and len(tnames) == 2 and len(it.args) == 1:
        idx, elem = tnames[0], ast.Name(id=tnames[1], ctx=ast.Load())
    elif isinstance(it, ast.Call) and isinstance(it.func, ast.Name) and it.func.id == 'range' and len(tnames) == 1:
        a = it.args
        good = (len(a) == 1 and _is_len(a[0])) or (len(a) == 2 and isinstance(a[0], ast.Constant) and a[0].value == 0 and _is_len(a[1]))
        if not good:
            o.refute(hf, it, f"header range {src(it)}", f"header columns are enumerated with `{src(it)}`; expected range(len(row)) - some columns get no index")
            return
        seq = (a[0] if len(a) == 1 else a[1]).args[0]
        idx = tnames[0]
        elem = ast.Subscript(value=seq, slice=ast.Name(id=idx, ctx=ast.Load()), ctx=ast.Load())
    else:
        o.undecided(hf, it, it, "header map loop is neither enumerate(row) nor range(len(row))")
        return
    if not (isinstance(val, ast.Name) and val.id == idx):
        o.refute(hf, val, f"header index {src(val)}", f"header map stores `{src(val)}` for a name; expected the column index `{idx}`")
        return
    # key = elem with wrappers
    wrappers = []
    n = key
    cond_wrapped = False
    if isinstance(n, ast.IfExp):
        cond_wrapped = True
    while isinstance(n, ast.Call) and isinstance(n.func, ast.Attribute):
        wrappers.append((n.func.attr, n.args))
        n = n.func.value
    if cond_wrapped or not same(n, elem):
        o.undecided(hf, key, key, f"header name `{src(key)[:80]}` is not the cell text of column `{src(elem)}` with string methods applied")
        return
    bom = False
    for m, args in wrappers:
        if m == 'replace' and len(args) == 2 and const_str(args[0]) == BOM and const_str(args[1]) == '':
            bom = True
        elif m in ('lstrip', 'removeprefix', 'strip') and len(args) == 1 and const_str(args[0]) == BOM:
            bom = True
        elif m in ('lower', 'upper', 'title', 'capitalize', 'casefold', 'strip', 'lstrip', 'rstrip', 'replace'):
            o.refute(hf, key, f"header name .{m}({', '.join(src(a) for a in args)})", f"header names are altered by .{m}(): custom attribute names do not survive the round trip")
            return
        else:
            o.undecided(hf, key, key, f"header name transformed by .{m}()")
            return
    for t in (_HDR_GUARDS.get(hf.qual, []) if hf is not f else []):
        fxh = fx_of(ctx, hf)
        tx = fxh.x(t)
        rowp = hf.params[0] if hf.params else None
        raw_member = [n for n in ast.walk(tx) if isinstance(n, ast.Compare) and any(isinstance(op, (ast.In, ast.NotIn)) for op in n.ops)
                      and any(isinstance(c, ast.Name) and c.id == rowp for c in n.comparators)
                      and ((const_str(n.left) is not None and n.left.value == COLUMNS[0])
                           or (isinstance(n.left, ast.Name) and any(COLUMNS[0] in (const_seq(m) or []) for m in ast.walk(tx))))]
        if raw_member and bom:
            o.refute(hf, t, f"header validation {src(raw_member[0])[:50]} before BOM strip",
                     f"`{hf.name}` raises when `{src(tx)[:70]}`: column names are looked up in the RAW header row `{rowp}`, while the names entered "
                     f"into the map have U+FEFF stripped (`{src(key)[:40]}`) - a file that starts with a UTF-8 byte-order mark has '\\ufeffid' as its "
                     f"first cell and is rejected instead of loading")
            return
        if not raw_member:
            o.undecided(hf, t, t, f"header map is built only when not `{src(tx)[:70]}` (validation the rule does not understand)")
            return
    o.site(hf, key, f"header map: {src(key)[:50]} -> {idx}")
    ctx.notes['c13_bom_stripped'] = bom
    F.bom = (bom, hf, key)


def _is_len(n):
    return isinstance(n, ast.Call) and isinstance(n.func, ast.Name) and n.func.id == 'len' and len(n.args) == 1


def _iter_source(it):
    if isinstance(it, ast.Call) and isinstance(it.func, ast.Name) and it.func.id == 'enumerate' and it.args:
        return it.args[0]
    return None


_HDR_GUARDS = {}


def _map_builder(ctx, hf):
    """helper `res = {}; for T in IT: [name = ..]; res[KEY] = VAL; return res` or `return {KEY: VAL for T in IT}`
    -> (KEY expanded, VAL expanded, T, IT expanded, hf)"""
    fx = fx_of(ctx, hf)
    rets = [n for n in walk_no_nested(hf.node) if isinstance(n, ast.Return)]
    if len(rets) != 1 or rets[0].value is None:
        return None
    rv = fx.x(rets[0].value)
    if isinstance(rv, ast.DictComp) and len(rv.generators) == 1 and not rv.generators[0].ifs:
        g = rv.generators[0]
        return rv.key, rv.value, g.target, g.iter, hf
    if not isinstance(rv, ast.Name):
        return None
    stores = [n for n in walk_no_nested(hf.node) if isinstance(n, ast.Assign) and len(n.targets) == 1
              and isinstance(n.targets[0], ast.Subscript) and isinstance(n.targets[0].value, ast.Name) and n.targets[0].value.id == rv.id]
    if len(stores) != 1:
        return None
    st = stores[0]
    fors = fx.enclosing_fors(st)
    if len(fors) != 1:
        return None
    # validation guards before the loop (`if <problem>: raise ..`) are collected and judged by the caller; any other condition
    # on the store is not a plain name -> index loop
    guards = []
    for t, pol in fx.cfg.conditions(fx.cfg.node_of(st)):
        ifs = [n for n in walk_no_nested(hf.node) if isinstance(n, ast.If) and n.test is t]
        if len(ifs) == 1 and not pol and not ifs[0].orelse and isinstance(ifs[0].body[-1], ast.Raise) and not fx.enclosing_fors(ifs[0]):
            guards.append(t)
        else:
            return None
    _HDR_GUARDS[hf.qual] = guards
    keep = [n.id for n in ast.walk(fors[0].target) if isinstance(n, ast.Name)]
    return fx.x(st.targets[0].slice, keep=keep), fx.x(st.value, keep=keep), fors[0].target, fx.x(fors[0].iter), hf


def _module_dict(module, name):
    """module level NAME = {<str>: <expr>, ..} bound exactly once -> [(key, value node)] in order, else None"""
    hits = [st for st in module.tree.body if (isinstance(st, ast.Assign) and any(isinstance(t, ast.Name) and t.id == name for t in st.targets))
            or (isinstance(st, ast.AnnAssign) and isinstance(st.target, ast.Name) and st.target.id == name)]
    if len(hits) != 1 or not isinstance(hits[0].value, ast.Dict) or any(k is None or const_str(k) is None for k in hits[0].value.keys):
        return None
    if any(isinstance(n, ast.Global) and name in n.names for n in ast.walk(module.tree)):
        return None
    return [(k.value, v) for k, v in zip(hits[0].value.keys, hits[0].value.values)]


def _table_kwargs(f, fx, star, rowvar, row_loop):
    """**D where `D = {}` (per row) and `for K, P in TABLE.items(): D[K] = <expr over K, P, row>` with TABLE a module level
    dict literal {column name: converter}: the loop is unrolled  ->  {column: <expr with K, P replaced>} else None"""
    if not (isinstance(star, ast.Name) and star.id in fx.acc):
        return None
    name = star.id
    stores = [n for n in walk_no_nested(f.node) if isinstance(n, ast.Assign) and len(n.targets) == 1 and isinstance(n.targets[0], ast.Subscript)
              and isinstance(n.targets[0].value, ast.Name) and n.targets[0].value.id == name]
    muts = [n for n in walk_no_nested(f.node) if isinstance(n, ast.Call) and isinstance(n.func, ast.Attribute) and isinstance(n.func.value, ast.Name)
            and n.func.value.id == name]
    if len(stores) != 1 or muts or len(fx.flow.defs_of(name)) != 1 or not isinstance(stores[0].targets[0].slice, ast.Name):
        return None
    st = stores[0]
    fors = [l for l in fx.enclosing_fors(st) if l is not row_loop]
    if len(fors) != 1 or fx.cfg.conditions(fx.cfg.node_of(st)) != fx.cfg.conditions(fx.cfg.node_of(fors[0])):
        return None         # conditional store: not a plain table walk
    d = fx.flow.defs_of(name)[0]
    if row_loop is not None and (d.stmt is None or row_loop not in fx.enclosing_fors(d.stmt)):
        return None
    lp = fors[0]
    kname = st.targets[0].slice.id
    it = lp.iter
    pname = None
    if isinstance(it, ast.Call) and isinstance(it.func, ast.Attribute) and it.func.attr == 'items' and not it.args and isinstance(it.func.value, ast.Name) \
            and isinstance(lp.target, ast.Tuple) and len(lp.target.elts) == 2 and all(isinstance(e, ast.Name) for e in lp.target.elts) \
            and lp.target.elts[0].id == kname:
        table, pname = it.func.value.id, lp.target.elts[1].id
    elif isinstance(it, ast.Name) and isinstance(lp.target, ast.Name) and lp.target.id == kname:
        table = it.id
    else:
        return None
    if table in fx.locals:
        return None
    entries = _module_dict(f.module, table)
    if entries is None:
        return None
    body = fx.x(st.value, keep=[rowvar, kname] + ([pname] if pname else []))
    out = {}
    for key, val in entries:
        sub = {kname: ast.Constant(value=key)}
        if pname:
            sub[pname] = val
        e = subst(body, sub)
        if not pname:
            # TABLE[K] inside the expression
            class T(ast.NodeTransformer):
                def visit_Subscript(self, n):
                    self.generic_visit(n)
                    if isinstance(n.value, ast.Name) and n.value.id == table and isinstance(n.slice, ast.Constant) and n.slice.value == key:
                        return val
                    return n
            e = T().visit(e)
        if key in out:
            return None
        out[key] = ast.fix_missing_locations(e)
    return out


def _peel_filter(it, tn):
    """iterable of a loop with target names tn, written as a pure selection `[(a, b) for a, b in X if C]` / `[a for a in X if C]` /
    list(..) / tuple(..) of one  ->  (X, [(atom of C with a, b renamed to tn, True) ..]); anything else -> (it, [])"""
    from sa.facts import split_conj
    extra = []
    for _ in range(4):
        if isinstance(it, ast.Call) and isinstance(it.func, ast.Name) and it.func.id in ('list', 'tuple', 'iter') and len(it.args) == 1 \
                and not it.keywords:
            it = it.args[0]
            continue
        if isinstance(it, (ast.ListComp, ast.GeneratorExp)) and len(it.generators) == 1 and not it.generators[0].is_async:
            g = it.generators[0]
            gt = g.target
            gn = [e.id for e in gt.elts] if isinstance(gt, ast.Tuple) and all(isinstance(e, ast.Name) for e in gt.elts) else \
                ([gt.id] if isinstance(gt, ast.Name) else [])
            elt = it.elt
            en = [e.id for e in elt.elts] if isinstance(elt, ast.Tuple) and all(isinstance(e, ast.Name) for e in elt.elts) else \
                ([elt.id] if isinstance(elt, ast.Name) else [])
            if gn and gn == en and len(gn) == len(tn) and len(set(gn)) == len(gn):
                ren = {a: ast.Name(id=b, ctx=ast.Load()) for a, b in zip(gn, tn)}
                for c in g.ifs:
                    extra += split_conj(subst(c, ren), True)
                it = g.iter
                continue
        break
    return it, extra


def _kwargs_fill(ctx, o, F, r, star, consumed):
    f, fx, ctor, rowvar = r['func'], r['fx'], r['ctor'], r['rowvar']
    sx = fx.x(star)
    key = val = target = it = None
    conds = None
    at = None
    shared = None       # name of a **kwargs dict that is created once, before the row loop
    if isinstance(sx, ast.DictComp) and len(sx.generators) == 1:
        g = sx.generators[0]
        key, val, target, it = sx.key, sx.value, g.target, g.iter
        from sa.facts import split_conj
        conds = []
        for c in g.ifs:
            conds += split_conj(c, True)
        at = ctor
    elif isinstance(sx, ast.Name):
        stores = [n for n in walk_no_nested(f.node) if isinstance(n, ast.Assign) and len(n.targets) == 1
                  and isinstance(n.targets[0], ast.Subscript) and isinstance(n.targets[0].value, ast.Name) and n.targets[0].value.id == sx.id]
        if len(stores) == 1:
            st = stores[0]
            fors = [x for x in fx.enclosing_fors(st) if x is not r['loop']]
            if len(fors) == 1:
                keep = [n.id for n in ast.walk(fors[0].target) if isinstance(n, ast.Name)] + [rowvar]
                key, val = fx.x(st.targets[0].slice, keep=keep), fx.x(st.value, keep=keep)
                target, it = fors[0].target, fx.x(fors[0].iter)
                # conditions inside the row loop only
                conds = fx.conds(st)
                at = st
                # the accumulator must be reset for every row
                dv = fx.def_value(sx.id, ctor)
                if dv is not None and is_empty_container(dv) and _loop_in(r) and r['loop'] not in fx.enclosing_fors(dv) \
                        and len(fx.flow.defs_of(sx.id)) == 1 and r['loop'] in fx.enclosing_fors(st) \
                        and not any(isinstance(n, ast.Call) and isinstance(n.func, ast.Attribute) and isinstance(n.func.value, ast.Name)
                                    and n.func.value.id == sx.id for n in walk_no_nested(f.node)):
                    # one dict created before the row loop and only ever written by `D[k] = ..`: TaskRaw(**D) copies its content per
                    # row, so this is the same as a fresh dict iff every key is stored again for every row (decided below)
                    shared = sx.id
                elif dv is None or not is_empty_container(dv) or (_loop_in(r) and r['loop'] not in fx.enclosing_fors(dv)):
                    o.undecided(f, st, sx, f"`{sx.id}` is not re-initialised to an empty dict for every row")
                    return
    if key is None:
        o.undecided(f, ctor, star, f"**{src(star)} is not filled by a recognised loop over the header map")
        return
    # target / iter: for k, v in H.items()  |  for k in H
    tn = [e.id for e in target.elts] if isinstance(target, ast.Tuple) and all(isinstance(e, ast.Name) for e in target.elts) else \
        ([target.id] if isinstance(target, ast.Name) else [])
    # the (loop invariant) selection of the custom columns may be hoisted out of the row loop:
    #   custom = [(k, v) for k, v in header.items() if k not in DEFAULTS];  for k, v in custom: kwargs[k] = row[v]
    it, extra = _peel_filter(it, tn)
    conds = list(conds) + extra
    if shared is not None:
        rowdep = [(t, pol) for t, pol in conds if any(isinstance(n, ast.Name) and n.id == rowvar for n in ast.walk(t))]
        if rowdep:
            o.refute(f, at, f"{shared} shared by all rows, stored when {cond_text(rowdep)[:60]}",
                     f"`{shared}` is created once before the row loop and a custom cell is stored into it only when `{cond_text(rowdep)[:60]}`: for a row "
                     f"where that is false the entry of an earlier row stays in the dict and is passed to TaskRaw(**{shared}) again - a task without the "
                     f"attribute inherits the value of a preceding task (expected a fresh dict per row, or an unconditional store)")
            return
    hm = None
    if isinstance(it, ast.Call) and isinstance(it.func, ast.Attribute) and it.func.attr == 'items' and len(tn) == 2:
        hm, kname = it.func.value, tn[0]
        good_val = isinstance(val, ast.Subscript) and isinstance(val.value, ast.Name) and val.value.id == rowvar \
            and isinstance(val.slice, ast.Name) and val.slice.id == tn[1]
    elif len(tn) == 1:
        hm, kname = it, tn[0]
        if isinstance(hm, ast.Call) and isinstance(hm.func, ast.Attribute) and hm.func.attr == 'keys':
            hm = hm.func.value
        cs = _cell_of(val, rowvar)
        good_val = len(cs) == 1 and cs[0][0] is val and same(cs[0][1], hm) and isinstance(cs[0][2], ast.Name) and cs[0][2].id == kname
    else:
        o.undecided(f, at, it, "custom attribute loop does not iterate the header map")
        return
    if getattr(F, 'hexpr', None) is not None and not same(hm, F.hexpr):
        o.undecided(f, at, it, f"custom attributes iterate `{src(hm)[:60]}`, the default cells use another header map")
        return
    if not (isinstance(key, ast.Name) and key.id == kname):
        o.refute(f, at, f"kwargs key {src(key)[:60]}", f"custom attribute is stored under `{src(key)}` instead of its header name `{kname}`")
        return
    if not good_val:
        # a wrong cell is refuted only in a shape the rule can read: some `row[..]` subscript other than this column's, or a value
        # that does not involve the row at all; a row wrapped into an object / passed to a helper the rule could not open is undecided
        opaque = [n for n in ast.walk(val) if isinstance(n, ast.Call) and any(isinstance(m, ast.Name) and m.id == rowvar for a_ in list(n.args) + [k_.value for k_ in n.keywords]
                                                                              for m in ast.walk(a_))
                  and not (isinstance(n.func, ast.Name) and n.func.id in ('str', 'int', 'float', 'bool', 'len', 'repr'))]
        if opaque:
            o.undecided(f, at, val, f"custom attribute `{kname}` is filled from `{src(val)[:80]}`: the row is passed to `{src(opaque[0].func)[:40]}`, which the rule "
                                    f"could not read as the cell of the column")
            return
        o.refute(f, at, f"kwargs value {src(val)[:60]}", f"custom attribute `{kname}` is filled from `{src(val)}`; expected the cell of its own column")
        return
    env = KeyEnv(ctx, f)
    bad = False
    for col in sorted(consumed):
        res, unk = eval_filter(conds, kname, col, env)
        if res is None:
            o.undecided(f, at, unk[0], "custom attribute filter atom not understood")
            return
        if res:
            o.refute(f, at, f"kwargs admits {col}", f"column `{col}` is passed to TaskRaw both as keyword and inside **kwargs (TypeError on read)")
            bad = True
    for col in [CUSTOM] + [c for c in COLUMNS if c not in consumed]:
        res, unk = eval_filter(conds, kname, col, env)
        if res is None:
            o.undecided(f, at, unk[0], "custom attribute filter atom not understood")
            return
        if not res:
            fa = failing_atoms(conds, kname, col, env)
            o.refute(f, at, f"kwargs rejects {'custom' if col == CUSTOM else col}: {cond_text(fa)[:80]}",
                     f"header `{'<custom attribute>' if col == CUSTOM else col}` is neither a TaskRaw keyword nor admitted to **kwargs: dropped on read")
            bad = True
    F.kwargs_filter = (conds, kname)
    if not bad:
        F.kwargs_ok = True
        o.site(f, at, f"every header outside the ten default names goes to **kwargs ({cond_text(conds)[:60]})")


# ======================================================================================================== C13.converters
def _plain_str(leaf, S):
    """how a writer leaf turns S into text: ('raw'|'plain'|'spec'|'round'|'int'|'bool', detail) or None.
    plain = str()/repr()/f"{S}"/'{}'.format(S)/'%s' % S : the full repr of a number, 'True'/'False' of a bool"""
    if same(leaf, S):
        return 'raw', None
    if isinstance(leaf, ast.Call) and isinstance(leaf.func, ast.Name) and leaf.args and not leaf.keywords:
        n, a = leaf.func.id, leaf.args
        if n in ('str', 'repr') and len(a) == 1:
            inner = _plain_str(a[0], S)
            if inner is None:
                return None
            return ('plain', None) if inner[0] in ('raw', 'plain') else inner
        if n == 'format' and same(a[0], S):
            if len(a) == 1 or (const_str(a[1]) == ''):
                return 'plain', None
            return 'spec', src(a[1])
        if n == 'round' and same(a[0], S):
            return 'round', src(leaf)
        if n in ('int', 'float', 'bool') and len(a) == 1 and same(a[0], S):
            return n, None
    if isinstance(leaf, ast.JoinedStr):
        fv = [v for v in leaf.values if isinstance(v, ast.FormattedValue)]
        txt = [v for v in leaf.values if isinstance(v, ast.Constant) and v.value != '']
        if len(fv) == 1 and not txt and same(fv[0].value, S):
            if fv[0].format_spec is None or src(fv[0].format_spec) in ("f''", "''"):
                return 'plain', None
            spec = ''.join(v.value for v in fv[0].format_spec.values if isinstance(v, ast.Constant))
            return 'spec', spec or src(fv[0].format_spec)
        return None
    if isinstance(leaf, ast.Call) and isinstance(leaf.func, ast.Attribute) and leaf.func.attr == 'format' \
            and const_str(leaf.func.value) is not None and len(leaf.args) == 1 and same(leaf.args[0], S):
        t = leaf.func.value.value
        return ('plain', None) if t in ('{}', '{0}', '{!s}', '{!r}', '{0!s}', '{0!r}') else ('spec', t)
    if isinstance(leaf, ast.BinOp) and isinstance(leaf.op, ast.Mod) and const_str(leaf.left) is not None and \
            (same(leaf.right, S) or (isinstance(leaf.right, ast.Tuple) and len(leaf.right.elts) == 1 and same(leaf.right.elts[0], S))):
        return ('plain', None) if leaf.left.value in ('%s', '%r') else ('spec', leaf.left.value)
    return None


def _mentions(e, S):
    return any(same(n, S) for n in ast.walk(e) if type(n) is type(S))


def _writer_column(ctx, o, f, node, col, e, S, W):
    """W collects per column facts of the writer: W[col] = dict(fmt=.., sep=.., true=.., false=..)"""
    kind = KIND[col]
    info = W.setdefault(col, {})
    ok = True

    def bad(construct, msg):
        nonlocal ok
        ok = False
        o.refute(f, node, f"{col}: {construct}"[:150], msg)

    def unk(construct, msg):
        nonlocal ok
        ok = False
        o.undecided(f, node, f"{col}: {src(construct) if isinstance(construct, ast.AST) else construct}"[:150], msg)

    for conds, leaf in split_cases(ctx, f, e):
        facts, unknown = sym_facts(conds, S)
        if unknown:
            unk(unknown[0][0], f"writer cell of `{col}` is chosen under a condition the rule does not understand")
            continue
        absent = 'none' in facts
        falsy = bool(facts & {'falsy', 'empty'})
        present = bool(facts & {'notnone', 'truthy', 'nonempty'})
        if isinstance(leaf, ast.Constant) and (leaf.value is None or isinstance(leaf.value, str)) and not (kind == 'bool' and leaf.value):
            if leaf.value not in ('', None):
                bad(f"constant {leaf.value!r}", f"column `{col}` is written as the constant {leaf.value!r} when {cond_text(conds)}")
            elif absent:
                pass
            elif falsy:
                if kind == 'float':
                    bad(f"'' when {cond_text(conds)}", f"`{col}` is written as an empty cell whenever it is falsy: 0.0 is read back as None")
                elif kind in ('int', 'optint'):
                    bad(f"'' when {cond_text(conds)}", f"`{col}` is written as an empty cell whenever it is falsy: id 0 is read back as None")
                elif kind == 'bool':
                    info['false'] = ''
            else:
                bad(f"'' when {cond_text(conds)}", f"`{col}` is written as an empty cell under `{cond_text(conds)}`, which does not mean the value is absent")
            continue
        if kind == 'bool' and isinstance(leaf, ast.Constant):
            if 'truthy' in facts:
                info['true'] = str(leaf.value)
            elif falsy or absent:
                info['false'] = str(leaf.value)
            else:
                bad(f"constant {leaf.value!r}", f"`{col}` is written as a constant regardless of its value")
            continue
        ps = _plain_str(leaf, S)
        if kind in NULLABLE and not present and not (ps and ps[0] == 'raw'):
            if absent or falsy:
                pass      # value form applied on the absent branch is dead or harmless only if it is raw; fall through to checks
            bad(f"{src(leaf)[:70]} without None test", f"`{col}` may be None but `{src(leaf)[:70]}` is evaluated without a preceding None test "
                                                      f"(None would be written as 'None' or raise)")
            continue
        if kind in ('int', 'optint', 'float', 'bool', 'text'):
            if ps is not None:
                form, detail = ps
                if form in ('raw', 'plain'):
                    continue
                if kind == 'float' and form in ('spec', 'round', 'int'):
                    bad(f"{src(leaf)[:80]}", f"`{col}` is formatted with `{detail or form}`: digits beyond that format are lost "
                                             f"(expected str()/repr() of the float)")
                    continue
                if kind == 'float' and form == 'float':
                    continue
                if kind in ('int', 'optint') and form == 'int':
                    continue
                if kind == 'bool' and form == 'bool':
                    continue
                if kind == 'bool' and form == 'int':
                    info['true'], info['false'] = '1', '0'
                    continue
                if kind == 'text' and form in ('spec', 'round', 'int', 'float', 'bool'):
                    bad(f"{src(leaf)[:80]}", f"text column `{col}` is converted with `{src(leaf)[:60]}`")
                    continue
                unk(leaf, f"writer form of `{col}` not classified")
                continue
            if kind == 'text' and _text_altering(leaf, S):
                bad(f"{src(leaf)[:80]}", f"text column `{col}` is altered before writing (`{src(leaf)[:60]}`): the text does not round trip")
                continue
            unk(leaf, f"writer form `{src(leaf)[:60]}` of `{col}` not recognised")
            continue
        if kind == 'date':
            if isinstance(leaf, ast.Call) and isinstance(leaf.func, ast.Attribute) and leaf.func.attr == 'strftime' \
                    and same(leaf.func.value, S) and len(leaf.args) == 1:
                fmt = const_str(leaf.args[0])
                if fmt is None:
                    unk(leaf.args[0], f"date format of `{col}` is not a constant")
                else:
                    info['fmt'] = fmt
                    if fmt != DATE_FMT:
                        bad(f"strftime({fmt!r})", f"`{col}` is written with format {fmt!r}; the property fixes dd.mm.yy ({DATE_FMT!r})")
                continue
            if ps is not None or (isinstance(leaf, ast.Call) and isinstance(leaf.func, ast.Attribute)
                                  and leaf.func.attr in ('isoformat', 'date', 'ctime', 'timestamp', 'toordinal') and _mentions(leaf, S)):
                bad(f"{src(leaf)[:80]}", f"`{col}` is written as `{src(leaf)[:60]}`, not as dd.mm.yy via strftime({DATE_FMT!r})")
                continue
            unk(leaf, f"writer form `{src(leaf)[:60]}` of date column `{col}` not recognised")
            continue
        if kind == 'idlist':
            if isinstance(leaf, ast.Call) and isinstance(leaf.func, ast.Attribute) and leaf.func.attr == 'join' and len(leaf.args) == 1:
                sep = const_str(leaf.func.value)
                if sep is None:
                    sv = leaf.func.value
                    if isinstance(sv, ast.Name) and (sv.id in f.params or sv.id in ctx.prog.func(CSV + '.write_csv').params):
                        bad(f"{sv.id}.join", f"`{col}` is joined with the parameter `{sv.id}` (whatever the caller passes, e.g. the csv delimiter); the property "
                                             f"fixes {ID_SEP!r} between predecessor ids and the reader splits the cell at a fixed separator: the list is read "
                                             f"back correctly only for {sv.id}={ID_SEP!r}")
                    else:
                        unk(leaf.func.value, f"separator of `{col}` is not a constant")
                    continue
                info['sep'] = sep
                if sep != ID_SEP:
                    bad(f"{sep!r}.join", f"`{col}` is joined with {sep!r}; the property fixes {ID_SEP!r}")
                    continue
                a = leaf.args[0]
                if isinstance(a, ast.Call) and isinstance(a.func, ast.Name) and a.func.id == 'map' and len(a.args) == 2 \
                        and isinstance(a.args[0], ast.Name) and a.args[0].id in ('str', 'repr') and same(a.args[1], S):
                    continue
                if isinstance(a, (ast.ListComp, ast.GeneratorExp)) and len(a.generators) == 1 and isinstance(a.generators[0].target, ast.Name):
                    g = a.generators[0]
                    v = ast.Name(id=g.target.id, ctx=ast.Load())
                    if not same(g.iter, S):
                        if any(isinstance(n, ast.Name) and n.id in ('sorted', 'reversed', 'set') for n in ast.walk(g.iter)) and _mentions(g.iter, S):
                            bad(f"{src(g.iter)[:60]}", f"`{col}` is written from `{src(g.iter)[:60]}`: the order (or multiplicity) of the predecessor list changes")
                        else:
                            unk(g.iter, f"`{col}` is joined from `{src(g.iter)[:60]}`, not from the task's list")
                        continue
                    if g.ifs:
                        bad(f"filter {src(g.ifs[0])[:60]}", f"`{col}` drops ids by `{src(g.ifs[0])[:60]}` when writing (e.g. id 0 is falsy)")
                        continue
                    pe = _plain_str(a.elt, v)
                    if pe is None or pe[0] not in ('plain',):
                        if pe is not None and pe[0] == 'raw':
                            bad(f"join of raw ids", f"`{col}`: str.join over non-string ids raises TypeError")
                        else:
                            unk(a.elt, f"id cell form `{src(a.elt)[:60]}` not recognised")
                    continue
                unk(a, f"`{col}` join argument not recognised")
                continue
            if ps is not None:
                bad(f"{src(leaf)[:80]}", f"`{col}` is written as `{src(leaf)[:60]}`, not as ids joined by {ID_SEP!r}")
                continue
            unk(leaf, f"writer form `{src(leaf)[:60]}` of `{col}` not recognised")
    if ok:
        o.site(f, node, f"writer {col} ({kind}): {src(e)[:70]}")


_TEXT_ALTER = ('strip', 'lstrip', 'rstrip', 'lower', 'upper', 'title', 'capitalize', 'casefold', 'replace', 'splitlines',
               'expandtabs', 'encode', 'translate', 'removeprefix', 'removesuffix', 'swapcase', 'center', 'ljust', 'rjust', 'zfill')


def _text_altering(leaf, S):
    n = leaf
    if isinstance(n, ast.Call) and isinstance(n.func, ast.Name) and n.func.id in ('str', 'repr') and len(n.args) == 1:
        if n.func.id == 'repr' and same(n.args[0], S):
            return True
        n = n.args[0]
    if isinstance(n, ast.Subscript) and _mentions(n.value, S) and isinstance(n.slice, ast.Slice):
        return True
    if isinstance(n, ast.Call) and isinstance(n.func, ast.Attribute) and n.func.attr in _TEXT_ALTER and _mentions(n.func.value, S):
        return True
    if isinstance(n, ast.Call) and isinstance(n.func, ast.Attribute) and n.func.attr == 'join' and n.args and _mentions(n.args[0], S):
        return True
    if isinstance(n, ast.Call) and (attr_path(n.func) or '').split('.')[-1] == 'normalize' and len(n.args) == 2 and const_str(n.args[0]) is not None \
            and _mentions(n.args[1], S):
        return True         # unicodedata.normalize('NFC', S): text not already in that form changes
    return False


def _strip_ws(n):
    while isinstance(n, ast.Call) and isinstance(n.func, ast.Attribute) and n.func.attr == 'strip' and not n.args:
        n = n.func.value
    return n


def _reader_column(ctx, o, f, node, col, vx, S, W, R):
    kind = KIND[col]
    info = R.setdefault(col, {})
    ok = True
    has_empty_case = False
    unguarded_value = None

    def bad(construct, msg, fn=f, nd=node):
        nonlocal ok
        ok = False
        o.refute(fn, nd, f"{col}: {construct}"[:150], msg)

    def unk(construct, msg):
        nonlocal ok
        ok = False
        o.undecided(f, node, f"{col}: {src(construct) if isinstance(construct, ast.AST) else construct}"[:150], msg)

    cases = split_cases(ctx, f, vx)
    for conds, leaf in cases:
        facts, unknown = sym_facts(conds, S)
        if 'digits' in facts and kind in ('int', 'optint', 'float', 'idlist'):
            bad("isdigit() guard", f"`{col}` is parsed only when the cell is all digits: negative numbers"
                                   f"{' and fractions' if kind == 'float' else ''} are dropped")
            continue
        if kind == 'date':
            fc = _fixed_century(leaf, conds)
            if fc is not None:
                bad(f"{src(fc[0])[:70]}", f"`{col}` is parsed by a hand-built `{src(fc[0])[:70]}` whose year is `{src(fc[1])[:40]}`: a two-digit year plus the "
                                          f"fixed offset {fc[2]} - the property's dates span 1969-2068 (written as %y), so years 69-99 come back a century "
                                          f"off (expected strptime(cell, {DATE_FMT!r}), whose %y pivots at 69)")
                continue
        empty = bool(facts & {'empty', 'falsy', 'none'})
        nonempty = bool(facts & {'nonempty', 'truthy'})
        if unknown and (empty or not nonempty or isinstance(leaf, ast.Constant) or same(leaf, S)):
            # a not-understood condition decides between "no value" and a value, or selects a constant
            unk(unknown[0][0], f"parser of `{col}` branches on a condition the rule does not understand")
            continue
        # (a not-understood extra condition on a non-empty cell only selects between value forms: each form is judged on its own)
        if empty:
            has_empty_case = True
            if kind in ('date', 'float', 'optint'):
                if not (isinstance(leaf, ast.Constant) and leaf.value is None):
                    bad(f"empty cell -> {src(leaf)[:50]}", f"an empty `{col}` cell (written for None) is read as `{src(leaf)[:50]}`; expected None")
            elif kind == 'text':
                from .c13_util import overbroad_empty
                why = overbroad_empty(conds, S) if not same(leaf, S) else []
                if why:
                    bad(f"missing when {cond_text(conds)[:60]}", f"text column `{col}` is read as `{src(leaf)[:20]}` when `{cond_text(conds)[:60]}`: {'; '.join(why)} - "
                                                                f"text fields may contain any characters, such a name does not come back")
                elif not ((isinstance(leaf, ast.Constant) and leaf.value in (None, '')) or same(leaf, S)):
                    bad(f"empty cell -> {src(leaf)[:50]}", f"an empty `{col}` cell is read as `{src(leaf)[:50]}`; expected None or ''")
            elif kind == 'bool':
                if isinstance(leaf, ast.Constant) and leaf.value not in (False, None, 0, ''):
                    bad(f"empty cell -> {src(leaf)[:50]}", f"an empty `{col}` cell is read as {src(leaf)[:50]}; expected False")
            elif kind == 'idlist':
                if not ((isinstance(leaf, (ast.List, ast.Tuple)) and not leaf.elts) or is_empty_container(leaf)):
                    bad(f"empty cell -> {src(leaf)[:50]}", f"an empty `{col}` cell is read as `{src(leaf)[:50]}`; expected an empty list")
            continue
        if not nonempty:
            unguarded_value = leaf
        # ---- value forms
        if kind in ('int', 'optint'):
            if isinstance(leaf, ast.Call) and isinstance(leaf.func, ast.Name) and leaf.func.id == 'int' and len(leaf.args) == 1 \
                    and not leaf.keywords and same(_strip_ws(leaf.args[0]), S):
                continue
            if isinstance(leaf, ast.Constant) and leaf.value is None:
                bad(f"None when {cond_text(conds)[:60]}", f"`{col}` is read as None for non-empty cells ({cond_text(conds)[:60]})")
                continue
            if _mentions(leaf, S) and any(isinstance(n, ast.Call) and isinstance(n.func, ast.Name) and n.func.id == 'abs' for n in ast.walk(leaf)):
                bad(src(leaf)[:60], f"`{col}` is read through abs(): negative ids change")
                continue
            if same(leaf, S) or (isinstance(leaf, ast.Call) and isinstance(leaf.func, ast.Name) and leaf.func.id == 'str'):
                bad(src(leaf)[:60], f"`{col}` is left as text `{src(leaf)[:40]}`; ids are integers (expected int(cell))")
                continue
            unk(leaf, f"parser form `{src(leaf)[:60]}` of `{col}` not recognised")
        elif kind == 'float':
            if isinstance(leaf, ast.Call) and isinstance(leaf.func, ast.Name) and leaf.func.id == 'float' and len(leaf.args) == 1 \
                    and same(_strip_ws(leaf.args[0]), S):
                continue
            if isinstance(leaf, ast.Call) and isinstance(leaf.func, ast.Name) and leaf.func.id in ('round', 'int') and _mentions(leaf, S):
                bad(src(leaf)[:60], f"`{col}` is read through `{src(leaf)[:40]}`: digits are lost (expected float(cell))")
                continue
            if isinstance(leaf, ast.Constant):
                bad(f"{src(leaf)} when {cond_text(conds)[:60]}", f"`{col}` is read as the constant {src(leaf)} for non-empty cells")
                continue
            unk(leaf, f"parser form `{src(leaf)[:60]}` of `{col}` not recognised")
        elif kind == 'date':
            if isinstance(leaf, ast.Call) and isinstance(leaf.func, ast.Attribute) and leaf.func.attr == 'strptime' and len(leaf.args) == 2 \
                    and same(_strip_ws(leaf.args[0]), S) and attr_path(leaf.func.value) in ('datetime', 'datetime.datetime'):
                fmt = const_str(leaf.args[1])
                if fmt is None:
                    unk(leaf.args[1], f"date format of `{col}` is not a constant")
                else:
                    info['fmt'] = fmt
                    wf = W.get(col, {}).get('fmt')
                    if fmt != DATE_FMT:
                        bad(f"strptime({fmt!r})", f"`{col}` is parsed with format {fmt!r}; the property fixes dd.mm.yy ({DATE_FMT!r})"
                                                  + (f" and the writer uses {wf!r}" if wf else ''))
                    elif wf is not None and wf != fmt:
                        bad(f"strptime({fmt!r}) vs strftime({wf!r})", f"`{col}` is written with {wf!r} and parsed with {fmt!r}")
                continue
            if isinstance(leaf, ast.Constant) or same(leaf, S):
                bad(src(leaf)[:60], f"`{col}` is read as `{src(leaf)[:40]}` instead of strptime(cell, {DATE_FMT!r})")
                continue
            unk(leaf, f"parser form `{src(leaf)[:60]}` of date column `{col}` not recognised")
        elif kind == 'text':
            if same(leaf, S) or (isinstance(leaf, ast.Call) and isinstance(leaf.func, ast.Name) and leaf.func.id == 'str'
                                 and len(leaf.args) == 1 and same(leaf.args[0], S)):
                continue
            if _text_altering(leaf, S):
                bad(src(leaf)[:60], f"text column `{col}` is altered on read (`{src(leaf)[:50]}`)")
                continue
            if isinstance(leaf, ast.Constant):
                bad(f"{src(leaf)} when {cond_text(conds)[:60]}", f"`{col}` is read as the constant {src(leaf)} for non-empty cells")
                continue
            unk(leaf, f"parser form `{src(leaf)[:60]}` of text column `{col}` not recognised")
        elif kind == 'bool':
            wt, wf_ = W.get(col, {}).get('true', 'True'), W.get(col, {}).get('false', 'False')
            acc = _bool_accepts(leaf, S)
            if acc is None:
                if isinstance(leaf, ast.Call) and isinstance(leaf.func, ast.Name) and leaf.func.id == 'bool' and _mentions(leaf, S):
                    bad(src(leaf)[:60], f"`{col}` is read with bool(cell): the text 'False' is truthy")
                else:
                    unk(leaf, f"parser form `{src(leaf)[:60]}` of `{col}` not recognised")
                continue
            if (wt, wf_) != ('True', 'False') and (not acc('True') or acc('False')) and acc(wt) and not acc(wf_):
                bad(f"{src(leaf)[:50]} vs legacy 'True'/'False'",
                    f"`{col}` is now written as {wt!r}/{wf_!r} and read by `{src(leaf)[:50]}`, which maps 'True' to {acc('True')} and 'False' to "
                    f"{acc('False')}: a file in this layout written by an earlier version (or by hand) spells the flag 'True'/'False' (str of the "
                    f"bool) and loads with a different meaning")
                continue
            if not acc(wt) or acc(wf_):
                bad(src(leaf)[:60], f"`{col}` is written as {wt!r}/{wf_!r} but read by `{src(leaf)[:50]}`, which maps "
                                    f"{wt!r} to {acc(wt)} and {wf_!r} to {acc(wf_)}")
        elif kind == 'idlist':
            _reader_idlist(leaf, S, col, info, W, bad, unk)
    if ok and not has_empty_case and unguarded_value is not None and kind in ('date', 'float', 'optint', 'idlist'):
        bad(f"no empty-cell case: {src(unguarded_value)[:60]}", f"`{col}` is parsed by `{src(unguarded_value)[:50]}` without an empty-cell case: "
                                                                 f"None is written as '' and raises on read")
    if ok:
        o.site(f, node, f"reader {col} ({kind}): {src(vx)[:70]}")


def _fixed_century(leaf, conds):
    """leaf = datetime(<const century> + <expr>, month, day ..) reached under conditions without a pivot test on the year
    -> (leaf, year expr, offset) else None.  A single century offset cannot reproduce %y over 1969-2068."""
    if not (isinstance(leaf, ast.Call) and attr_path(leaf.func) in ('datetime', 'datetime.datetime', 'date', 'datetime.date')):
        return None
    year = leaf.args[0] if leaf.args else next((k.value for k in leaf.keywords if k.arg == 'year'), None)
    if not (isinstance(year, ast.BinOp) and isinstance(year.op, ast.Add)):
        return None
    a, b = year.left, year.right
    if isinstance(b, ast.Constant):
        a, b = b, a
    if not (isinstance(a, ast.Constant) and isinstance(a.value, int) and not isinstance(a.value, bool) and a.value >= 100 and a.value % 100 == 0) \
            or isinstance(b, ast.Constant):
        return None
    for t, _pol in conds:
        for n in ast.walk(t):
            if isinstance(n, ast.Compare) and any(isinstance(op, (ast.Lt, ast.LtE, ast.Gt, ast.GtE)) for op in n.ops):
                sides = [n.left] + n.comparators
                if any(isinstance(s, ast.Constant) and isinstance(s.value, (int, float)) for s in sides) \
                        and not any(isinstance(s, ast.Call) and isinstance(s.func, ast.Name) and s.func.id == 'len' for s in sides):
                    return None         # looks like a pivot test on the year: not decided here
    return leaf, year, a.value


def _bool_accepts(leaf, S):
    """predicate on the cell text the bool parser computes, as a python function; None if not recognised"""
    if isinstance(leaf, ast.Compare) and len(leaf.ops) == 1:
        l, op, r = leaf.left, leaf.ops[0], leaf.comparators[0]
        if not _mentions(l, S):
            l, r = r, l
        low = False
        if isinstance(l, ast.Call) and isinstance(l.func, ast.Attribute) and l.func.attr in ('lower', 'casefold') and same(_strip_ws(l.func.value), S):
            low = True
        elif not same(_strip_ws(l), S):
            return None
        vals = [r.value] if const_str(r) is not None else const_seq(r)
        if vals is None:
            return None
        if isinstance(op, (ast.Eq, ast.In)):
            return lambda t: (t.lower() if low else t) in vals
        if isinstance(op, (ast.NotEq, ast.NotIn)):
            return lambda t: (t.lower() if low else t) not in vals
    return None


def _reader_idlist(leaf, S, col, info, W, bad, unk):
    n = leaf
    if isinstance(n, ast.Call) and isinstance(n.func, ast.Name) and n.func.id == 'list' and len(n.args) == 1:
        n = n.args[0]
    elt = it = None
    ifs = []
    var = None
    if isinstance(n, (ast.ListComp, ast.GeneratorExp)) and len(n.generators) == 1 and isinstance(n.generators[0].target, ast.Name):
        g = n.generators[0]
        var = ast.Name(id=g.target.id, ctx=ast.Load())
        elt, it, ifs = n.elt, g.iter, g.ifs
    elif isinstance(n, ast.Call) and isinstance(n.func, ast.Name) and n.func.id == 'map' and len(n.args) == 2 \
            and isinstance(n.args[0], ast.Name) and n.args[0].id == 'int':
        it = n.args[1]
    else:
        unk(leaf, f"parser form `{src(leaf)[:60]}` of `{col}` not recognised")
        return
    if any(isinstance(c, ast.Call) and isinstance(c.func, ast.Name) and c.func.id in ('sorted', 'reversed', 'set') for c in ast.walk(it)):
        bad(src(it)[:60], f"`{col}` is read through `{src(it)[:50]}`: the order (or multiplicity) of predecessors changes")
        return
    if not (isinstance(it, ast.Call) and isinstance(it.func, ast.Attribute) and it.func.attr == 'split' and same(_strip_ws(it.func.value), S)):
        unk(it, f"`{col}` is not split from the cell text")
        return
    if len(it.args) != 1 or const_str(it.args[0]) is None:
        bad(src(it)[:60], f"`{col}` is split with `{src(it)[:50]}`; expected split({ID_SEP!r})")
        return
    sep = it.args[0].value
    info['sep'] = sep
    ws = W.get(col, {}).get('sep')
    if sep != ID_SEP:
        bad(f"split({sep!r})", f"`{col}` is split at {sep!r}; the property fixes {ID_SEP!r}" + (f" and the writer joins with {ws!r}" if ws else ''))
        return
    if ws is not None and ws != sep:
        bad(f"split({sep!r}) vs {ws!r}.join", f"`{col}` is joined with {ws!r} and split at {sep!r}")
        return
    if elt is not None:
        if not (isinstance(elt, ast.Call) and isinstance(elt.func, ast.Name) and elt.func.id == 'int' and len(elt.args) == 1
                and same(_strip_ws(elt.args[0]), var)):
            if any(isinstance(c, ast.Call) and isinstance(c.func, ast.Name) and c.func.id == 'abs' for c in ast.walk(elt)):
                bad(src(elt)[:60], f"`{col}` ids are read through abs(): negative ids change")
            elif same(elt, var):
                bad(src(elt)[:60], f"`{col}` ids stay text; ids are integers (expected int(v))")
            else:
                unk(elt, f"id parser `{src(elt)[:60]}` not recognised")
            return
        from sa.facts import split_conj
        from .c13_util import atom_fact
        for c in ifs:
            for a, pol in split_conj(c, True):
                fact = atom_fact(a, pol, var)
                if fact == 'digits':
                    bad(f"filter {src(c)[:60]}", f"`{col}` keeps only fragments that are all digits (`{src(c)[:50]}`): negative predecessor ids are dropped")
                    return
                if fact in ('nonempty', 'truthy'):
                    continue
                if fact is None:
                    unk(c, f"`{col}` fragments are filtered by `{src(c)[:60]}`")
                else:
                    bad(f"filter {src(c)[:60]}", f"`{col}` fragments are filtered by `{src(c)[:50]}`")
                return


def _memo_decorator(node, imports):
    """functools.lru_cache / functools.cache on a function definition -> 'typed' | 'untyped' | None (not memoised)"""
    for d in getattr(node, 'decorator_list', []):
        call = d if isinstance(d, ast.Call) else None
        fn = call.func if call is not None else d
        p_ = attr_path(fn) or ''
        base = p_.split('.')[-1]
        origin = imports.get(p_.split('.')[0], '')
        if base in ('lru_cache', 'cache') and (p_.startswith('functools.') or origin.startswith('functools')):
            typed = call is not None and (any(k.arg == 'typed' and isinstance(k.value, ast.Constant) and k.value.value is True for k in call.keywords)
                                          or (len(call.args) > 1 and isinstance(call.args[1], ast.Constant) and call.args[1].value is True))
            return 'typed' if typed else 'untyped'
    return None


def _memoised_formatters(ctx, o, wf):
    """cells formatted through a helper memoised with functools.lru_cache / cache (typed=False): the cache key is the VALUE, and
    1 == 1.0 == True, 0 == 0.0 == False hash alike - when one such helper serves the bool column and a numeric column, the text of
    whichever was formatted first in the process is returned for the others.
    Read from the module TEXT as written (the normaliser splices new one-expression helpers into their callers and the
    decorator would be lost): module level functions of io/csv_io.py with the decorator, called with <x>.<column> arguments."""
    mod = wf.module
    try:
        tree = ast.parse(mod.src)
    except SyntaxError:
        return
    memo = {st.name: st for st in tree.body if isinstance(st, ast.FunctionDef) and _memo_decorator(st, mod.imports) == 'untyped'}
    if not memo:
        return
    used = {}
    for c in ast.walk(tree):
        if isinstance(c, ast.Call) and isinstance(c.func, ast.Name) and c.func.id in memo and len(c.args) == 1 and not c.keywords:
            a0 = c.args[0]
            if isinstance(a0, ast.Attribute) and isinstance(a0.value, ast.Name) and a0.attr in KIND:
                used.setdefault(c.func.id, {}).setdefault(a0.attr, c)
    for name, cols in used.items():
        bools = [c_ for c_ in cols if KIND[c_] == 'bool']
        nums = [c_ for c_ in cols if KIND[c_] in ('int', 'optint', 'float')]
        if bools and nums:
            o.refute(wf, None, f"{name} memoised for {', '.join(sorted(cols))}",
                     f"the cells of `{bools[0]}` and `{'`, `'.join(nums)}` are formatted by `{name}` ({mod.rel}:{memo[name].lineno}), which is memoised with "
                     f"functools.lru_cache/cache (typed=False): the cache key does not distinguish True / 1 / 1.0 (nor False / 0 / 0.0), so whichever is "
                     f"formatted first decides the text of the others - a milestone flag is written as '1'/'1.0' (read back as False) or an estimate "
                     f"of 1 as 'True' (ValueError on read); expected an unmemoised formatter (or typed=True / one formatter per column kind)")


def ob_converters(ctx, o, F):
    w = find_writer(ctx, o)
    r = find_reader(ctx, o)
    if w is None or r is None:
        return
    f, fx, hcall, rcall, rfor = w
    W, R = {}, {}
    rowvar = F.row_var.id if isinstance(F.row_var, ast.Name) else rfor.target.id
    wfun = getattr(F, 'row_func', None) or f
    if F.row_elts is None:
        o.undecided(f, rcall, 'row literal', "the row literal was not recognised (see C13.columns): writer forms cannot be paired with columns")
    else:
        for col, e in zip(COLUMNS, F.row_elts):
            S = ast.Attribute(value=ast.Name(id=rowvar, ctx=ast.Load()), attr=col, ctx=ast.Load())
            if not _mentions(e, S):
                continue        # reported by C13.columns
            _writer_column(ctx, o, wfun, rcall if wfun is f else None, col, e, S, W)
    _memoised_formatters(ctx, o, f)
    rf = r['func']
    cells = F.reader_cells
    if cells is None:
        o.undecided(rf, r['ctor'], 'reader cells', "TaskRaw(...) cells were not recognised (see C13.reader-keys)")
        return
    for col in COLUMNS:
        if col not in cells:
            continue
        vx, cell, key = cells[col]
        if key != col:
            continue
        _reader_column(ctx, o, rf, r['ctor'], col, vx, cell, W, R)


# ======================================================================================================== C13.io-modes
def _norm_enc(e):
    return e.lower().replace('_', '-').replace('utf8', 'utf-8') if isinstance(e, str) else e


def _param_default(func, name):
    a = func.node.args
    pos = a.posonlyargs + a.args
    d = dict(zip([x.arg for x in pos][len(pos) - len(a.defaults):], a.defaults))
    d.update({k.arg: v for k, v in zip(a.kwonlyargs, a.kw_defaults) if v is not None})
    return d.get(name)


def _arg_value(fx, func, call, pos, name, entry=None, bind=None):
    """(kind, value): ('absent', None) | ('const', python value) | ('param', (param name, default const or NotImplemented)) | ('other', node)"""
    node = None
    if pos is not None and len(call.args) > pos and not any(isinstance(a, ast.Starred) for a in call.args[:pos + 1]):
        node = call.args[pos]
    for k in call.keywords:
        if k.arg == name:
            node = k.value
    if node is None:
        return 'absent', None
    x = fx.x(node) if fx.flow.node_of_expr(node) is not None else node
    if isinstance(x, ast.Constant):
        return 'const', x.value
    if isinstance(x, ast.Name) and x.id in func.params and bind is not None and x.id in bind:
        # func is the private helper the entry function delegates to: look through to the entry function's argument
        x = bind[x.id]
        if isinstance(x, ast.Constant):
            return 'const', x.value
        func = entry
    if isinstance(x, ast.Name) and x.id in func.params:
        d = _param_default(func, x.id)
        return 'param', (x.id, d.value if isinstance(d, ast.Constant) else NotImplemented)
    return 'other', x


def _io_side(ctx, o, func, what, entry=None, bind=None):
    """-> dict(open=call, file var, csv=call, mode, encoding, newline, delimiter, extra) or None"""
    fx = fx_of(ctx, func)
    opens = [c for c in walk_no_nested(func.node) if isinstance(c, ast.Call) and isinstance(c.func, ast.Name) and c.func.id == 'open']
    csvs = [c for c in walk_no_nested(func.node) if isinstance(c, ast.Call) and _is_csv_call(func, c, what)]
    if len(opens) != 1 or len(csvs) != 1:
        other = [c for c in walk_no_nested(func.node) if isinstance(c, ast.Call) and attr_path(c.func) in
                 ('csv.DictReader', 'csv.DictWriter', 'io.open', 'codecs.open')]
        o.undecided(func, func.node, f"{func.name} open()/csv.{what}()", f"expected one open(...) and one csv.{what}(...) in {func.name}, "
                                                                        f"found {len(opens)} / {len(csvs)}" + (f" (uses {attr_path(other[0].func)})" if other else ''))
        return None
    op, cs = opens[0], csvs[0]
    # the csv object must be built on the opened file
    fvar = None
    for n in walk_no_nested(func.node):
        if isinstance(n, ast.With):
            for it in n.items:
                if it.context_expr is op and isinstance(it.optional_vars, ast.Name):
                    fvar = it.optional_vars.id
    if fvar is None:
        dv = [n for n in walk_no_nested(func.node) if isinstance(n, ast.Assign) and n.value is op and isinstance(n.targets[0], ast.Name)]
        fvar = dv[0].targets[0].id if dv else None
    arg0 = cs.args[0] if cs.args else None
    if fvar is None or arg0 is None:
        o.undecided(func, cs, cs, f"csv.{what}(...) is not built on the file object returned by open(...)")
        return None
    if not (isinstance(arg0, ast.Name) and arg0.id == fvar):
        a0 = fx.x(arg0, keep=[fvar]) if fx.flow.node_of_expr(arg0) is not None else arg0
        a0 = _gen_as_comp(ctx, func, a0)
        kind, why = _line_source(a0, fvar) if what == 'reader' else ('unknown', None)
        if kind == 'transformed' and why.startswith('rewritten') and any(const_str(n) == BOM for n in ast.walk(a0)):
            o.refute(func, cs, f"csv.reader over {src(arg0)[:90]}",
                     f"csv.reader is fed from `{src(arg0)[:60]}`, which yields every line of the file {why} - U+FEFF is removed from EVERY line, not "
                     f"only from the byte-order mark position at the start of the file: a name, resource or custom attribute value that contains "
                     f"U+FEFF (zero width no-break space) loses it on read (expected the mark to be stripped from the header names only)")
            return None
        if kind == 'transformed':
            o.refute(func, cs, f"csv.reader over {src(a0)[:90]}",
                     f"csv.reader is fed from `{src(a0)[:90]}` - the file's physical lines {why.replace(' (SPLITLINES-BOUNDARIES)', '')} - instead of the file object: "
                     + ("an unquoted text cell that contains one of these characters (the writer quotes only delimiter, quote, CR and LF) ends its "
                        "record there, the row is split in two" if 'SPLITLINES-BOUNDARIES' in why else
                        "a quoted text field that spans several physical lines (embedded line breaks, empty lines) is altered before the csv parser sees it"))
            return None
        if kind != 'file':
            o.undecided(func, cs, cs, f"csv.{what}(...) is not built on the file object returned by open(...)")
            return None
    o.site(func, cs, f"csv.{what} on the opened file `{fvar}`")
    d = dict(open=op, csv=cs, func=func)
    d['mode'] = _arg_value(fx, func, op, 1, 'mode', entry, bind)
    d['encoding'] = _arg_value(fx, func, op, 3, 'encoding', entry, bind)
    d['newline'] = _arg_value(fx, func, op, 5, 'newline', entry, bind)
    d['delimiter'] = _arg_value(fx, func, cs, None, 'delimiter', entry, bind)
    d['extra'] = {k.arg: k.value for k in cs.keywords if k.arg not in ('delimiter',)}
    if len(cs.args) > 1:
        d['extra']['<dialect>'] = cs.args[1]
    return d


def _gen_as_comp(ctx, func, x, depth=0):
    """`g(ARG)` with a private line generator `def g(lines): for line in lines: [if C: continue] yield E` / `if C: yield E`
    -> the generator expression `(E for line in ARG if ..)` it stands for (nested calls too); anything else unchanged"""
    if depth > 3 or not isinstance(x, ast.Call):
        return x
    hf = package_helper(ctx, func, x)
    if hf is None or hf.module is not func.module:
        if isinstance(x.func, ast.Name) and x.func.id in ('iter', 'list', 'tuple') and len(x.args) == 1 and not x.keywords:
            return ast.Call(func=x.func, args=[_gen_as_comp(ctx, func, x.args[0], depth + 1)], keywords=[])
        return x
    b = bind_call(x, hf)
    body = [st for st in hf.node.body if not (isinstance(st, ast.Expr) and isinstance(st.value, ast.Constant))]
    if b is None or len(b) != 1 or len(body) != 1 or not isinstance(body[0], ast.For) or body[0].orelse or not isinstance(body[0].target, ast.Name) \
            or not (isinstance(body[0].iter, ast.Name) and body[0].iter.id in b) or hf.node.decorator_list:
        return x
    lp = body[0]
    ifs = []
    elt = None
    for i, st in enumerate(lp.body):
        last = i == len(lp.body) - 1
        if isinstance(st, ast.If) and not st.orelse and len(st.body) == 1 and isinstance(st.body[0], ast.Continue) and not last:
            ifs.append(ast.UnaryOp(op=ast.Not(), operand=st.test))
        elif last and isinstance(st, ast.If) and not st.orelse and len(st.body) == 1 and isinstance(st.body[0], ast.Expr) \
                and isinstance(st.body[0].value, ast.Yield) and st.body[0].value.value is not None:
            ifs.append(st.test)
            elt = st.body[0].value.value
        elif last and isinstance(st, ast.Expr) and isinstance(st.value, ast.Yield) and st.value.value is not None:
            elt = st.value.value
        else:
            return x
    if elt is None or any(isinstance(n, (ast.Yield, ast.YieldFrom)) for n in ast.walk(elt)):
        return x
    arg = _gen_as_comp(ctx, func, b[lp.iter.id], depth + 1)
    return ast.fix_missing_locations(ast.GeneratorExp(elt=elt, generators=[ast.comprehension(target=lp.target, iter=arg, ifs=ifs, is_async=0)]))


def _line_source(x, fvar):
    """what csv.reader's first argument (expanded) is relative to the opened file `fvar`:
    ('file', None) the file object or an order/content preserving view of its lines | ('transformed', why) a filtered / stripped /
    re-split / mapped sequence of its physical lines | ('unknown', None)"""
    def mentions(n):
        return any(isinstance(m, ast.Name) and m.id == fvar for m in ast.walk(n))

    if isinstance(x, ast.Name):
        return ('file', None) if x.id == fvar else ('unknown', None)
    if isinstance(x, (ast.GeneratorExp, ast.ListComp)):
        g = x.generators[0]
        inner = _line_source(g.iter, fvar)
        if inner[0] == 'unknown':
            return inner
        if inner[0] == 'transformed':
            return inner
        if len(x.generators) == 1 and not g.ifs and same(x.elt, g.target):
            return 'file', None
        if any(gg.ifs for gg in x.generators):
            c = next(gg.ifs[0] for gg in x.generators if gg.ifs)
            return 'transformed', f"filtered by `{src(c)[:50]}`"
        return 'transformed', f"rewritten as `{src(x.elt)[:50]}`"
    if isinstance(x, ast.Call):
        fn = x.func
        if isinstance(fn, ast.Name) and fn.id in ('iter', 'list', 'tuple') and len(x.args) == 1 and not x.keywords:
            return _line_source(x.args[0], fvar)
        if isinstance(fn, ast.Name) and fn.id in ('filter', 'map') and len(x.args) == 2:
            inner = _line_source(x.args[1], fvar)
            if inner[0] != 'unknown':
                return 'transformed', f"passed through {fn.id}({src(x.args[0])[:40]}, ..)"
            return inner
        if isinstance(fn, ast.Attribute) and fn.attr == 'readlines' and not x.args and isinstance(fn.value, ast.Name) and fn.value.id == fvar:
            return 'file', None
        if isinstance(fn, ast.Attribute) and fn.attr in ('splitlines', 'split') and mentions(fn.value) and \
                not any(k.arg == 'keepends' for k in x.keywords) and not (fn.attr == 'splitlines' and x.args):
            return 'transformed', f"re-split by .{fn.attr}() (line terminators removed)"
        if isinstance(fn, ast.Attribute) and fn.attr == 'splitlines' and mentions(fn.value):
            # keepends=True keeps the terminators, but str.splitlines() breaks at MORE characters than the file's line structure
            return 'transformed', ("re-split by str.splitlines(), which also breaks at \\x0b, \\x0c, \\x1c-\\x1e, \\x85, \\u2028 and \\u2029 "
                                   "(SPLITLINES-BOUNDARIES)")
        name = fn.id if isinstance(fn, ast.Name) else (fn.attr if isinstance(fn, ast.Attribute) and attr_path(fn.value) == 'itertools' else None)
        if name in ('dropwhile', 'takewhile', 'filterfalse') and len(x.args) == 2 and _line_source(x.args[1], fvar)[0] != 'unknown':
            return 'transformed', f"passed through {name}({src(x.args[0])[:40]}, ..)"
    return 'unknown', None


def _eff(v):
    """effective constant of an _arg_value result or NotImplemented"""
    kind, val = v
    if kind == 'absent':
        return None
    if kind == 'const':
        return val
    if kind == 'param':
        return val[1]
    return NotImplemented


def ob_io_modes(ctx, o, F):
    prog = ctx.prog
    rf, rbind, _ = _entry_body(ctx, 'read_csv')
    wf, wbind, _ = _entry_body(ctx, 'write_csv')
    r = _io_side(ctx, o, rf, 'reader', prog.func(CSV + '.read_csv'), rbind)
    w = _io_side(ctx, o, wf, 'writer', prog.func(CSV + '.write_csv'), wbind)
    if r is None or w is None:
        return
    # ---- mode
    for side, d, good, fn in (('reader', r, ('r', 'rt', None), rf), ('writer', w, ('w', 'wt'), wf)):
        m = _eff(d['mode'])
        if m is NotImplemented:
            o.undecided(fn, d['open'], d['open'], f"{side} open() mode is not a constant")
        elif m in good:
            o.site(fn, d['open'], f"{side} mode {m!r}")
        elif isinstance(m, str) and 'b' in m:
            o.undecided(fn, d['open'], d['open'], f"{side} opens the file in binary mode {m!r}")
        else:
            o.refute(fn, d['open'], f"{side} open mode {m!r}", f"{side} opens the file with mode {m!r}; expected {good[0]!r}"
                                                              + (" (appending breaks the byte-for-byte fixpoint and duplicates the header)" if m and 'a' in m else ''))
    # ---- encoding
    re_, we = _eff(r['encoding']), _eff(w['encoding'])
    if re_ is NotImplemented or we is NotImplemented:
        o.undecided(rf, r['open'], 'encoding', "encoding of open() is neither a constant nor a parameter with a constant default")
    elif re_ is None or we is None:
        side, d, fn = ('reader', r, rf) if re_ is None else ('writer', w, wf)
        o.refute(fn, d['open'], f"{side} open() without encoding", f"{side} opens the file without an explicit encoding (platform default) while the "
                                                                   f"other side uses {we if re_ is None else re_!r}: non-ASCII text does not round trip")
    else:
        a, b = _norm_enc(re_), _norm_enc(we)
        fam = lambda x: 'utf-8' if x in ('utf-8', 'utf-8-sig') else x
        if fam(a) != fam(b):
            o.refute(rf, r['open'], f"encoding {re_!r} vs {we!r}", f"reader default encoding {re_!r} differs from the writer's {we!r}")
        elif fam(a) != 'utf-8':
            o.refute(rf, r['open'], f"encoding {re_!r}", f"default encoding {re_!r} cannot represent all characters / the UTF-8 BOM clause of the property")
        elif r['encoding'][0] != w['encoding'][0]:
            o.refute(wf if w['encoding'][0] == 'const' else rf, (w if w['encoding'][0] == 'const' else r)['open'], 'encoding parameter ignored on one side',
                     "one side passes its `encoding` parameter to open(), the other hard-codes it")
        else:
            o.site(rf, r['open'], f"encoding {re_!r} == {we!r} on both sides")
        F.reader_encoding = a
    # ---- newline
    for side, d, fn in (('reader', r, rf), ('writer', w, wf)):
        nl = _eff(d['newline'])
        if nl is NotImplemented:
            o.undecided(fn, d['open'], d['open'], f"{side} newline argument is not a constant")
        elif nl in ('', '\n'):
            o.site(fn, d['open'], f"{side} newline={nl!r} (no translation)")
        elif nl is None:
            why = ("universal newline translation turns '\\r' and '\\r\\n' inside quoted text fields into '\\n'" if side == 'reader' else
                   "the platform's newline translation rewrites '\\n' inside quoted text fields (and the row terminator) on write")
            o.refute(fn, d['open'], f"{side} open() without newline", f"{side} opens the file without newline='\\n' (or ''): {why}")
        else:
            o.refute(fn, d['open'], f"{side} newline={nl!r}", f"{side} opens the file with newline={nl!r}: line breaks inside text fields are translated")
    # ---- delimiter
    rd, wd = r['delimiter'], w['delimiter']
    er, ew = _eff(rd), _eff(wd)
    if er is NotImplemented or ew is NotImplemented:
        o.undecided(rf, r['csv'], 'delimiter', "csv delimiter is neither a constant nor a parameter with a constant default")
    elif er is None or ew is None:
        side, fn, d = ('reader', rf, r) if er is None else ('writer', wf, w)
        o.refute(fn, d['csv'], f"{side} without delimiter", f"csv.{side}(...) is built without delimiter= (',' by default) while the other side uses {ew if er is None else er!r}")
    elif er != ew:
        o.refute(rf, rf.node, f"delimiter {er!r} vs {ew!r}", f"reader's default delimiter {er!r} differs from the writer's {ew!r}")
    elif er != DELIMITER:
        o.refute(rf, rf.node, f"delimiter {er!r}", f"default delimiter is {er!r}; the property's layout uses {DELIMITER!r}")
    elif rd[0] != wd[0]:
        fn, d = (wf, w) if wd[0] == 'const' else (rf, r)
        o.refute(fn, d['csv'], 'delimiter parameter ignored on one side', "one side passes its `delimiter` parameter to csv, the other hard-codes it")
    else:
        o.site(rf, r['csv'], f"delimiter default {er!r} on both sides")
    # ---- other dialect options
    rx, wx = dict(r['extra']), dict(w['extra'])
    lt = wx.pop('lineterminator', None)
    if lt is not None:
        # csv.writer (QUOTE_MINIMAL) quotes a field only when it contains the delimiter, the quote character or one of the
        # characters OF THE LINE TERMINATOR (CPython < 3.13; 3.13 always quotes '\r' and '\n').  With the default '\r\n' both
        # line break characters force quoting; a terminator that lacks one of them lets that character through unquoted and
        # csv.reader then ends the record there (or raises "new-line character seen in unquoted field").
        ltx = fx_of(ctx, wf).x(lt) if fx_of(ctx, wf).flow.node_of_expr(lt) is not None else lt
        ltv = const_str(ltx)
        if ltv is None:
            o.undecided(wf, w['csv'], lt, "csv.writer lineterminator is not a constant")
        elif ltv == '\r\n':
            o.site(wf, w['csv'], "lineterminator '\\r\\n' (the default): both line break characters force quoting")
        elif '\r' not in ltv or '\n' not in ltv:
            lack = [repr(c) for c in ('\r', '\n') if c not in ltv]
            o.refute(wf, w['csv'], f"csv.writer(lineterminator={ltv!r})",
                     f"csv.writer is built with lineterminator={ltv!r}: the writer quotes only fields that contain the delimiter, the quote "
                     f"character or a character of the line terminator, so a text field with a bare {' / '.join(lack)} is written unquoted "
                     f"and the file cannot be read back (expected the default '\\r\\n' terminator, under which every line break is quoted)")
        else:
            o.undecided(wf, w['csv'], lt, f"unusual lineterminator {ltv!r}")
    if 'lineterminator' in rx:
        rx.pop('lineterminator')        # ignored by csv.reader
    if set(rx) != set(wx) or any(src(rx[k]) != src(wx[k]) for k in rx):
        one = sorted(set(rx) ^ set(wx)) or sorted(k for k in rx if src(rx[k]) != src(wx[k]))
        fn, d = (rf, r) if any(k in rx for k in one) else (wf, w)
        o.refute(fn, d['csv'], f"dialect option {', '.join(one)}", f"csv dialect option(s) {', '.join(one)} differ between reader and writer")
    elif rx:
        o.undecided(rf, r['csv'], ', '.join(sorted(rx)), "non-default csv dialect on both sides: quoting behaviour is outside the trusted default")
    # ---- BOM
    bom = F.bom
    if getattr(F, 'reader_encoding', None) == 'utf-8-sig':
        o.site(rf, r['open'], "BOM consumed by the utf-8-sig codec")
    elif bom is None:
        o.undecided(rf, rf.node, 'BOM', "header name construction not recognised (see C13.reader-keys)")
    elif bom[0]:
        o.site(bom[1], bom[2], f"BOM stripped from header names: {src(bom[2])[:50]}")
    else:
        o.refute(bom[1], bom[2], f"header name {src(bom[2])[:50]} keeps BOM", "header names keep a leading U+FEFF: a file with a UTF-8 byte-order mark "
                                                                               "fails to load (KeyError 'id')")


# ======================================================================================================== C13.fields-covered
def _item_helper(ctx, fn, clsname):
    """fn builds its objects through a per-item private helper of the same module: `[helper(x) for x in ITEMS]` or
    `for x in ITEMS: .. helper(x) ..`, the helper holding the single <clsname>(...) call outside any loop
    -> (ctor call, name of the helper parameter bound to the item, helper) or None"""
    fx = fx_of(ctx, fn)
    found = []
    comps = [n for n in ast.walk(fn.node) if isinstance(n, (ast.ListComp, ast.GeneratorExp)) and len(n.generators) == 1
             and isinstance(n.generators[0].target, ast.Name) and not n.generators[0].ifs]
    for c in walk_no_nested(fn.node):
        hf = package_helper(ctx, fn, c) if isinstance(c, ast.Call) else None
        if hf is None or hf.module is not fn.module or hf is fn:
            continue
        inner = [x for x in walk_no_nested(hf.node) if isinstance(x, ast.Call) and isinstance(x.func, ast.Name) and x.func.id == clsname]
        if len(inner) != 1 or fx_of(ctx, hf).enclosing_fors(inner[0]):
            continue
        b = bind_call(c, hf)
        if b is None:
            return None
        item = None
        comp = [n for n in comps if n.elt is c]
        fors = fx.enclosing_fors(c)
        if comp:
            item = comp[0].generators[0].target.id
        elif len(fors) == 1 and isinstance(fors[0].target, ast.Name):
            item = fors[0].target.id
        ps = [p_ for p_, a in b.items() if isinstance(a, ast.Name) and a.id == item]
        if item is None or len(ps) != 1:
            return None
        found.append((inner[0], ps[0], hf))
    # map(helper, ITEMS)
    for c in walk_no_nested(fn.node):
        if isinstance(c, ast.Call) and isinstance(c.func, ast.Name) and c.func.id == 'map' and len(c.args) == 2 and not c.keywords \
                and isinstance(c.args[0], ast.Name):
            tg = [t for t in ctx.typer.resolve_name_call(c.args[0].id, fn) if t.kind == 'function']
            if len(tg) != 1 or tg[0].module is not fn.module or tg[0] is fn or len(tg[0].params) != 1:
                continue
            inner = [x for x in walk_no_nested(tg[0].node) if isinstance(x, ast.Call) and isinstance(x.func, ast.Name) and x.func.id == clsname]
            if len(inner) == 1 and not fx_of(ctx, tg[0]).enclosing_fors(inner[0]):
                found.append((inner[0], tg[0].params[0], tg[0]))
    return found[0] if len(found) == 1 else None


def _raw_ctor(ctx, o, fn, clsname):
    """the single <clsname>(...) call of fn inside a one-variable for loop (or inside the per-item helper fn maps over its
    items) -> (call, item variable name, function that holds the call) or None"""
    fx = fx_of(ctx, fn)
    cs = [c for c in walk_no_nested(fn.node) if isinstance(c, ast.Call) and isinstance(c.func, ast.Name) and c.func.id == clsname]
    if not cs:
        h = _item_helper(ctx, fn, clsname)
        if h is not None:
            return h
    if len(cs) != 1:
        o.undecided(fn, fn.node, f"{fn.name} {clsname}(...)", f"expected one {clsname}(...) call in {fn.name}, found {len(cs)}")
        return None
    fors = fx.enclosing_fors(cs[0])
    if len(fors) != 1 or not isinstance(fors[0].target, ast.Name):
        o.undecided(fn, cs[0], f"{fn.name} loop", f"{clsname}(...) is not built inside one `for x in ..` loop")
        return None
    return cs[0], fors[0].target.id, fn


def _single_copy(ctx, o, fn, dst_name):
    gcs = generic_copies(ctx, fn)
    gcs = [g for g in gcs if isinstance(g.dst, ast.Name)]
    return gcs


def _hop_kw(o, fn, call, field, value, srcvar, what, ctx=None, body=None):
    """keyword value must be srcvar.field -> True ok / False reported"""
    want = ast.Attribute(value=ast.Name(id=srcvar, ctx=ast.Load()), attr=field, ctx=ast.Load())
    if same(value, want):
        return True
    if ctx is not None and isinstance(value, (ast.IfExp, ast.BoolOp)):
        # `<constant> if C else x.field`: fine when C only says that x.field is absent; a condition about something else
        # replaces the field's value by the constant for some objects
        ok = True
        for conds, leaf in split_cases(ctx, body or fn, value):
            if same(leaf, want):
                continue
            facts, unknown = sym_facts(conds, want)
            if isinstance(leaf, ast.Constant) and leaf.value in (None, '') and not unknown and facts & {'none', 'falsy', 'empty'} \
                    and FIELD_KIND.get(field) in ({'text', 'date'} | ({'float', 'optint'} if 'none' in facts else set())):
                continue
            ok = False
            if FIELD_KIND.get(field) == 'text' and _text_altering(leaf, want):
                o.refute(fn, call, f"{what}({field}={src(leaf)[:50]})",
                         f"{what}(...) receives `{src(leaf)[:60]}` as `{field}`: the text is rewritten on the way (text fields may contain any characters), "
                         f"so a {field} that is not already in that form does not come back equal")
            elif isinstance(leaf, ast.Constant) and unknown and not any(_mentions(t, want) for t, _p in unknown):
                o.refute(fn, call, f"{what}({field}={src(leaf)} when {cond_text(unknown)[:50]})",
                         f"{what}(...) receives the constant {src(leaf)} instead of {srcvar}.{field} when `{cond_text(unknown)[:60]}` - a condition that says "
                         f"nothing about {srcvar}.{field} itself: the value such objects carry is not written and comes back as {src(leaf)}")
            else:
                o.undecided(fn, call, f"{what}({field}={src(value)[:50]})", f"{what}(...) keyword `{field}` is not simply {srcvar}.{field}")
        return ok
    attrs = sorted({n.attr for n in ast.walk(value) if isinstance(n, ast.Attribute) and isinstance(n.value, ast.Name) and n.value.id == srcvar})
    if attrs and field not in attrs:
        o.refute(fn, call, f"{what}({field}={src(value)[:50]})", f"{what}(...) receives `{field}` from `{src(value)[:50]}`; expected {srcvar}.{field}")
    elif isinstance(value, ast.Constant):
        o.refute(fn, call, f"{what}({field}={src(value)[:50]})", f"{what}(...) receives the constant {src(value)} as `{field}`")
    else:
        o.undecided(fn, call, f"{what}({field}={src(value)[:50]})", f"{what}(...) keyword `{field}` is not simply {srcvar}.{field}")
    return False


def _copy_hint(fn):
    """fn touches attribute dictionaries / setattr although no generic copy loop was recognised"""
    for n in walk_no_nested(fn.node):
        if isinstance(n, ast.Attribute) and n.attr in ('__dict__', '__setattr__', 'update', '__getattribute__'):
            return True
        if isinstance(n, ast.Name) and n.id in ('vars', 'setattr', 'getattr'):
            return True
    return False


_NUMERIC = ('int', 'float', 'round', 'abs', 'bool', 'Decimal', 'Fraction', 'complex')


def _numeric_cast(ctx, caller, fname):
    """fname is a numeric builtin, or a package function that returns <numeric builtin>(<its parameter>) on some path (the builtin
    may be the variable of a loop over a literal tuple of them: `for cast in (int, float): return cast(value)`) -> text naming the
    cast, else None"""
    if fname in _NUMERIC:
        return f"{fname}()"
    tg = [t for t in ctx.typer.resolve_name_call(fname, caller) if t.kind in ('function', 'nested')]
    if len(tg) != 1 or not tg[0].params:
        return None
    hf, fxh = tg[0], fx_of(ctx, tg[0])
    for r_ in walk_no_nested(hf.node):
        if not (isinstance(r_, ast.Return) and isinstance(r_.value, ast.Call) and isinstance(r_.value.func, ast.Name) and r_.value.args):
            continue
        c = r_.value
        a0 = c.args[0]
        while isinstance(a0, ast.Call) and isinstance(a0.func, ast.Attribute) and a0.func.attr in ('strip', 'replace') :
            a0 = a0.func.value
        if not (isinstance(a0, ast.Name) and a0.id in hf.params):
            continue
        if c.func.id in _NUMERIC:
            return f"{c.func.id}()"
        for lp in fxh.enclosing_fors(r_):
            if isinstance(lp.target, ast.Name) and lp.target.id == c.func.id and isinstance(lp.iter, (ast.Tuple, ast.List)) \
                    and lp.iter.elts and all(isinstance(e, ast.Name) and e.id in _NUMERIC for e in lp.iter.elts):
                return f"{' / '.join(e.id for e in lp.iter.elts)}()"
    return None


def _unroll_name_dict(e):
    """{K: <expr over K> for K in <literal sequence of names>} -> {name: expr with K replaced, getattr(x, 'name') folded to x.name}
    (a dict literal with constant string keys is taken as it is); else None"""
    if isinstance(e, ast.Dict) and e.keys and all(k is not None and const_str(k) is not None for k in e.keys):
        return {k.value: v for k, v in zip(e.keys, e.values)}
    if not (isinstance(e, ast.DictComp) and len(e.generators) == 1 and not e.generators[0].ifs and isinstance(e.generators[0].target, ast.Name)
            and isinstance(e.key, ast.Name) and e.key.id == e.generators[0].target.id):
        return None
    names = const_seq(e.generators[0].iter)
    if not names or not all(isinstance(n, str) for n in names) or len(set(names)) != len(names):
        return None
    kn = e.key.id
    return {nm: ast.fix_missing_locations(_FoldGetattr().visit(subst(e.value, {kn: ast.Constant(value=nm)}))) for nm in names}


class _FoldGetattr(ast.NodeTransformer):
    """getattr(x, 'name') / x.__getattribute__('name') with a literal name -> x.name"""
    def visit_Call(self, n):
        self.generic_visit(n)
        if isinstance(n.func, ast.Name) and n.func.id == 'getattr' and len(n.args) == 2 and const_str(n.args[1]) is not None and not n.keywords:
            return ast.Attribute(value=n.args[0], attr=n.args[1].value, ctx=ast.Load())
        if isinstance(n.func, ast.Attribute) and n.func.attr == '__getattribute__' and len(n.args) == 1 and const_str(n.args[0]) is not None:
            return ast.Attribute(value=n.func.value, attr=n.args[0].value, ctx=ast.Load())
        return n


def _unroll_listcomp(e):
    """[<expr over a, b> for a, b in [(A1, B1), (A2, B2), ..]] (a literal table, already resolved) -> [<expr with A1, B1>, ..] as an
    ast.List; anything else -> None"""
    if not (isinstance(e, ast.ListComp) and len(e.generators) == 1 and not e.generators[0].ifs and not e.generators[0].is_async):
        return None
    g = e.generators[0]
    if not (isinstance(g.iter, (ast.List, ast.Tuple)) and g.iter.elts):
        return None
    if isinstance(g.target, ast.Name):
        names = None
    elif isinstance(g.target, ast.Tuple) and all(isinstance(x, ast.Name) for x in g.target.elts):
        names = [x.id for x in g.target.elts]
    else:
        return None
    cells = []
    for row in g.iter.elts:
        if names is None:
            sub = {g.target.id: row}
        elif isinstance(row, (ast.Tuple, ast.List)) and len(row.elts) == len(names):
            sub = dict(zip(names, row.elts))
        else:
            return None
        if any(isinstance(x, ast.Starred) for x in ast.walk(row)):
            return None
        cells.append(_FoldGetattr().visit(subst(e.elt, sub)))
    return ast.fix_missing_locations(ast.List(elts=cells, ctx=ast.Load()))


def ob_fields(ctx, o, F):
    prog = ctx.prog
    t2r, r2w = prog.func(RAW + '.tasks_to_raws'), prog.func(RAW + '.raws_to_wbs')
    rd, wr = prog.func(CSV + '.read_csv'), prog.func(CSV + '.write_csv')
    task_sn, raw_sn = StaticNames(prog, 'Task'), StaticNames(prog, 'TaskRaw')
    a = _raw_ctor(ctx, o, t2r, 'TaskRaw')
    d = _raw_ctor(ctx, o, r2w, 'Task')
    if a is None or d is None:
        return
    (actor, tvar, t2r_b), (dctor, rvar, r2w_b) = a, d        # *_b: the function that holds the constructor call (a per-item helper)
    F.t2r_b, F.r2w_b = t2r_b, r2w_b
    fxa, fxd = fx_of(ctx, t2r_b), fx_of(ctx, r2w_b)
    akw, astar = call_kwargs(actor, raw_sn.params())
    dkw, dstar = call_kwargs(dctor, task_sn.params())
    akw = {k: fxa.x(v, keep=[tvar]) for k, v in akw.items()}
    dkw = {k: fxd.x(v, keep=[rvar]) for k, v in dkw.items()}
    # `**{f: getattr(x, f) for f in <literal names>}` is unrolled into keywords
    if astar is not None and sum(1 for k_ in actor.keywords if k_.arg is None) == 1:
        un = _unroll_name_dict(fxa.x(astar, keep=[tvar]))
        if un is not None and not (set(un) & set(akw)):
            akw.update(un)
            astar = None
    if dstar is not None and sum(1 for k_ in dctor.keywords if k_.arg is None) == 1:
        un = _unroll_name_dict(fxd.x(dstar, keep=[rvar]))
        if un is not None and not (set(un) & set(dkw)):
            dkw.update(un)
            dstar = None
    # names of the freshly built objects
    def built_name(fx, ctor):
        for n in walk_no_nested(fx.f.node):
            if isinstance(n, ast.Assign) and n.value is ctor and len(n.targets) == 1 and isinstance(n.targets[0], ast.Name):
                return n.targets[0].id
        return None
    rawname, taskname = built_name(fxa, actor), built_name(fxd, dctor)
    acopies = [g for g in generic_copies(ctx, t2r_b) if isinstance(g.dst, ast.Name) and g.dst.id == rawname
               and isinstance(g.src, ast.Name) and g.src.id == tvar]
    dcopies = [g for g in generic_copies(ctx, r2w_b) if isinstance(g.dst, ast.Name) and g.dst.id == taskname
               and isinstance(g.src, ast.Name) and g.src.id == rvar]
    if len(acopies) > 1 or len(dcopies) > 1:
        o.undecided(t2r if len(acopies) > 1 else r2w, None, 'several generic copies', "more than one generic attribute copy loop")
        return
    acopy = acopies[0] if acopies else None
    dcopy = dcopies[0] if dcopies else None
    F.acopy, F.dcopy = acopy, dcopy
    F.names = dict(tvar=tvar, rvar=rvar, rawname=rawname, taskname=taskname)
    for fn, body, gc in ((t2r, t2r_b, acopy), (r2w, r2w_b, dcopy)):
        if gc is None or gc.wrap is None:
            continue
        wname, wcall = gc.wrap[:2]
        wleaf, wbase = (gc.wrap[2], gc.wrap[3]) if len(gc.wrap) == 4 else (None, None)
        num = _numeric_cast(ctx, body, wname)
        if num is None and wleaf is not None and _text_altering(wleaf, wbase):
            o.refute(fn, wcall, f"custom value through {src(wleaf)[:50]}",
                     f"the generic attribute copy stores `{src(wleaf)[:60]}` for text values: the text is rewritten on the way (custom attributes may "
                     f"contain any characters and compare as strings), so a value that is not already in that form does not come back equal")
        elif num is not None:
            o.refute(fn, wcall, f"custom value through {wname}(..) -> {num}",
                     f"the generic attribute copy stores `{src(wcall)[:60]}`: `{wname}` turns the value into a number with {num}; custom attributes travel as "
                     f"text and compare as strings, and number text that is not in canonical form ('02134', '1.10', '1e5', ' 7 ') does not come back "
                     f"equal (expected the value as it is)")
        else:
            o.undecided(fn, wcall, wcall, f"the generic attribute copy passes every value through `{wname}(..)`, which the rule does not understand")
    for fn, gc in ((t2r, acopy), (r2w, dcopy)):
        for name, val, stmt in (gc.live if gc is not None else ()):
            o.refute(fn, stmt, f"{name} = {src(val)[:60]} computed once",
                     f"the generic attribute copy filters with `{name}`, computed once for the first object as `{src(val)[:60]}`: that is a live view "
                     f"of the first `{src(gc.dst)}`'s __dict__, which grows by every attribute the copy stores on that object - a custom attribute "
                     f"the first task carries is then rejected for every later task and lost (expected a snapshot such as set({src(val)[:40]}) "
                     f"or the per-object test `k not in {src(gc.dst)}.__dict__`)")
    if astar is not None or dstar is not None:
        o.undecided(t2r if astar is not None else r2w, None, '** in constructor call', "constructor called with ** arguments")
        return
    raw_static = set(raw_sn.inst)
    csv_src_consts = {n.value for fn in {rd, wr, _entry_body(ctx, 'read_csv')[0], _entry_body(ctx, 'write_csv')[0]} for n in ast.walk(fn.node) if isinstance(n, ast.Constant) and isinstance(n.value, str)}

    for field in DATA_FIELDS + [CUSTOM]:
        label = '<custom attribute>' if field == CUSTOM else field
        kind = FIELD_KIND.get(field, 'text')
        if field != CUSTOM and field not in task_sn.params():
            o.undecided(task_sn.init, None, f"Task.__init__ without {field}", f"Task.__init__ has no parameter `{field}` named by the property")
            continue
        # ---------------- hop A: Task -> TaskRaw
        route_a = None
        if field in akw:
            if not _hop_kw(o, t2r, actor, field, akw[field], tvar, 'TaskRaw', ctx, t2r_b):
                continue
            if field not in raw_sn.stores_param(field):
                o.refute(raw_sn.init, None, f"TaskRaw.__init__ {field}", f"TaskRaw.__init__ does not store parameter `{field}` as self.{field}")
                continue
            route_a = 'kw'
        else:
            in_task_dict = field == CUSTOM or field in task_sn.inst
            if acopy is None and _copy_hint(t2r_b):
                o.undecided(t2r, actor, f"{label}: attribute copy idiom", "tasks_to_raws moves attributes in an idiom the rule does not recognise")
                continue
            if acopy is None:
                o.refute(t2r, actor, f"{label}: not passed to TaskRaw(...) and no generic attribute copy", f"`{label}` never reaches the TaskRaw")
                continue
            env = KeyEnv(ctx, t2r_b)
            res, unk = eval_filter(acopy.conds, acopy.keyvar, field, env)
            if res is None:
                o.undecided(t2r, acopy.call, unk[0], f"filter of the generic Task -> TaskRaw copy not understood (deciding `{label}`)")
                continue
            if not in_task_dict or not res:
                why = (f"it is not in task.__dict__ (it is a property of Task)" if not in_task_dict else
                       f"the copy filter `{cond_text(failing_atoms(acopy.conds, acopy.keyvar, field, env))[:70]}` rejects it")
                o.refute(t2r, actor, f"{label}: not a TaskRaw(...) keyword and skipped by the generic copy",
                         f"`{label}` is not passed to TaskRaw(...) and the generic attribute copy does not carry it: {why}; the value is lost on write")
                continue
            route_a = 'generic'
        # ---------------- hop B: TaskRaw -> row
        if field in COLUMNS:
            if F.row_elts is None:
                o.undecided(wr, None, f"{field}: row literal", "row literal not recognised (see C13.columns)")
                continue
            route_b = 'column'
        else:
            if not F.custom_ok or F.discover_conds is None:
                o.undecided(wr, None, f"{label}: custom columns", "custom column discovery / emission not established (see C13.columns)")
                continue
            conds, k, owner = F.discover_conds
            res, unk = eval_filter(conds, k, field, KeyEnv(ctx, _entry_body(ctx, 'write_csv')[0]))
            if not res:
                o.refute(wr, None, f"{label}: no column", f"`{label}` is an attribute of the raw task but gets no column in write_csv")
                continue
            route_b = 'custom'
        # ---------------- hop C: row -> TaskRaw
        if route_b == 'column':
            cells = F.reader_cells or {}
            if field not in cells or cells[field][2] != field:
                if F.reader_cells is None or (field in getattr(F, 'reader_kw', ()) and field not in cells):
                    o.undecided(rd, None, f"{field}: reader", "reader cells not recognised (see C13.reader-keys)")
                else:
                    o.refute(rd, None, f"{field}: column not read", f"column `{field}` is written but not passed to TaskRaw(...) on read")
                continue
            if field not in raw_sn.stores_param(field):
                o.refute(raw_sn.init, None, f"TaskRaw.__init__ {field}", f"TaskRaw.__init__ does not store parameter `{field}` as self.{field}")
                continue
        else:
            if not F.kwargs_ok:
                o.undecided(rd, None, f"{label}: **kwargs", "custom attribute transport on read not established (see C13.reader-keys)")
                continue
            res, unk = eval_filter(F.kwargs_filter[0], F.kwargs_filter[1], field, KeyEnv(ctx, getattr(F, 'reader_func', rd)))
            if not res:
                o.refute(rd, None, f"{label}: header not admitted to **kwargs", f"column `{label}` is written but dropped on read")
                continue
            if field not in raw_sn.params() and not raw_sn.dynamic_kwargs:
                o.refute(raw_sn.init, None, "TaskRaw.__init__ ignores **kwargs", "TaskRaw.__init__ does not copy **kwargs onto the instance: custom columns are dropped")
                continue
        # ---------------- hop D: TaskRaw -> Task
        if field in dkw:
            if not _hop_kw(o, r2w, dctor, field, dkw[field], rvar, 'Task', ctx, r2w_b):
                continue
            if not task_sn.stores_param(field):
                o.refute(task_sn.init, None, f"Task.__init__ {field}", f"Task.__init__ does not store parameter `{field}`")
                continue
        else:
            if dcopy is None and _copy_hint(r2w_b):
                o.undecided(r2w, dctor, f"{label}: attribute copy idiom", "raws_to_wbs moves attributes in an idiom the rule does not recognise")
                continue
            if dcopy is None:
                o.refute(r2w, dctor, f"{label}: not passed to Task(...) and no generic attribute copy", f"`{label}` never reaches the rebuilt Task")
                continue
            extra = {rvar: {field}}
            env = KeyEnv(ctx, r2w_b, extra)
            res, unk = eval_filter(dcopy.conds, dcopy.keyvar, field, env)
            if res is None:
                o.undecided(r2w, dcopy.call, unk[0], f"filter of the generic TaskRaw -> Task copy not understood (deciding `{label}`)")
                continue
            if not res:
                fa = failing_atoms(dcopy.conds, dcopy.keyvar, field, env)
                shape = 'dir() membership' if any('dir(' in src(t) or 'hasattr' in src(t) for t, _ in fa) else 'the copy filter'
                o.refute(r2w, fa[0][0] if fa else dcopy.call, f"{label}: not a Task(...) keyword and skipped by {shape}",
                         f"`{label}` reaches the file (as a {'custom' if route_b == 'custom' else 'default'} column) but raws_to_wbs neither passes it to "
                         f"Task(...) nor copies it: `{cond_text(fa)[:70]}` is false for `{label}` (Task already has that attribute); lost by write_csv/read_csv")
                continue
        # ---------------- typed field through an untyped custom column
        if route_b == 'custom' and kind != 'text' and field != CUSTOM:
            if field in csv_src_consts:
                o.undecided(wr, None, f"{field}: special handling", f"`{field}` travels through a custom column with special handling the rule does not model")
            else:
                o.refute(wr, None, f"{field}: {kind} through untyped custom column", f"`{field}` ({kind}) travels as a custom text column without a converter: "
                                                                                      f"it comes back as a string")
            continue
        o.site(t2r, actor, f"{label}: Task -{route_a}-> TaskRaw -{route_b}-> row -> TaskRaw -> Task")


# ======================================================================================================== C13.no-leak
def ob_no_leak(ctx, o, F):
    prog = ctx.prog
    t2r, r2w = prog.func(RAW + '.tasks_to_raws'), prog.func(RAW + '.raws_to_wbs')
    task_sn, raw_sn = StaticNames(prog, 'Task'), StaticNames(prog, 'TaskRaw')
    if not hasattr(F, 'dcopy'):
        o.undecided(r2w, None, 'generic copies', "generic attribute copies not established (see C13.fields-covered)")
        return
    dcopy, acopy = F.dcopy, F.acopy
    # raw -> task: structural keys must not pass; `id` must not pass either (Task.id has no setter)
    if dcopy is None and _copy_hint(F.r2w_b):
        o.undecided(r2w, None, 'attribute copy idiom', "raws_to_wbs moves attributes in an idiom the rule does not recognise")
    elif dcopy is None:
        for key in STRUCTURAL + ['id']:
            o.site(r2w, None, f"no generic TaskRaw -> Task copy: `{key}` cannot leak")
    else:
        env = KeyEnv(ctx, F.r2w_b)
        for key in STRUCTURAL + [p for p in task_sn.props if p in raw_sn.inst and prog.find_setter('Task', p) is None]:
            res, unk = eval_filter(dcopy.conds, dcopy.keyvar, key, env)
            if res is None:
                o.undecided(r2w, dcopy.call, unk[0], f"filter of the generic TaskRaw -> Task copy not understood (deciding `{key}`)")
            elif res:
                if key in STRUCTURAL:
                    o.refute(r2w, dcopy.call, f"{key} copied onto tasks", f"the generic TaskRaw -> Task attribute copy ({cond_text(dcopy.conds)[:70]}) does not exclude the "
                                                                          f"structural raw key `{key}`: re-read tasks carry a stale `{key}` attribute that becomes a "
                                                                          f"custom column on the next write")
                else:
                    o.refute(r2w, dcopy.call, f"{key} copied onto tasks", f"the generic copy would assign read-only property `{key}` (AttributeError)")
            else:
                o.site(r2w, dcopy.call, f"`{key}` excluded from the raw -> Task copy")
    # task -> raw: private fields must not pass
    if acopy is None and _copy_hint(F.t2r_b):
        o.undecided(t2r, None, 'attribute copy idiom', "tasks_to_raws moves attributes in an idiom the rule does not recognise")
    elif acopy is None:
        o.site(t2r, None, "no generic Task -> TaskRaw copy: nothing can leak")
    else:
        env = KeyEnv(ctx, F.t2r_b)
        leaked, unknown = [], None
        for key in task_sn.inst:
            if not key.startswith('_'):
                continue
            res, unk = eval_filter(acopy.conds, acopy.keyvar, key, env)
            if res is None:
                unknown = unk[0]
            elif res:
                leaked.append(key)
        if leaked:
            o.refute(t2r, acopy.call, f"private fields copied onto raws", f"the generic Task -> TaskRaw copy admits private fields {leaked[:3]}: they become custom columns")
        elif unknown is not None:
            o.undecided(t2r, acopy.call, unknown, "filter of the generic Task -> TaskRaw copy not understood")
        else:
            o.site(t2r, acopy.call, "private Task fields excluded from the Task -> raw copy")


# ======================================================================================================== C13.id-opacity
ID_ATTRS = ('id', 'parent_id')
SENTINELS = ('EMPTY_TASK_ID',)


def _id_funcs(prog):
    out = [prog.func(RAW + '.tasks_to_raws'), prog.func(RAW + '.raws_to_wbs'), prog.func(CSV + '.read_csv'), prog.func(CSV + '.write_csv')]
    for q, fn in prog.funcs.items():
        if fn.kind == 'function' and fn.module.name in (CSV, RAW) and fn not in out and not q.startswith(CSV + '.__parse'):
            out.append(fn)      # private helpers extracted from the four entry points
    return out


def _incremental_member_filter(fx, ifs, at):
    """a filter `<id> in NAME` (positive) where NAME is a container that starts empty and is filled (add/append/update/
    subscript store) inside a loop that also encloses `at`: membership is tested against a set that is still growing
    -> (NAME, fill node, filter) or None"""
    from sa.facts import split_conj
    loops = fx.enclosing_fors(at)
    if not loops:
        return None
    for c in ifs:
        for t, pol in split_conj(c, True):
            if not (pol and isinstance(t, ast.Compare) and len(t.ops) == 1 and isinstance(t.ops[0], ast.In)
                    and isinstance(t.comparators[0], ast.Name) and t.comparators[0].id in fx.acc):
                continue
            name = t.comparators[0].id
            fills = []
            for n in walk_no_nested(fx.f.node):
                if isinstance(n, ast.Call) and isinstance(n.func, ast.Attribute) and n.func.attr in ('add', 'append', 'update', 'extend', 'setdefault') \
                        and isinstance(n.func.value, ast.Name) and n.func.value.id == name:
                    fills.append(n)
                elif isinstance(n, ast.Assign) and any(isinstance(x, ast.Subscript) and isinstance(x.value, ast.Name) and x.value.id == name
                                                       for x in n.targets):
                    fills.append(n)
            defs = fx.flow.defs_of(name)
            if len(defs) != 1 or not fills:
                continue
            # every fill happens inside a loop around `at`, and the (only, empty) initialisation lies outside that loop
            if all(any(l in fx.enclosing_fors(n) for l in loops) for n in fills) \
                    and not any(l in fx.enclosing_fors(defs[0].stmt) for l in loops if defs[0].stmt is not None):
                return name, fills[0], c
    return None


def _post_ctor_store(fx, ctor, attr, tvar):
    """the value `<new object>.<attr>` has after `X = Ctor(..)` when attr is not a constructor keyword but assigned afterwards:
    `X.attr = V` (once)                     -> V expanded
    `if C: X.attr = V`                      -> V if C else None       (None: the constructor default)
    `X.attr = ACC` with ACC filled by one `for v in IT: ACC.append(E)` loop  -> [E for v in IT ..]
    no store at all -> None;  anything else -> 'unknown'"""
    from .c13_util import _acc_loop
    f = fx.f
    xname = None
    for n in walk_no_nested(f.node):
        if isinstance(n, ast.Assign) and n.value is ctor and len(n.targets) == 1 and isinstance(n.targets[0], ast.Name):
            xname = n.targets[0].id
    stores = [n for n in walk_no_nested(f.node) if isinstance(n, (ast.Assign, ast.AugAssign, ast.AnnAssign))
              for t in (n.targets if isinstance(n, ast.Assign) else [n.target])
              if isinstance(t, ast.Attribute) and t.attr == attr and isinstance(t.value, ast.Name) and t.value.id == xname]
    dyn = [n for n in walk_no_nested(f.node) if isinstance(n, ast.Call) and set_attr_call(n) is not None
           and const_str(set_attr_call(n)[1]) == attr]
    if not stores and not dyn:
        return None
    if xname is None or dyn or len(stores) != 1 or not isinstance(stores[0], ast.Assign) or len(stores[0].targets) != 1:
        return 'unknown'
    st = stores[0]
    cn, sn_ = fx.cfg.node_containing(ctor), fx.cfg.node_of(st)
    if cn is None or sn_ is None or not fx.cfg.dominates(cn, sn_) and fx.cfg.conditions(sn_) == fx.cfg.conditions(cn):
        return 'unknown'
    outer = len(fx.cfg.conditions(cn))
    conds = fx.conds(st, keep=[tvar])
    inner = fx.cfg.conditions(sn_)[outer:]
    conds = conds[len(conds) - sum(len(split_conj_(fx.x(t, keep=[tvar]), pol)) for t, pol in inner):] if inner else []
    v = st.value
    if isinstance(v, ast.Name) and v.id in fx.acc:
        apps = [n for n in walk_no_nested(f.node) if isinstance(n, ast.Call) and isinstance(n.func, ast.Attribute) and n.func.attr == 'append'
                and isinstance(n.func.value, ast.Name) and n.func.value.id == v.id]
        loops = [l for a_ in apps for l in fx.enclosing_fors(a_)[-1:]]
        comp = _acc_loop(fx, loops[0]) if len(apps) == 1 and loops else None
        if comp is None or comp[0] != v.id:
            return 'unknown'
        val = comp[1]
    else:
        val = fx.x(v, keep=[tvar])
    for t, pol in reversed(conds):
        val = ast.IfExp(test=t if pol else ast.UnaryOp(op=ast.Not(), operand=t), body=val, orelse=ast.Constant(value=None))
    return ast.fix_missing_locations(val)


def split_conj_(t, pol):
    from sa.facts import split_conj
    return split_conj(t, pol)


def ob_id_opacity(ctx, o, F):
    prog = ctx.prog
    task = prog.cls('Task')
    for m in ('__bool__', '__len__'):
        if prog.find_method('Task', m) is not None:
            o.undecided(prog.find_method('Task', m), None, f"Task.{m}", f"Task defines {m}: truth tests on tasks are no longer presence tests")
    for f in _id_funcs(prog):
        fx = fx_of(ctx, f)
        pm = parent_map(f.node)
        # names that hold ids: loop / comprehension variables over *.predecessor_ids, locals assigned from an id expression
        idnames = set()
        for n in ast.walk(f.node):
            if isinstance(n, (ast.For, ast.comprehension)) and isinstance(n.target, ast.Name):
                it = n.iter
                if isinstance(it, ast.Attribute) and it.attr == 'predecessor_ids':
                    idnames.add(n.target.id)
            elif isinstance(n, ast.Assign) and len(n.targets) == 1 and isinstance(n.targets[0], ast.Name):
                v = n.value
                if isinstance(v, ast.Attribute) and v.attr in ID_ATTRS:
                    idnames.add(n.targets[0].id)

        def is_id(n):
            if isinstance(n, ast.Attribute) and n.attr in ID_ATTRS and isinstance(n.ctx, ast.Load):
                return True
            return isinstance(n, ast.Name) and n.id in idnames and isinstance(n.ctx, ast.Load)

        for n in ast.walk(f.node):
            if not is_id(n):
                continue
            p = pm.get(id(n))
            # climb through `not`
            verdict = None
            if isinstance(p, ast.Compare):
                others = [x for x in [p.left] + p.comparators if x is not n]
                for x, op in zip([p.left] + p.comparators, [None] + p.ops):
                    pass
                for x in others:
                    if isinstance(x, ast.Constant) and x.value is None:
                        continue
                    if is_id(x) or (isinstance(x, ast.Name) and x.id in SENTINELS) or attr_path(x) == 'sys.maxsize':
                        continue
                    if isinstance(x, ast.Constant) or (isinstance(x, ast.UnaryOp) and isinstance(x.operand, ast.Constant)) \
                            or (const_seq(x) is not None):
                        verdict = ('refute', f"{src(p)}", f"id `{src(n)}` is compared with the literal `{src(x)}` in `{src(p)[:60]}`: ids are opaque "
                                                          f"(0 and negative numbers are ordinary ids)")
                        break
                    if any(isinstance(op, (ast.In, ast.NotIn)) for op in p.ops):
                        continue       # membership in a container of ids / keys
                    verdict = ('undecided', src(p), f"id `{src(n)}` is compared with `{src(x)[:40]}`")
                    break
            elif (isinstance(p, (ast.If, ast.While, ast.IfExp)) and p.test is n) or isinstance(p, ast.BoolOp) \
                    or (isinstance(p, ast.UnaryOp) and isinstance(p.op, ast.Not)) or (isinstance(p, ast.comprehension) and n in p.ifs):
                verdict = ('refute', f"truth test of {src(n)}", f"id `{src(n)}` is tested for truth (`{src(p)[:60].splitlines()[0]}`): id 0 is falsy")
            elif isinstance(p, ast.BinOp) or (isinstance(p, ast.UnaryOp) and not isinstance(p.op, ast.Not)) or isinstance(p, ast.AugAssign):
                verdict = ('refute', f"arithmetic on {src(n)}", f"id `{src(n)}` is used in arithmetic `{src(p)[:60]}`: ids are opaque")
            elif isinstance(p, ast.Call) and isinstance(p.func, ast.Name) and p.func.id in ('abs', 'bool') and n in p.args:
                verdict = ('refute', f"{p.func.id}({src(n)})", f"id `{src(n)}` is passed through {p.func.id}()")
            if verdict is None:
                o.site(f, n, f"id `{src(n)}` used as {type(p).__name__.lower()} operand")
            elif verdict[0] == 'refute':
                o.refute(f, n, verdict[1], verdict[2])
            else:
                o.undecided(f, n, verdict[1], verdict[2])
    # ---- parent_id / predecessor_ids as written by tasks_to_raws
    t2r = prog.func(RAW + '.tasks_to_raws')
    a = _raw_ctor(ctx, o, t2r, 'TaskRaw')
    if a is None:
        return
    actor, tvar, t2r_b = a
    fx = fx_of(ctx, t2r_b)
    kw, _ = call_kwargs(actor, StaticNames(prog, 'TaskRaw').params())
    post = {a: _post_ctor_store(fx, actor, a, tvar) for a in STRUCTURAL if a not in kw}
    par = ast.Attribute(value=ast.Name(id=tvar, ctx=ast.Load()), attr='parent', ctx=ast.Load())
    if 'parent_id' not in kw and post.get('parent_id') == 'unknown':
        o.undecided(t2r, actor, 'parent_id stored after construction', "`.parent_id` of the new TaskRaw is assigned after construction in a way the rule does not follow")
    elif 'parent_id' not in kw and post.get('parent_id') is None:
        o.refute(t2r, actor, 'TaskRaw(...) without parent_id', "the parent's id is not recorded: the hierarchy is lost")
    else:
        e = fx.x(kw['parent_id'], keep=[tvar]) if 'parent_id' in kw else post['parent_id']
        good = True
        have_value = False
        for conds, leaf in split_cases(ctx, t2r_b, e):
            facts, unk = sym_facts(conds, par)
            if isinstance(leaf, ast.Constant) and leaf.value is None:
                if not (facts & {'none', 'falsy'}):
                    good = False
                    if not any(isinstance(n, ast.Compare) and any(isinstance(x, ast.Constant) and x.value is not None for x in n.comparators)
                               for t, _ in conds for n in ast.walk(t)):
                        o.undecided(t2r, actor, f"parent_id None when {cond_text(conds)[:70]}", "parent_id is None under a condition other than `no parent`")
                continue
            if same(leaf, par):
                continue        # `t.parent and t.parent.id` short circuit value when parent is falsy (None)
            want = ast.Attribute(value=par, attr='id', ctx=ast.Load())
            if same(leaf, want):
                have_value = True
                if unk:
                    good = False        # extra condition on the value branch: reported by the literal scan or undecided below
                    if not any(isinstance(n, ast.Compare) for t, _ in unk for n in ast.walk(t)):
                        o.undecided(t2r, actor, f"parent_id when {cond_text(unk)[:70]}", "parent_id is recorded under an extra condition")
                elif not (facts & {'truthy', 'notnone'}):
                    good = False
                    o.refute(t2r, actor, f"parent_id={src(leaf)} unguarded", "t.parent.id is read without testing that the task has a parent (root tasks raise)")
                continue
            good = False
            o.refute(t2r, actor, f"parent_id={src(leaf)[:60]}", f"parent_id is recorded as `{src(leaf)[:60]}`; expected {tvar}.parent.id")
        if good and have_value:
            o.site(t2r, actor, f"parent_id = {tvar}.parent.id iff the task has a parent")
    if 'predecessor_ids' not in kw and post.get('predecessor_ids') == 'unknown':
        o.undecided(t2r, actor, 'predecessor_ids stored after construction', "`.predecessor_ids` of the new TaskRaw is assigned after construction in a way the rule does not follow")
    elif 'predecessor_ids' not in kw and post.get('predecessor_ids') is None:
        o.refute(t2r, actor, 'TaskRaw(...) without predecessor_ids', "predecessor ids are not recorded: dependencies are lost")
    else:
        e = fx.x(kw['predecessor_ids'], keep=[tvar]) if 'predecessor_ids' in kw else post['predecessor_ids']
        pr = ast.Attribute(value=ast.Name(id=tvar, ctx=ast.Load()), attr='predecessors', ctx=ast.Load())
        if isinstance(e, ast.ListComp) and len(e.generators) == 1 and isinstance(e.generators[0].target, ast.Name):
            g = e.generators[0]
            v = g.target.id
            if not same(g.iter, pr):
                if _mentions(g.iter, pr):
                    o.refute(t2r, actor, f"predecessor_ids over {src(g.iter)[:50]}", f"predecessor ids are taken from `{src(g.iter)[:50]}`, not from {tvar}.predecessors in order")
                else:
                    o.refute(t2r, actor, f"predecessor_ids over {src(g.iter)[:50]}", f"predecessor ids are taken from `{src(g.iter)[:50]}`; expected {tvar}.predecessors")
            elif g.ifs:
                inc = _incremental_member_filter(fx, g.ifs, actor)
                if inc is not None:
                    name, fill, flt = inc
                    o.refute(t2r, actor, f"predecessor_ids filter {src(flt)[:50]}",
                             f"predecessors are kept only if `{src(flt)[:50]}`, but `{name}` is filled by `{src(fill)[:40]}` inside the same loop that "
                             f"builds the raws: while task i is flattened it holds only the ids of tasks 0..i, so a predecessor that comes later in "
                             f"WBS order is dropped (expected the complete id set, built before the loop)")
                elif not any(isinstance(n, ast.Attribute) and n.attr in ID_ATTRS for c in g.ifs for n in ast.walk(c)):
                    o.refute(t2r, actor, f"predecessor_ids filter {src(g.ifs[0])[:50]}", f"predecessors are filtered by `{src(g.ifs[0])[:50]}` when flattening: some dependencies are lost")
            elif not (isinstance(e.elt, ast.Attribute) and e.elt.attr == 'id' and isinstance(e.elt.value, ast.Name) and e.elt.value.id == v):
                o.refute(t2r, actor, f"predecessor_ids elt {src(e.elt)[:50]}", f"predecessor list records `{src(e.elt)[:50]}` instead of the predecessor's id")
            else:
                o.site(t2r, actor, f"predecessor_ids = [p.id for p in {tvar}.predecessors]")
        else:
            o.undecided(t2r, actor, e, "predecessor_ids is not a list comprehension over the task's predecessors")


# ======================================================================================================== C13.order
_REORDER = ('sorted', 'reversed', 'set', 'frozenset', 'shuffle', 'sample')
_REORDER_M = ('sort', 'reverse', 'shuffle')


def _order_funcs(prog):
    fs = _id_funcs(prog)
    for q, fn in prog.funcs.items():
        if q.startswith(CSV + '.__') and fn.kind == 'function' and fn not in fs:
            fs.append(fn)
    return fs


def ob_order(ctx, o, F):
    prog = ctx.prog
    for f in _order_funcs(prog):
        fx = fx_of(ctx, f)
        pm = parent_map(f.node)
        for n in ast.walk(f.node):
            # ---- loops and comprehensions
            if isinstance(n, (ast.For, ast.comprehension)):
                it = n.iter
                itx = fx.x(it) if fx.flow.node_of_expr(it) is not None else it
                bad = None
                for c in ast.walk(itx):
                    if isinstance(c, ast.Call) and isinstance(c.func, ast.Name) and c.func.id in _REORDER:
                        bad = c
                    elif isinstance(c, ast.Call) and isinstance(c.func, ast.Attribute) and c.func.attr in _REORDER and attr_path(c.func.value) == 'random':
                        bad = c
                    elif isinstance(c, ast.Subscript) and isinstance(c.slice, ast.Slice) and c.slice.step is not None:
                        bad = c
                    elif isinstance(c, ast.Set) or isinstance(c, ast.SetComp):
                        bad = c
                if bad is not None and isinstance(bad, ast.Call) and _order_neutral(bad, {}, fx):
                    bad = None
                if bad is not None:
                    o.refute(f, it, f"loop over {src(it)[:60]}", f"`{src(it)[:60]}` iterates in an order other than file / WBS order (`{src(bad)[:40]}`)")
                else:
                    o.site(f, it, f"in-order iteration of {src(it)[:50]}")
            # ---- reordering calls outside loop headers
            elif isinstance(n, ast.Call):
                if isinstance(n.func, ast.Attribute) and n.func.attr in _REORDER_M and not isinstance(pm.get(id(n)), (ast.For, ast.comprehension)):
                    o.refute(f, n, src(n)[:80], f"`{src(n)[:60]}` reorders a sequence that must stay in file / WBS order")
                elif _worklist_push(f, n, pm) is not None:
                    wl = _worklist_push(f, n, pm)
                    if wl[0] == 'reversed':
                        o.refute(f, n, src(n)[:80],
                                 f"tree walk with the work list `{wl[1]}`: `{src(n)[:60]}` pushes the children in their own order and `{src(wl[2])[:30]}` takes "
                                 f"the next task from the {wl[3]} - "
                                 + ("deque.extendleft inserts the items one by one, so they end up in reversed order" if wl[3] == 'front'
                                    else "the last child pushed is taken first")
                                 + ": siblings come out in REVERSED order (expected the children pushed through reversed(..))")
                    elif wl[0] == 'preorder':
                        o.site(f, n, f"pre-order walk: {src(n)[:50]} / {src(wl[2])[:30]}")
                    else:
                        o.undecided(f, n, n, f"tree walk with the work list `{wl[1]}`: the order it produces is not recognised")
                elif isinstance(n.func, ast.Name) and n.func.id == 'reversed' and isinstance(pm.get(id(n)), ast.Call) \
                        and _worklist_push(f, pm.get(id(n)), pm) is not None:
                    pass        # judged with the push
                elif isinstance(n.func, ast.Name) and n.func.id == 'reversed' and _seeds_end_stack(f, n, pm):
                    o.site(f, n, f"stack seeded with {src(n)[:40]} and taken from the end: first element first")
                elif isinstance(n.func, ast.Name) and n.func.id in ('sorted', 'reversed') and not _inside_iter(n, pm) \
                        and not _order_neutral(n, pm, fx):
                    o.refute(f, n, src(n)[:80], f"`{src(n)[:60]}` reorders a sequence that must stay in file / WBS order")
                elif isinstance(n.func, ast.Attribute) and n.func.attr in ('insert', 'appendleft'):
                    o.refute(f, n, src(n)[:80], f"`{src(n)[:60]}` does not append at the end: sibling / row order is not preserved")
                elif isinstance(n.func, ast.Attribute) and n.func.attr == 'append' and len(n.args) == 1:
                    o.site(f, n, f"append: {src(n)[:60]}")
            elif isinstance(n, ast.Assign) and len(n.targets) == 1 and isinstance(n.targets[0], ast.Name) and isinstance(n.value, ast.BinOp) \
                    and isinstance(n.value.op, ast.Add) and isinstance(n.value.right, ast.Name) and n.value.right.id == n.targets[0].id \
                    and isinstance(n.value.left, ast.List):
                o.refute(f, n, src(n)[:80], f"`{src(n)[:60]}` prepends: order is reversed")
    _pred_rebuild(ctx, o)
    _children_rebuild(ctx, o)
    _shared_defaults(ctx, o)
    # ---- the sequences handed from stage to stage
    wr, rd = prog.func(CSV + '.write_csv'), prog.func(CSV + '.read_csv')
    t2r, r2w = prog.func(RAW + '.tasks_to_raws'), prog.func(RAW + '.raws_to_wbs')
    if F.row_loop is not None:
        wbody, wbind, _ = _entry_body(ctx, 'write_csv')
        fx = fx_of(ctx, wbody)
        it = fx.x(F.row_loop.iter)
        if wbind is not None:
            it = subst(it, wbind)       # the rows are written by a private helper: its parameters as passed by write_csv
        wbsp = wr.params[0] if wr.params else None
        if isinstance(it, ast.Call) and isinstance(it.func, ast.Name) and it.func.id == 'tasks_to_raws' and len(it.args) == 1 \
                and attr_path(it.args[0]) == f"{wbsp}.tasks":
            o.site(wr, F.row_loop, f"rows are written for tasks_to_raws({wbsp}.tasks) in order")
        elif isinstance(it, ast.Call) and isinstance(it.func, ast.Name) and it.func.id == 'tasks_to_raws' and len(it.args) == 1 \
                and attr_path(it.args[0]) in (f"{wbsp}.roots",):
            o.refute(wr, F.row_loop, f"rows for {src(it)[:60]}", f"rows are written for `{src(it.args[0])}` only; expected every task of {wbsp}.tasks")
        else:
            o.undecided(wr, F.row_loop, it, f"rows are not written for tasks_to_raws({wbsp}.tasks)")
    for fn, param_i in ((t2r, 0), (r2w, 0)):
        fx = fx_of(ctx, fn)
        p = fn.params[param_i]
        def is_input(e, fx=fx, p=p):
            """e (a node of fn) denotes the parameter p, possibly materialised by list()/tuple()"""
            x = fx.x(e)
            while isinstance(x, ast.Call) and isinstance(x.func, ast.Name) and x.func.id in ('list', 'tuple', 'iter') and len(x.args) == 1 and not x.keywords:
                x = x.args[0]
            return isinstance(x, ast.Name) and x.id == p
        loops = [n for n in walk_no_nested(fn.node) if isinstance(n, ast.For) and is_input(n.iter) and not fx.enclosing_fors(n)]
        # `[f(x) for x in <param>]` and `map(f, <param>)` are the same front-to-back pass
        loops += [n for n in walk_no_nested(fn.node) if isinstance(n, (ast.ListComp, ast.GeneratorExp)) and len(n.generators) == 1
                  and not n.generators[0].ifs and is_input(n.generators[0].iter) and not fx.enclosing_fors(n)]
        loops += [n for n in walk_no_nested(fn.node) if isinstance(n, ast.Call) and isinstance(n.func, ast.Name) and n.func.id == 'map'
                  and len(n.args) == 2 and is_input(n.args[1]) and not fx.enclosing_fors(n)]
        for lp in loops:
            o.site(fn, lp, f"{fn.name} iterates its input `{p}` front to back")
        if not loops:
            o.undecided(fn, fn.node, f"{fn.name} input loop", f"{fn.name} does not loop over its parameter `{p}` directly")
    # returns: tasks_to_raws returns the list it appended to; read_csv returns raws_to_wbs(<accumulated rows>)
    fx = fx_of(ctx, t2r)
    rets = [n for n in walk_no_nested(t2r.node) if isinstance(n, ast.Return)]
    rv = fx.x(rets[0].value) if len(rets) == 1 and rets[0].value is not None else None
    if isinstance(rv, ast.Call) and isinstance(rv.func, ast.Name) and rv.func.id == 'list' and len(rv.args) == 1 and not rv.keywords:
        rv = rv.args[0]
    if len(rets) == 1 and isinstance(rets[0].value, ast.Name) and rets[0].value.id in fx.acc:
        o.site(t2r, rets[0], "tasks_to_raws returns the accumulated list")
    elif isinstance(rv, (ast.ListComp, ast.GeneratorExp)) and len(rv.generators) == 1 and not rv.generators[0].ifs \
            and isinstance(rv.generators[0].iter, ast.Name) and rv.generators[0].iter.id == t2r.params[0]:
        o.site(t2r, rets[0], "tasks_to_raws returns one element per input task, in input order")
    elif isinstance(rv, ast.Call) and isinstance(rv.func, ast.Name) and rv.func.id == 'map' and len(rv.args) == 2 \
            and isinstance(rv.args[1], ast.Name) and rv.args[1].id == t2r.params[0] and isinstance(rets[0].value, ast.Call) \
            and isinstance(rets[0].value.func, ast.Name) and rets[0].value.func.id == 'list':
        o.site(t2r, rets[0], "tasks_to_raws returns list(map(f, tasks)): one element per input task, in input order")
    else:
        o.undecided(t2r, t2r.node, 'tasks_to_raws return', "tasks_to_raws does not return its accumulator list directly")
    fx = fx_of(ctx, rd)
    rets = [n for n in walk_no_nested(rd.node) if isinstance(n, ast.Return)]
    if len(rets) == 1 and rets[0].value is not None:
        rv = fx.x(rets[0].value)
        if isinstance(rv, ast.Call) and isinstance(rv.func, ast.Name) and rv.func.id == 'raws_to_wbs' and len(rv.args) == 1 \
                and isinstance(rv.args[0], ast.Name) and rv.args[0].id in fx.acc:
            o.site(rd, rets[0], "read_csv returns raws_to_wbs(<rows in file order>)")
        elif isinstance(rv, ast.Call) and isinstance(rv.func, ast.Name) and rv.func.id == 'raws_to_wbs' and len(rv.args) == 1 \
                and _is_row_generator_list(ctx, rv.args[0]):
            o.site(rd, rets[0], "read_csv returns raws_to_wbs(list(<row generator>(reader, ..))): one TaskRaw per row in file order")
        elif isinstance(rv, ast.Call) and isinstance(rv.func, ast.Name) and rv.func.id == 'raws_to_wbs' and len(rv.args) == 1 \
                and _entry_body(ctx, 'read_csv')[2] is not None and same(rv.args[0], fx.x(_entry_body(ctx, 'read_csv')[2])) \
                and _returns_accumulator(ctx, _entry_body(ctx, 'read_csv')[0]):
            o.site(rd, rets[0], f"read_csv returns raws_to_wbs({_entry_body(ctx, 'read_csv')[0].name}(..)), which returns the rows in file order")
        else:
            o.undecided(rd, rets[0], rv, "read_csv does not return raws_to_wbs(<accumulated rows>)")
    else:
        o.undecided(rd, rd.node, 'read_csv return', "read_csv has no single return")


_MUTATORS = ('append', 'extend', 'insert', 'add', 'update', 'setdefault', 'pop', 'popitem', 'remove', 'discard', 'clear', 'appendleft',
             'extendleft', 'sort', 'reverse', '__setattr__', '__setitem__', '__delitem__')
_CONTAINER_CTORS = ('list', 'dict', 'set', 'deque', 'defaultdict', 'OrderedDict', 'bytearray', 'Counter')


def _chain_root(e):
    """x.a.b[c].d -> Name x (through attributes, subscripts and method-call receivers)"""
    while True:
        if isinstance(e, (ast.Attribute, ast.Subscript)):
            e = e.value
        elif isinstance(e, ast.Call) and isinstance(e.func, ast.Attribute):
            e = e.func.value
        else:
            return e if isinstance(e, ast.Name) else None


def _shared_defaults(ctx, o):
    """a parameter of a round trip function whose default is a freshly built mutable object (`wbs: WBS = WBS()`, `acc=[]`): the default
    is evaluated ONCE, when the function is defined - if the function stores into it or hands it out, every call that omits the
    argument works on the same object, so the result of one read_csv/write_csv call contains what earlier calls left there"""
    prog = ctx.prog
    for f in _order_funcs(prog):
        a = f.node.args
        pos = a.posonlyargs + a.args
        defaults = list(zip(pos[len(pos) - len(a.defaults):], a.defaults)) + [(k, d) for k, d in zip(a.kwonlyargs, a.kw_defaults) if d is not None]
        for arg, d in defaults:
            what = None
            if isinstance(d, (ast.List, ast.Dict, ast.Set, ast.ListComp, ast.DictComp, ast.SetComp)):
                what = 'a container literal'
            elif isinstance(d, ast.Call) and isinstance(d.func, ast.Name) and d.func.id in _CONTAINER_CTORS:
                what = f"a {d.func.id}() object"
            elif isinstance(d, ast.Call) and isinstance(d.func, ast.Name) and d.func.id in prog.classes:
                what = f"a {d.func.id} object"
            if what is None:
                continue
            name = arg.arg
            fx = fx_of(ctx, f)
            if any(dd.kind != 'param' for dd in fx.flow.defs_of(name)):
                continue        # rebound inside the function: which object is used is a flow question the rule does not follow
            use = None
            for n in walk_no_nested(f.node):
                if isinstance(n, ast.Call) and isinstance(n.func, ast.Attribute) and n.func.attr in _MUTATORS:
                    r_ = _chain_root(n.func.value)
                    if r_ is not None and r_.id == name:
                        use = (n, 'stores into it')
                        break
                elif isinstance(n, (ast.Assign, ast.AugAssign, ast.AnnAssign, ast.Delete)):
                    tgs = n.targets if isinstance(n, (ast.Assign, ast.Delete)) else [n.target]
                    hit = [t for t in tgs if isinstance(t, (ast.Attribute, ast.Subscript)) and _chain_root(t) is not None and _chain_root(t).id == name]
                    if hit:
                        use = (n, 'stores into it')
                        break
                elif isinstance(n, (ast.Return, ast.Yield)) and isinstance(n.value, ast.Name) and n.value.id == name and use is None:
                    use = (n, 'hands it out')
            if use is not None:
                o.refute(f, d, f"{f.name}({name}={src(d)[:40]})",
                         f"parameter `{name}` of {f.name} has the default `{src(d)[:40]}` - {what} built ONCE when the function is defined - and the function "
                         f"{use[1]} (`{src(use[0])[:60]}`): every call that omits `{name}` works on the same shared object, so a second "
                         f"read_csv / write_csv in one process also sees the tasks of the first (expected `{name}=None` and a new object per call)")


def _mentions_pred_ids(e) -> bool:
    return any(isinstance(n, ast.Attribute) and n.attr == 'predecessor_ids' for n in ast.walk(e))


def _strip_seq(e):
    while isinstance(e, ast.Call) and isinstance(e.func, ast.Name) and e.func.id in ('list', 'tuple', 'iter') and len(e.args) == 1 and not e.keywords:
        e = e.args[0]
    return e


def _pred_rebuild(ctx, o):
    """where raws_to_wbs (or a private helper of io/raw.py) fills `<task>.predecessors`: the elements must be produced by
    walking `<raw>.predecessor_ids` front to back.  Refuted: the elements are produced by walking ANOTHER sequence that is
    merely filtered by membership in the listed ids (the list then comes back in that sequence's order, duplicates merged)."""
    prog = ctx.prog
    fns = [fn for q, fn in prog.funcs.items() if fn.kind == 'function' and fn.module.name == RAW and fn.name != 'tasks_to_raws']
    found = False

    def is_preds(e, fx=None):
        if isinstance(e, ast.Attribute) and e.attr == 'predecessors':
            return True
        # a local alias of the list: `preds = task.predecessors` ... `preds.append(x)`
        if fx is not None and isinstance(e, ast.Name) and isinstance(e.ctx, ast.Load) and fx.flow.node_of_expr(e) is not None:
            dv = fx.def_value(e.id, e)
            return isinstance(dv, ast.Attribute) and dv.attr == 'predecessors'
        return False

    def judge_comp(fn, node, comp, raw=None):
        """comp: expanded value assigned to / extended onto .predecessors (raw: as written, for messages)"""
        c = _strip_seq(comp)
        if not (isinstance(c, (ast.ListComp, ast.GeneratorExp)) and c.generators):
            o.undecided(fn, node, node, "value stored into .predecessors is not a comprehension over the listed predecessor ids")
            return
        g = c.generators[0]
        it = _strip_seq(g.iter)
        if isinstance(it, ast.Attribute) and it.attr == 'predecessor_ids':
            o.site(fn, node, f"predecessors rebuilt in the listed order: {src(c)[:60]}")
            return
        member = [t for gg in c.generators for t in gg.ifs for n in ast.walk(t)
                  if isinstance(n, ast.Compare) and any(isinstance(op, ast.In) for op in n.ops) and any(_mentions_pred_ids(x) for x in n.comparators)]
        if not _mentions_pred_ids(it) and member:
            rw = _strip_seq(raw) if raw is not None else None
            if isinstance(rw, (ast.ListComp, ast.GeneratorExp)) and rw.generators:
                it = rw.generators[0].iter
            o.refute(fn, node, f"predecessors from {src(it)[:40]} filtered by {src(member[0])[:50]}",
                     f"predecessors are collected by walking `{src(it)[:40]}` and keeping the elements with `{src(member[0])[:50]}`: the list comes back in the "
                     f"order of `{src(it)[:40]}` (duplicates merged), not in the order listed in predecessor_ids (expected one lookup per listed id, in order)")
            return
        o.undecided(fn, node, node, "order in which .predecessors is rebuilt is not recognised")

    for fn in fns:
        fx = fx_of(ctx, fn)
        for n in walk_no_nested(fn.node):
            if isinstance(n, ast.Call) and isinstance(n.func, ast.Attribute) and n.func.attr in ('append', 'extend', 'insert') and is_preds(n.func.value, fx) \
                    and n.args:
                found = True
                if n.func.attr == 'insert':
                    continue        # reported by the generic scan
                if n.func.attr == 'extend':
                    judge_comp(fn, n, fx.x(n.args[0]), n.args[0])
                    continue
                fors = fx.enclosing_fors(n)
                if not fors:
                    o.undecided(fn, n, n, ".predecessors.append(..) outside a loop")
                    continue
                lp = fors[-1]
                keep = [x.id for x in ast.walk(lp.target) if isinstance(x, ast.Name)]
                it = _strip_seq(fx.x(lp.iter))
                arg = fx.x(n.args[0], keep=keep)
                if isinstance(it, ast.Attribute) and it.attr == 'predecessor_ids' and any(isinstance(x, ast.Name) and x.id in keep for x in ast.walk(arg)):
                    o.site(fn, n, f"predecessors appended while walking {src(it)[:40]} in order")
                    continue
                conds = fx.conds(n, keep=keep)
                member = [t for t, pol in conds if pol for m in ast.walk(t) if isinstance(m, ast.Compare)
                          and any(isinstance(op, ast.In) for op in m.ops) and any(_mentions_pred_ids(x) for x in m.comparators)]
                if not _mentions_pred_ids(it) and member and any(isinstance(x, ast.Name) and x.id in keep for x in ast.walk(arg)):
                    it = lp.iter
                    o.refute(fn, n, f"predecessors from {src(it)[:40]} filtered by {src(member[0])[:50]}",
                             f"predecessors are appended while walking `{src(it)[:40]}` and testing `{src(member[0])[:50]}`: the list comes back in the order "
                             f"of `{src(it)[:40]}`, not in the order listed in predecessor_ids")
                    continue
                o.undecided(fn, n, n, "order in which .predecessors is rebuilt is not recognised")
            elif isinstance(n, (ast.Assign, ast.AugAssign)) and any(is_preds(t) for t in (n.targets if isinstance(n, ast.Assign) else [n.target])):
                found = True
                judge_comp(fn, n, fx.x(n.value), n.value)
    if not found:
        o.undecided(prog.func(RAW + '.raws_to_wbs'), None, 'predecessor rebuild', "no store into `.predecessors` found in io/raw.py: how predecessor lists are rebuilt is not recognised")


def _children_rebuild(ctx, o):
    """where io/raw.py fills `<parent>.children`: one append per row in file order is the recognised shape.  Refuted: the
    children list is ASSIGNED per group of `itertools.groupby(<rows in file order>, key=..parent_id..)` - groupby only groups
    consecutive rows, the direct children of one parent are separated by the subtrees of their siblings (pre-order), so the parent
    gets several groups and each assignment replaces the children attached before."""
    prog = ctx.prog
    for fn in [fn for q, fn in prog.funcs.items() if fn.kind == 'function' and fn.module.name == RAW and fn.name != 'tasks_to_raws']:
        fx = fx_of(ctx, fn)
        for n in walk_no_nested(fn.node):
            recv = n.func.value if isinstance(n, ast.Call) and isinstance(n.func, ast.Attribute) else None
            if isinstance(recv, ast.Name) and fx.flow.node_of_expr(recv) is not None and isinstance(fx.def_value(recv.id, recv), ast.Attribute):
                recv = fx.def_value(recv.id, recv)
            if isinstance(n, ast.Call) and isinstance(n.func, ast.Attribute) and n.func.attr == 'append' and isinstance(recv, ast.Attribute) \
                    and recv.attr == 'children' and fx.enclosing_fors(n):
                o.site(fn, n, f"children attached one by one in row order: {src(n)[:50]}")
            elif isinstance(n, ast.Assign) and any(isinstance(t, ast.Attribute) and t.attr == 'children' for t in n.targets):
                for lp in fx.enclosing_fors(n):
                    it = fx.x(lp.iter)
                    if isinstance(it, ast.Call) and attr_path(it.func) in ('groupby', 'itertools.groupby') and it.args:
                        keyx = it.args[1] if len(it.args) > 1 else next((k.value for k in it.keywords if k.arg == 'key'), None)
                        sorted_in = any(isinstance(c, ast.Call) and isinstance(c.func, ast.Name) and c.func.id == 'sorted' for c in ast.walk(it.args[0]))
                        if not sorted_in and keyx is not None and any(isinstance(a, ast.Attribute) and a.attr == 'parent_id' for a in ast.walk(keyx)):
                            o.refute(fn, n, f"{src(n.targets[0])[:40]} = group of groupby({src(lp.iter.args[0])[:30] if isinstance(lp.iter, ast.Call) and lp.iter.args else '..'})",
                                     f"`{src(n)[:60]}` assigns the children list once per group of `{src(lp.iter)[:70]}`: groupby only groups CONSECUTIVE "
                                     f"rows, and in WBS (pre-order) rows the direct children of one parent are separated by their siblings' subtrees - the "
                                     f"parent gets several groups and every assignment replaces the children attached before (hierarchy depth >= 3 loses subtrees)")
                        else:
                            o.undecided(fn, n, n, "children list assigned per groupby group: grouping not understood")
                        break


class _Quiet:
    """stand-in obligation for a second look-up whose diagnostics were already reported"""
    def undecided(self, *a, **k): pass
    def refute(self, *a, **k): pass
    def site(self, *a, **k): pass


def _is_row_generator_list(ctx, e) -> bool:
    """e (expanded) is list(G(..)) / [x for x in G(..)] with G the row generator find_reader resolved (one yield per row, in order)"""
    r = find_reader(ctx, _Quiet())
    if r is None or 'gen_call' not in r:
        return False
    if isinstance(e, ast.Call) and isinstance(e.func, ast.Name) and e.func.id in ('list', 'tuple') and len(e.args) == 1 and not e.keywords:
        e = e.args[0]
    elif isinstance(e, ast.ListComp) and len(e.generators) == 1 and not e.generators[0].ifs and same(e.elt, e.generators[0].target):
        e = e.generators[0].iter
    else:
        return False
    return isinstance(e, ast.Call) and isinstance(e.func, ast.Name) and e.func.id == r['func'].name


def _returns_accumulator(ctx, fn) -> bool:
    """every return of fn returns the one list that starts empty and is only appended to"""
    fx = fx_of(ctx, fn)
    rets = [n for n in walk_no_nested(fn.node) if isinstance(n, ast.Return)]
    if len(rets) != 1 or not isinstance(rets[0].value, ast.Name) or rets[0].value.id not in fx.acc:
        return False
    name = rets[0].value.id
    if len(fx.flow.defs_of(name)) != 1:
        return False
    return all(n.func.attr == 'append' for n in walk_no_nested(fn.node) if isinstance(n, ast.Call) and isinstance(n.func, ast.Attribute)
               and isinstance(n.func.value, ast.Name) and n.func.value.id == name)


def _take_sides(f, w):
    sides = set()
    for n in walk_no_nested(f.node):
        if isinstance(n, ast.Call) and isinstance(n.func, ast.Attribute) and isinstance(n.func.value, ast.Name) and n.func.value.id == w:
            if n.func.attr == 'pop' and not n.args:
                sides.add('end')
            elif n.func.attr == 'popleft' or (n.func.attr == 'pop' and len(n.args) == 1 and isinstance(n.args[0], ast.Constant) and n.args[0].value == 0):
                sides.add('front')
    return sides


def _seeds_end_stack(f, rev_call, pm) -> bool:
    """`W = list(reversed(X))` / `W = deque(reversed(X))` / `W = [*reversed(X)]` where W is only ever taken from with W.pop():
    the reversal is what makes the stack hand out X front to back"""
    cur = rev_call
    while id(cur) in pm and not isinstance(cur, ast.stmt):
        nxt = pm[id(cur)]
        if isinstance(nxt, ast.Call) and not (isinstance(nxt.func, ast.Name) and nxt.func.id in ('list', 'deque') and len(nxt.args) == 1):
            return False
        if isinstance(nxt, (ast.BinOp, ast.Subscript, ast.Attribute, ast.comprehension, ast.ListComp)):
            return False
        cur = nxt
    return isinstance(cur, ast.Assign) and len(cur.targets) == 1 and isinstance(cur.targets[0], ast.Name) \
        and _take_sides(f, cur.targets[0].id) == {'end'}


def _worklist_push(f, call, pm):
    """call = W.extend(A) / W.extendleft(A) on a local work list W from which the same function takes elements one by one
    (W.pop() from the end, W.popleft() / W.pop(0) from the front)  ->  (verdict, W, take call, 'end'|'front')
    verdict: 'preorder' (push side == take side, A = reversed(children)), 'reversed' (same side, A not reversed), 'other'"""
    if not (isinstance(call, ast.Call) and isinstance(call.func, ast.Attribute) and call.func.attr in ('extend', 'extendleft')
            and isinstance(call.func.value, ast.Name) and len(call.args) == 1):
        return None
    w = call.func.value.id
    takes = []
    for n in walk_no_nested(f.node):
        if isinstance(n, ast.Call) and isinstance(n.func, ast.Attribute) and isinstance(n.func.value, ast.Name) and n.func.value.id == w:
            if n.func.attr == 'pop' and not n.args:
                takes.append((n, 'end'))
            elif n.func.attr == 'popleft' or (n.func.attr == 'pop' and len(n.args) == 1 and isinstance(n.args[0], ast.Constant) and n.args[0].value == 0):
                takes.append((n, 'front'))
    if not takes:
        return None
    if len({side for _n, side in takes}) != 1:
        return 'other', w, takes[0][0], takes[0][1]
    take, side = takes[0]
    push_side = 'end' if call.func.attr == 'extend' else 'front'
    a = call.args[0]
    rev = isinstance(a, ast.Call) and isinstance(a.func, ast.Name) and a.func.id == 'reversed' and len(a.args) == 1
    inner = a.args[0] if rev else a
    if any(isinstance(x, ast.Call) and isinstance(x.func, ast.Name) and x.func.id in ('sorted', 'reversed', 'set') for x in ast.walk(inner)) \
            or (isinstance(inner, ast.Subscript) and isinstance(inner.slice, ast.Slice)):
        return 'other', w, take, side
    if push_side != side:
        return 'other', w, take, side        # breadth-first or mixed
    return ('preorder' if rev else 'reversed'), w, take, side


def _order_neutral(call, pm, fx):
    """sorted()/reversed() of attribute-name keys (custom column order is not fixed by the property) or inside a logging call"""
    cur = call
    while id(cur) in pm:
        cur = pm[id(cur)]
        if isinstance(cur, ast.Call) and (attr_path(cur.func) == 'print' or (isinstance(cur.func, ast.Attribute) and cur.func.attr in
                                          ('debug', 'info', 'warning', 'error', 'exception', 'log'))):
            return True
        if isinstance(cur, ast.stmt):
            break
    if call.args:
        a = call.args[0]
        if keys_owner(a) is not None:
            return True
        d = _keys_of_dict(a)
        if isinstance(d, ast.Name) and d.id in fx.acc:
            dv = [x for x in fx.flow.defs_of(d.id) if x.kind == 'assign' and x.value is not None]
            if dv and all(isinstance(x.value, ast.Dict) or (isinstance(x.value, ast.Call) and getattr(x.value.func, 'id', '') == 'dict') for x in dv):
                return True
    return False


def _inside_iter(n, pm):
    """n is (part of) the iterable of a for / comprehension (already judged there)"""
    cur = n
    while id(cur) in pm:
        p = pm[id(cur)]
        if isinstance(p, (ast.For, ast.comprehension)) and p.iter is cur:
            return True
        if isinstance(p, ast.stmt):
            return False
        cur = p
    return False
