"""C20 - printed sheets.   (DESIGN.md section 5, C20)

Decided structurally (clauses that are necessary for the property; the rendered text itself is never produced):

* rows    - `_Repr.__print_task_subtree` opens exactly one row and emits exactly one cell per field on every path, before
            it recurses; it recurses once per element of `task.children`, in that order, iff `children`; `_Repr.repr`
            emits one header row with one cell per field and then one subtree per given task, in order, at level 0;
            the public `__repr__`/`print` entry points hand over the visible tasks and pass fields/children/theme on.
* indent  - the name cell is `'   ' * level + (name or '')`; the recursion passes `level + 1`, the top passes 0.
* width   - `TextTable.text_repr`: widths[i] is the running maximum over ALL rows of `len(cell_i.text)`; every row is
            rendered with that one list; `_TextTableRow.repr` emits exactly one cell per entry of `width`, each through
            `colored_text(' ' + text + ' ', width[i] + 2, ..)`; `colored_text` pads `text + ' ' * (width - len(text))`
            on every return path and wraps it in colour codes only; the table plumbing stores one cell per `new_cell`.
* links   - dependency / parent columns: `[ids]` of predecessors / successors, id of the parent; `(external)` is
            appended iff `linked.wbs != task.wbs` (no further condition); None / sentinel parent prints ''.
* usage   - `ResourceUsageReport.__repr__`: `d = min(dates); while d <= max(dates): row; d += 1 day`, one row per
            iteration with one date cell and one cell per resource, header with the same resources.  Equivalent day loops
            are followed: `for d in <package generator>(first, last)` (the generator is `while day <= last: yield day;
            day += 1 day`), `for i in range((last - first).days + 1): d = first + timedelta(days=i)` and the same as a
            list comprehension.  first / last taken from individual rows, from a filtered set, or as the extreme of
            TEXT labels of the dates (`D[min(D)]` over a dict keyed by strftime) are refuted.
* fields  - `__get_field_value` returns a str on every path; the attribute read by name is reached only for names that
            are known to be in `t.__dict__` (guard clause with `return ''`, or a resolved local
            `name = field if field in t.__dict__ else ... else None` + `if name is None: return ''`).
* caps    - a widths list / running maximum that is capped (`min(v, K)`, `v if v < K else K`, `v - k`) is refuted: texts
            are not cut, so the column is narrower than its longest cell.
* walk    - traversal separated from rendering (no __print_task_subtree): `_Repr.repr` loops `for t, lvl in <walk>(task, 0,
            children)` over a recursive package generator.  Same obligations, read off the generator (yields (task, level)
            once, unconditionally, before `yield from walk(ch, level + 1, children)` for ch in task.children iff children)
            and off the loop body in _Repr.repr (one row, one cell per field per yielded pair, name cell indented by lvl).
* entry   - __repr__/print may reach _Repr.repr through functions that only forward their parameters (a forwarder that
            replaces fields / children / theme by something else is refuted for the print() entry points).
* widths  - the width map may be a list grown in column order (`if i < len(W): W[i] = max(..) else: W.append(len)`) or a
            guarded store (`if len(text) > W.setdefault(i, 0): W[i] = len(text)`); the usage table may be built by a
            package function that __repr__ delegates to (report and rows handed over as arguments).
* round 6 - the row writer may be a closure nested in _Repr.repr (fields / table / children / theme read from the enclosing
            scope); __get_field_value may assign `result` in every arm of an if/elif/else and return it once (each
            assignment is judged like a return); the column loop of _TextTableRow.repr may be split into
            `for w, cell in zip(width, self.cells)` + `for w in width[len(self.cells):]`; a cell text that carries colour
            codes (colored(..) / '\\x1b[..') is refuted - len() counts the invisible characters.
* round 7 - classmethods of _Repr that use `cls` only to name the class are read as the staticmethods they replace
            (`_classmethods_as_static`, applied to the parsed tree before any rule runs); the join idiom
            `res = res + '\\n' + line if res else line` (and `sep = '\\n' if res else ''; res += sep + line`) is an append with
            a conditional line break - with the polarity inverted it is refuted (earlier lines are dropped).
            Not decided: a memoised index behind the usage table (C20-r73) - whether it is stale depends on who else
            mutates the shared row list, not on the shape of __repr__.
* round 8 - a parameter object (`sheet = _SheetContext(fields=.., table=.., ..)`, NamedTuple / frozen dataclass) threaded
            through the row writer is rewritten to separate parameters before the rules run (`_explode_param_object`);
            the name handed to `t.__getattribute__` is checked by a forward must-analysis of `<name> in t.__dict__`
            (`_must_be_attribute`), so renamed locals and container aliases do not matter; the cells of a day line may
            come from a package generator that yields once per resource (`gen_summary`); `(cell if .. else
            _TextTableCell('', ..)).text` is read as the cell text / ''.  Refuted: str methods applied to the cell text
            while rendering (`.upper()`, `.title()` ..: widths were measured from the raw text), a running max / min of
            the report period whose update sits in the elif of another test.
            A row writer that does not call itself but still reaches descendants (flat pass over all_children, explicit
            stack) is UNDECIDED: the recursion-based obligations do not describe it (C20-r83: depth tracked
            incrementally in such a pass - not decidable from the shape).
* round 9 - a day / header line collected in a list first (`line = [<date cell>]; line.append(..)`) and emitted in one loop
            is counted through the list (initial elements + appends, also when the list is created inside a while loop);
            a helper method called on a local receiver inside text_repr (`r._merge_widths(widths_map)`) is read in place
            (`_splice_receiver_helpers`); rows filtered through an intermediate comprehension are seen as filtered.
            Refuted: a parent cell that prints a value handed down by the caller instead of task.parent; a depth kept in
            a class attribute counted up/down around the recursion without `finally:` and without a reset in _Repr.repr.
* round 10 - __get_field_value may answer the computed columns through a dispatch table of constant keys -> lambdas
            (class attribute / module constant / local; `.get(field)` or `[field]`): each getter is judged like the
            return of its `if field == ..` branch; the name cell may be built inside __get_field_value(task, field,
            level) - the name branch there is checked, the indent unit may be a class constant; the sentinel guard is
            recognised for whatever value EMPTY_TASK_ID currently has; `str + x` counts as str.
            Not followed (exit 2): _Repr turned into an instance-based renderer (settings and table in self.__x).
* round 11 - widths computed column by column (`[max(len(r.get_cell(i).text) for r in rows if i < len(r)) for i in
            range(max((len(r) for r in rows), default=0))]`, `_colwise`) are the same list as the running maximum: measure,
            measured rows, in-range filter and column range are each checked (min / capped / a slice of the rows / a shorter
            range are refuted, other filters undecided).  Widths kept in an attribute of the table that only new_row updates
            from the row that was current BEFORE it starts the next one are refuted (`_widths_kept_outside`: the last row is
            never measured); any other bookkeeping outside text_repr stays undecided.  Two-phase rendering - the recursive
            writer appends (colour, texts) to a list that _Repr.repr replays into the table afterwards - is rewritten to the
            direct form before the rules run (`_inline_deferred_rows`; only when the list has no other use and the replay
            loop is the plain `for color, values in rows:`), and the row writer is found under any name (the one method of
            _Repr that calls itself and that _Repr.repr calls).  An entry point that renders through another entry point
            (`self.roots.print(fields, children, theme)`, `self.roots.__repr__()`) is followed: shown tasks = those of the
            other entry point on the receiver; print() must hand on its own fields / children / theme (a constant or a
            default in their place is refuted).
* depth   - indentation multiplied by a value read off the printed task alone (`len(task.all_parents)`, a helper that
            only receives the task) is refuted: the level is relative to the printed tasks and only the recursion knows it.

The two link helpers are found by name or, when they were moved / renamed, through the calls `X(t, t.predecessors)` in
__get_field_value and `Y(task, linked)` in X; when the normaliser folded the one-id helper (or the list helper) into its
callers, the inlined expressions are judged in place.  Field names must be resolved against `t.__dict__` / `vars(t)`:
hasattr / getattr-with-default also find properties and methods of Task and are refuted.  A text transformed inside
colored_text before padding (replace / expandtabs / strip) is refuted when it can get longer than what the widths measured
or loses leading spaces; capped day counts (`range(min(n, K))`, `while d <= last and i < K`) are refuted.
Not decided (exit 2): `__get_field_value`, `colored_text`, `_TextTableRow.repr`, `TextTable.text_repr` renamed or moved -
the anchors are looked up by name;
day generators with break/return/conditional yields; name lookups guarded by try/except or by a package helper.
Not decided: multi-line cell texts, display width of non-ASCII text, the actual strings (str() of attribute values),
whether `fields` is a re-iterable collection, colour themes (only that colour codes wrap the padded text).
"""
from __future__ import annotations

import ast

from sa import facts
from sa.cfg import cfg_of
from sa.flow import flow_of, Expander, subst
from sa.model import walk_no_nested, src, unmangle
from sa.pat import match, same, attr_path
from sa.types import base
from .c20_util import (Counter, Accumulator, value_set, bind_args, compare, c_norm, c_const, fmt_count, parts_of, cases_of,
                       const_str, eq_const, cmp_norm, cmp_oriented, split_disj, range_over, is_zero, mentions, root_name,
                       is_opaque, xexpand, truth, gen_summary)

SUBTREE = 'task._Repr.__print_task_subtree'
REPR = 'task._Repr.repr'
FIELD_VALUE = 'task._Repr.__get_field_value'
LINK_ONE = 'task._Repr.__get_linked_task_id'
LINK_MANY = 'task._Repr.__get_linked_tasks_id'


def _classmethods_as_static(ctx):
    """`@classmethod def f(cls, ..)` whose `cls` only names the class (`cls.attr`, `cls.helper(..)`) is the same function as
    `@staticmethod def f(..)` that writes the class name - as long as the class has no subclass.  The private helpers of
    `_Repr` are rewritten to that form in the parsed tree (before cfg / flow / call graph look at them), so every rule
    below sees the parameter lists and call spellings of the static form."""
    prog = ctx.prog
    done = []
    for f in list(prog.all_funcs()):
        if f.kind != 'classmethod' or f.cls != '_Repr' or not f.qual.startswith('task._Repr.'):
            continue
        a = f.node.args
        if not (a.args and not a.posonlyargs):
            continue
        try:
            if any(c.name != '_Repr' and '_Repr' in [m.name for m in prog.mro(c.name)] for c in prog.classes.values()):
                continue        # a subclass could bind cls to something else
        except Exception:
            continue
        cname = a.args[0].arg
        uses = [n for n in ast.walk(f.node) if isinstance(n, ast.Name) and n.id == cname]
        attr_bases = {id(n.value) for n in ast.walk(f.node) if isinstance(n, ast.Attribute) and isinstance(n.value, ast.Name)}
        if any(not isinstance(n.ctx, ast.Load) or id(n) not in attr_bases for n in uses):
            continue            # cls is re-bound, called or passed on: not a plain spelling of the class name
        for n in uses:
            n.id = '_Repr'
        a.args = a.args[1:]
        for d in f.node.decorator_list:
            if isinstance(d, ast.Name) and d.id == 'classmethod':
                d.id = 'staticmethod'
        f.kind = 'static'
        done.append(f.name)
    if done:
        ctx.assume("classmethods of _Repr that use `cls` only to name the class are read as staticmethods: " + ', '.join(sorted(done)))


def _record_fields(prog, cname):
    """field names, in order, of an immutable record class of the package (NamedTuple / frozen dataclass), else None"""
    ci = prog.classes.get(cname)
    if ci is None:
        return None
    is_nt = any((isinstance(b, ast.Name) and b.id == 'NamedTuple') or (isinstance(b, ast.Attribute) and b.attr == 'NamedTuple') for b in ci.node.bases)
    if not (is_nt or ci.dataclass_frozen):
        return None
    out = [st.target.id for st in ci.node.body if isinstance(st, ast.AnnAssign) and isinstance(st.target, ast.Name)]
    return out or None


def _explode_param_object(ctx):
    """`sheet = _SheetContext(fields=fields, table=table, ..)` built once in _Repr.repr and threaded through the recursive row
    writer as ONE parameter whose fields are only read (`sheet.fields`, `sheet.table.new_row(..)`) is the same program as
    passing the fields as separate parameters.  The parsed tree is rewritten to that form (before cfg / flow / call graph are
    built), purely syntactically and only when every use of the parameter is a field read or the unchanged hand-over in the
    recursive call, the record class is immutable, and the constructor arguments are plain names not re-bound afterwards."""
    from sa.model import AnchorMissing
    prog = ctx.prog
    try:
        top, f = prog.func(REPR), prog.func(SUBTREE)
    except AnchorMissing:
        return
    own_call = lambda c: (isinstance(c.func, ast.Attribute) and unmangle(c.func.attr) == f.name) or (isinstance(c.func, ast.Name) and c.func.id == f.name)
    top_calls = [c for c in ast.walk(top.node) if isinstance(c, ast.Call) and own_call(c)]
    if len(top_calls) != 1 or top_calls[0].keywords or any(isinstance(a, ast.Starred) for a in top_calls[0].args):
        return
    call = top_calls[0]
    params = [a.arg for a in f.node.args.args]
    if f.node.args.posonlyargs or f.node.args.kwonlyargs or f.node.args.vararg or f.node.args.kwarg or f.node.args.defaults:
        return
    for idx, a in enumerate(call.args):
        if not (isinstance(a, ast.Name) and idx < len(params)):
            continue
        # the local is assigned exactly once, at the top level of _Repr.repr, by a constructor call of a record class
        stores = [n for n in ast.walk(top.node) if isinstance(n, ast.Name) and n.id == a.id and isinstance(n.ctx, ast.Store)]
        tl = [(i, st) for i, st in enumerate(top.node.body) if isinstance(st, ast.Assign) and len(st.targets) == 1
              and isinstance(st.targets[0], ast.Name) and st.targets[0].id == a.id]
        if len(stores) != 1 or len(tl) != 1:
            continue
        pos, st = tl[0]
        ctor = st.value
        if not (isinstance(ctor, ast.Call) and isinstance(ctor.func, ast.Name)):
            continue
        flds = _record_fields(prog, ctor.func.id)
        if not flds or any(isinstance(x, ast.Starred) for x in ctor.args) or any(k.arg is None for k in ctor.keywords):
            continue
        given = dict(zip(flds, ctor.args))
        given.update({k.arg: k.value for k in ctor.keywords})
        if set(given) != set(flds) or not all(isinstance(v, ast.Name) for v in given.values()):
            continue
        later = {n.id for s2 in top.node.body[pos + 1:] for n in ast.walk(s2) if isinstance(n, ast.Name) and isinstance(n.ctx, ast.Store)}
        if later & {v.id for v in given.values()}:
            continue
        # inside the row writer: only field reads and the unchanged hand-over
        prm = params[idx]
        uses = [n for n in ast.walk(f.node) if isinstance(n, ast.Name) and n.id == prm]
        field_reads = {id(n.value): n for n in ast.walk(f.node) if isinstance(n, ast.Attribute) and isinstance(n.value, ast.Name)
                       and n.value.id == prm and n.attr in flds and isinstance(n.ctx, ast.Load)}
        rec_calls = [c for c in ast.walk(f.node) if isinstance(c, ast.Call) and own_call(c)]
        handed = {id(c.args[idx]) for c in rec_calls if not c.keywords and len(c.args) == len(params) and isinstance(c.args[idx], ast.Name)
                  and c.args[idx].id == prm}
        if any(id(n) not in field_reads and id(n) not in handed for n in uses) or len(handed) != len(rec_calls):
            continue
        taken = {n.id for n in ast.walk(f.node) if isinstance(n, ast.Name)} | set(params)
        new_names = {fl_: (fl_ if fl_ not in taken else f"{prm}__{fl_}") for fl_ in flds}
        # rewrite
        class Tr(ast.NodeTransformer):
            def visit_Attribute(self, n):
                if id(n.value) in field_reads and field_reads[id(n.value)] is n:
                    return ast.copy_location(ast.Name(id=new_names[n.attr], ctx=ast.Load()), n)
                self.generic_visit(n)
                return n
        f.node.body = [Tr().visit(b) for b in f.node.body]
        for c in [c for c in ast.walk(f.node) if isinstance(c, ast.Call) and own_call(c)]:
            c.args = c.args[:idx] + [ast.copy_location(ast.Name(id=new_names[fl_], ctx=ast.Load()), c) for fl_ in flds] + c.args[idx + 1:]
        old_arg = f.node.args.args[idx]
        f.node.args.args = f.node.args.args[:idx] + [ast.copy_location(ast.arg(arg=new_names[fl_], annotation=None), old_arg) for fl_ in flds] \
            + f.node.args.args[idx + 1:]
        call.args = call.args[:idx] + [ast.copy_location(ast.Name(id=given[fl_].id, ctx=ast.Load()), call) for fl_ in flds] + call.args[idx + 1:]
        ast.fix_missing_locations(f.node)
        ast.fix_missing_locations(top.node)
        ctx.assume(f"the parameter object `{a.id} = {ctor.func.id}(..)` of {f.name} is read as its separate fields {', '.join(flds)}")
        return


def _repr_row_writer(prog):
    """the recursive row writer of _Repr under whatever name: the one method of _Repr that calls itself and that _Repr.repr
    calls (None when there is none or more than one)"""
    from sa.model import AnchorMissing
    try:
        top = prog.func(REPR)
    except AnchorMissing:
        return None
    cands = [g for g in prog.all_funcs() if g.qual.startswith('task._Repr.') and g.qual.count('.') == 2 and g is not top
             and facts.calls_named(g, g.name) and facts.calls_named(top, g.name)
             and not any(isinstance(n, (ast.Yield, ast.YieldFrom)) for n in walk_no_nested(g.node))]      # not a walk generator
    return cands[0] if len(cands) == 1 else None


def _inline_deferred_rows(ctx):
    """rendering split into two phases: the recursive row writer only appends `(colour, cell texts)` to a plain list that
    _Repr.repr created empty (`rows.append((color, values))`), and _Repr.repr fills the table from that list afterwards
    (`for color, values in rows: table.new_row(color); for v in values: table.new_cell(v)`).  The list is appended to in visit
    order and consumed once, in order, after the whole collection, and nothing else touches the table in between - so the table
    receives exactly the calls it would receive if the consumer body ran at the place of each append.  The parsed tree is
    rewritten to that direct form (the list parameter becomes the table) before cfg / flow / call graph are built; purely
    syntactic, and only when every use of the list is one of: creation, hand-over to the writer, append in the writer, the one
    consumer loop."""
    import copy as _copy
    prog = ctx.prog
    f = _repr_row_writer(prog)
    if f is None:
        return
    top = prog.func(REPR)
    a = f.node.args
    if a.posonlyargs or a.kwonlyargs or a.vararg or a.kwarg or a.defaults:
        return
    params = [x.arg for x in a.args]
    own_call = lambda c: (isinstance(c.func, ast.Attribute) and unmangle(c.func.attr) == f.name) or (isinstance(c.func, ast.Name) and c.func.id == f.name)
    top_calls = [c for c in ast.walk(top.node) if isinstance(c, ast.Call) and own_call(c)]
    if len(top_calls) != 1 or top_calls[0].keywords or len(top_calls[0].args) != len(params):
        return
    call = top_calls[0]
    body = top.node.body
    for idx, arg in enumerate(call.args):
        if not isinstance(arg, ast.Name):
            continue
        L = arg.id
        uses = [n for n in ast.walk(top.node) if isinstance(n, ast.Name) and n.id == L]
        init = [(i, st) for i, st in enumerate(body) if isinstance(st, ast.Assign) and len(st.targets) == 1 and isinstance(st.targets[0], ast.Name)
                and st.targets[0].id == L and ((isinstance(st.value, ast.List) and not st.value.elts) or match("list()", st.value))]
        cons = [(i, st) for i, st in enumerate(body) if isinstance(st, ast.For) and isinstance(st.iter, ast.Name) and st.iter.id == L]
        feed = [i for i, st in enumerate(body) if any(x is call for x in ast.walk(st))]
        if len(uses) != 3 or len(init) != 1 or len(cons) != 1 or len(feed) != 1 or not (init[0][0] < feed[0] < cons[0][0]):
            continue
        loop = cons[0][1]
        tg = loop.target
        tnames = [e.id for e in tg.elts] if isinstance(tg, ast.Tuple) and all(isinstance(e, ast.Name) for e in tg.elts) else None
        if tnames is None or len(set(tnames)) != len(tnames) or loop.orelse:
            continue
        if any(isinstance(n, (ast.Break, ast.Continue, ast.Return, ast.Yield, ast.YieldFrom, ast.FunctionDef, ast.Lambda, ast.Try, ast.Global,
                              ast.Nonlocal)) for st in loop.body for n in ast.walk(st)):
            continue
        stored = {n.id for st in loop.body for n in ast.walk(st) if isinstance(n, ast.Name) and isinstance(n.ctx, ast.Store)}
        top_locals = set(top.params) | {n.id for n in ast.walk(top.node) if isinstance(n, ast.Name) and isinstance(n.ctx, ast.Store)}
        free = {n.id for st in loop.body for n in ast.walk(st) if isinstance(n, ast.Name) and isinstance(n.ctx, ast.Load)} - stored - set(tnames)
        free &= top_locals
        tabs = _table_names(ctx, top)
        if len(free) != 1 or not free <= tabs or stored & set(tnames):
            continue
        T = next(iter(free))
        # nothing touches the table (or reads the list variables later) between the creation of the list and the end of the consumer
        if any(isinstance(n, ast.Name) and n.id == T for st in body[init[0][0] + 1:cons[0][0]] for n in ast.walk(st)):
            continue
        if any(isinstance(n, ast.Name) and n.id in (stored | set(tnames)) for st in body[cons[0][0] + 1:] for n in ast.walk(st)):
            continue
        # inside the writer: the list is only appended to (a tuple of the right arity) and handed on unchanged
        prm = params[idx]
        fuses = [n for n in ast.walk(f.node) if isinstance(n, ast.Name) and n.id == prm]
        rec = [c for c in ast.walk(f.node) if isinstance(c, ast.Call) and own_call(c)]
        handed = {id(c.args[idx]) for c in rec if not c.keywords and len(c.args) == len(params) and isinstance(c.args[idx], ast.Name)
                  and c.args[idx].id == prm}
        appends = {}

        def find_appends(stmts):
            for st in stmts:
                if isinstance(st, ast.Expr) and isinstance(st.value, ast.Call) and match(f"{prm}.append($x)", st.value):
                    appends[id(st.value.func.value)] = st
                for fld in ('body', 'orelse', 'finalbody'):
                    if isinstance(getattr(st, fld, None), list) and not isinstance(st, (ast.FunctionDef, ast.ClassDef)):
                        find_appends(getattr(st, fld))
        find_appends(f.node.body)
        if not appends or len(handed) != len(rec) or any(id(n) not in handed and id(n) not in appends for n in fuses):
            continue
        ok = True
        from sa.cfg import CFG as _CFG
        fcfg = _CFG(f.body)          # not cached: the body is rewritten below
        for st in appends.values():
            x = st.value.args[0]
            if not (isinstance(x, ast.Tuple) and len(x.elts) == len(tnames) and all(isinstance(e, (ast.Name, ast.Constant)) for e in x.elts)):
                ok = False
                break
            # what was appended is not changed afterwards (the consumer reads it only at the end)
            given = {e.id for e in x.elts if isinstance(e, ast.Name)}
            sn_ = fcfg.node_of(st)
            for n in walk_no_nested(f.node):
                if isinstance(n, ast.stmt) and n is not st and fcfg.node_of(n) is not None and fcfg.can_reach(sn_, fcfg.node_of(n)):
                    heads = [n.test] if isinstance(n, (ast.If, ast.While)) else [n.iter, n.target] if isinstance(n, ast.For) else [n]
                    if any(isinstance(y, ast.Name) and y.id in given for h in heads for y in ast.walk(h)):
                        ok = False
        if not ok:
            continue
        taken = {n.id for n in ast.walk(f.node) if isinstance(n, ast.Name)} | set(params)
        tname = T if T not in taken else f"{prm}__table"
        ren = {v: (v if v not in taken else f"{v}__d") for v in stored}
        ren[T] = tname

        def body_for(x):
            sub = dict(zip(tnames, x.elts))

            class Tr(ast.NodeTransformer):
                def visit_Name(self, n):
                    if n.id in sub and isinstance(n.ctx, ast.Load):
                        return ast.copy_location(_copy.deepcopy(sub[n.id]), n)
                    if n.id in ren:
                        return ast.copy_location(ast.Name(id=ren[n.id], ctx=n.ctx), n)
                    return n
            return [Tr().visit(_copy.deepcopy(b)) for b in loop.body]

        def rewrite(stmts):
            out = []
            for st in stmts:
                for fld in ('body', 'orelse', 'finalbody'):
                    if isinstance(getattr(st, fld, None), list) and not isinstance(st, (ast.FunctionDef, ast.ClassDef)):
                        setattr(st, fld, rewrite(getattr(st, fld)))
                if any(st is s for s in appends.values()):
                    new = body_for(st.value.args[0])
                    for b in new:
                        for n in ast.walk(b):
                            ast.copy_location(n, st)
                    out.extend(new)
                else:
                    out.append(st)
            return out
        f.node.body = rewrite(f.node.body)
        for c in [c for c in ast.walk(f.node) if isinstance(c, ast.Call) and own_call(c)]:
            c.args[idx] = ast.copy_location(ast.Name(id=tname, ctx=ast.Load()), c.args[idx])
        old = f.node.args.args[idx]
        f.node.args.args[idx] = ast.copy_location(ast.arg(arg=tname, annotation=ast.copy_location(ast.Name(id='TextTable', ctx=ast.Load()), old)), old)
        call.args[idx] = ast.copy_location(ast.Name(id=T, ctx=ast.Load()), call.args[idx])
        top.node.body = [st for st in body if st is not init[0][1] and st is not loop]
        ast.fix_missing_locations(f.node)
        ast.fix_missing_locations(top.node)
        ctx.assume(f"{f.name} collects (" + ', '.join(tnames) + f") in the list `{L}` and _Repr.repr fills the table from it afterwards: read as "
                   f"the table calls made at the place of each `{prm}.append(..)`")
        return


def _splice_receiver_helpers(ctx, qual):
    """inside function `qual`: a statement `r.helper(a, b)` on a local receiver, where `helper` is a procedure-like method that
    exactly one package class defines and that is not part of the table API, is replaced by the helper's body with self -> r
    and the parameters -> the arguments (the engine's normaliser only splices helpers called on self).  Purely syntactic, done
    before cfg / flow / call graph look at the function."""
    from sa.model import AnchorMissing
    import copy as _copy
    prog = ctx.prog
    try:
        f = prog.func(qual)
    except AnchorMissing:
        return
    api = {'repr', 'add_cell', 'get_cell', 'new_row', 'new_cell', 'text_repr', 'append', 'extend', 'setdefault', 'get', 'values', 'items'}
    used = {n.id for n in ast.walk(f.node) if isinstance(n, ast.Name)} | set(f.params)
    done = []

    def helper_of(name, nargs):
        cands = [g for g in prog.all_funcs() if g.name == name and g.kind == 'method' and g.cls is not None and len(g.params) == nargs + 1]
        if len(cands) != 1:
            return None
        g = cands[0]
        a = g.node.args
        if a.vararg or a.kwarg or a.kwonlyargs or a.defaults or a.posonlyargs:
            return None
        for n in ast.walk(g.node):
            if isinstance(n, (ast.Yield, ast.YieldFrom, ast.Global, ast.Nonlocal, ast.FunctionDef, ast.Lambda)) and n is not g.node:
                return None
            if isinstance(n, ast.Return) and n.value is not None:
                return None
            if isinstance(n, ast.Return):
                return None
        return g

    def rewrite(stmts):
        out = []
        for st in stmts:
            for fld in ('body', 'orelse', 'finalbody'):
                if isinstance(getattr(st, fld, None), list) and not isinstance(st, (ast.FunctionDef, ast.ClassDef)):
                    setattr(st, fld, rewrite(getattr(st, fld)))
            c = st.value if isinstance(st, ast.Expr) else None
            g = None
            if isinstance(c, ast.Call) and isinstance(c.func, ast.Attribute) and isinstance(c.func.value, ast.Name) \
                    and c.func.attr not in api and not c.keywords and all(isinstance(a, (ast.Name, ast.Constant)) for a in c.args) \
                    and c.func.value.id != (f.self_name or ''):
                g = helper_of(unmangle(c.func.attr), len(c.args))
            if g is None:
                out.append(st)
                continue
            sub = {g.params[0]: c.func.value}
            sub.update(dict(zip(g.params[1:], c.args)))
            stores = {n.id for n in ast.walk(g.node) if isinstance(n, ast.Name) and isinstance(n.ctx, ast.Store)}
            if stores & set(g.params):
                out.append(st)          # a parameter is re-bound inside the helper: not a plain substitution
                continue
            ren = {v: (v if v not in used else f"{v}__r{len(done) + 1}") for v in stores}

            class Tr(ast.NodeTransformer):
                def visit_Name(self, n):
                    if n.id in sub and isinstance(n.ctx, ast.Load):
                        return ast.copy_location(_copy.deepcopy(sub[n.id]), n)
                    if n.id in ren:
                        return ast.copy_location(ast.Name(id=ren[n.id], ctx=n.ctx), n)
                    return n
            body = [b for b in _copy.deepcopy(g.node.body) if not (isinstance(b, ast.Expr) and isinstance(b.value, ast.Constant))]
            body = [ast.copy_location(Tr().visit(b), st) for b in body]
            for b in body:
                for n in ast.walk(b):
                    ast.copy_location(n, st) if not hasattr(n, 'lineno') else None
            used.update(ren.values())
            done.append(g.qual)
            out.extend(body or [ast.copy_location(ast.Pass(), st)])
        return out
    f.node.body = rewrite(f.node.body)
    if done:
        ast.fix_missing_locations(f.node)
        ctx.assume(f"{qual}: helper methods called on a local receiver are read in place: " + ', '.join(done))


def check(ctx):
    _classmethods_as_static(ctx)
    _inline_deferred_rows(ctx)
    _explode_param_object(ctx)
    _splice_receiver_helpers(ctx, 'utils.TextTable.text_repr')
    ctx.assume("attribute values reach the table as str (str(), strftime, literals); multi-line texts are out of scope")
    ctx.assume("`fields` is a collection that can be iterated more than once (header and every task row)")
    ctx.assume("term expansion assumes no aliasing writes between a definition and its use inside one function")
    _rows(ctx)
    _indent(ctx)
    _callers(ctx)
    _width(ctx)
    _row_render(ctx)
    _pad(ctx)
    _plumbing(ctx)
    _links(ctx)
    _field_texts(ctx)
    _usage(ctx)


def _verdict(o, f, node, construct, what, actual, expected):
    """record the comparison of an emission count with its expected value"""
    v, text = compare(actual, expected)
    if v == 'ok':
        o.site(f, node, f"{what}: {text}")
    elif v == 'refute':
        o.refute(f, node, construct, f"{what} {text}")
    else:
        o.undecided(f, node, construct, f"{what}: {text}")
    return v == 'ok'


def _table_names(ctx, f):
    """locals / parameters of f that hold a TextTable"""
    env = ctx.typer.locals_of(f)
    return {n for n, t in env.items() if base(t) == 'TextTable'}


def _renders_table(v, tables):
    """`<table>.text_repr(...)` (any arguments, positional or keyword) on one of the given table variables"""
    return isinstance(v, ast.Call) and isinstance(v.func, ast.Attribute) and v.func.attr == 'text_repr' \
        and isinstance(v.func.value, ast.Name) and v.func.value.id in tables


def _is_param(f, e, idx=None):
    return isinstance(e, ast.Name) and e.id in f.params and (idx is None or f.params.index(e.id) == idx)


# ===================================================================================================== rows / indent
def _subtree(ctx):
    """the recursive row writer: __print_task_subtree, or - when it was turned into a closure - the nested def of
    _Repr.repr that calls itself (fields / table / children / theme are then read from the enclosing scope)"""
    from sa.model import AnchorMissing
    prog = ctx.prog
    got = getattr(ctx, '_c20_subtree', None)
    if got is not None:
        return got
    try:
        f = prog.func(SUBTREE)
    except AnchorMissing:
        top = prog.func(REPR)
        f = None
        for n in ast.walk(top.node):
            if isinstance(n, ast.FunctionDef) and n is not top.node:
                try:
                    g = prog.func(REPR + '.' + n.name)
                except AnchorMissing:
                    continue
                if facts.calls_named(g, g.name) and facts.calls_named(top, g.name):
                    f = g
        if f is None:
            f = _repr_row_writer(prog)      # renamed: the one method of _Repr that calls itself and is called by _Repr.repr
        if f is None:
            raise
    ctx._c20_subtree = f
    return f


def _visits_without_recursion(f):
    """text when the row writer does not call itself but still reaches descendants (a flat pass over all_children, an
    explicit stack over children): a shape the recursion-based obligations do not describe - neither right nor wrong"""
    if facts.calls_named(f, f.name):
        return None
    hit = next((n for n in walk_no_nested(f.node) if isinstance(n, ast.Attribute) and n.attr in ('children', 'all_children')), None)
    if hit is None:
        return None
    return (f"{f.name} does not call itself but reads `{src(hit)}`: descendants are printed by a flat pass / explicit stack, "
            f"which the rule cannot follow")


def _unprotected_depth_counter(ctx, f, b):
    """the indentation multiplier b is a class / module attribute (`_Repr.__level`) that the row writer itself counts up
    and down around its recursion, the count-down is not in a `finally:` and _Repr.repr does not reset it: text of the
    refutation; None when b is not such a counter or it is protected one way or the other"""
    path = attr_path(b)
    if path is None or '.' not in path:
        return None
    root = path.split('.')[0]
    if root in f.params or flow_of(f).defs_of(root):
        return None
    ups = [n for n in walk_no_nested(f.node) if isinstance(n, ast.AugAssign) and attr_path(n.target) == path]
    if not any(isinstance(n.op, ast.Add) for n in ups) or not any(isinstance(n.op, ast.Sub) for n in ups):
        return None
    in_finally = {id(x) for t_ in walk_no_nested(f.node) if isinstance(t_, ast.Try) for st_ in t_.finalbody for x in ast.walk(st_)}
    if any(isinstance(n.op, ast.Sub) and id(n) in in_finally for n in ups):
        return None
    top = ctx.prog.func(REPR)
    if any(isinstance(n, ast.Assign) and any(attr_path(t_) == path for t_ in n.targets) for n in walk_no_nested(top.node)):
        return None
    return (f"the depth is kept in the shared attribute `{unmangle(path.split('.')[-1])}` that {f.name} counts up and down around its "
            f"recursion; the count-down is not in a `finally:` and _Repr.repr does not reset it, so a sheet whose printing raises "
            f"inside a nested row leaves the counter raised and every later sheet is indented too deep")


def _subtree_qual(ctx):
    from sa.model import AnchorMissing
    try:
        return _subtree(ctx).qual
    except AnchorMissing:
        return None


def _bind_sub(call, f, roles):
    """bind_args for a call of the row writer; variables it reads from the enclosing scope count as handed over unchanged"""
    b = bind_args(call, f)
    if b is not None and roles:
        for name in roles.get('_closure', ()):
            b.setdefault(name, ast.Name(id=name, ctx=ast.Load()))
    return b


def _subtree_roles(ctx):
    """parameter roles of __print_task_subtree read off the top-level call in _Repr.repr (whose own parameter names
    tasks/fields/children/theme are public API): role -> parameter name of the subtree function"""
    prog = ctx.prog
    top, f = prog.func(REPR), _subtree(ctx)
    calls = [c for c in facts.calls_named(top, f.name)]
    if len(calls) != 1:
        return None, calls
    b = bind_args(calls[0], f)
    if b is None:
        return None, calls
    roles = {}
    tabs = _table_names(ctx, top)
    fl = flow_of(top)
    for p, a in b.items():
        if isinstance(a, ast.Name):
            if a.id in ('fields', 'children', 'theme') and a.id in top.params:
                roles[a.id] = p
            elif a.id in tabs:
                roles['table'] = p
            else:
                ds = fl.reaching(a.id, fl.node_of_expr(calls[0]))
                if ds and all(d.kind == 'for' for d in ds):
                    roles['task'] = p
        elif isinstance(a, ast.Constant) and isinstance(a.value, int) and not isinstance(a.value, bool):
            roles['level'] = p
    if f.qual.startswith(top.qual + '.'):
        # a closure: what is not a parameter is read from _Repr.repr's scope under the same name
        used = {n.id for n in walk_no_nested(f.node) if isinstance(n, ast.Name)}
        own = set(f.params) | {d.var for d in flow_of(f).defs if d.node is not None}
        closure = set()
        for role in ('fields', 'children', 'theme'):
            if role not in roles and (role in used or role == 'children') and role not in own and role in top.params:
                roles[role] = role
                closure.add(role)
        for tname in tabs:
            if 'table' not in roles and tname in used and tname not in own:
                roles['table'] = tname
                closure.add(tname)
        roles['_closure'] = closure
    return roles, calls


def _iter_in_order(it_expanded, want_pat):
    """'ok' | ('refute', 'order' | 'subset', why) | None for the iterable of a loop that must visit `want_pat` in its own order"""
    order_lost = subset = False
    e = it_expanded
    # {key(x): x for x in C}.values(): C deduplicated by a key - elements that share the key collapse into one
    m = match("$d.values()", e)
    if m and isinstance(m['d'], ast.DictComp) and len(m['d'].generators) == 1:
        dc, g = m['d'], m['d'].generators[0]
        if isinstance(g.target, ast.Name) and isinstance(dc.value, ast.Name) and dc.value.id == g.target.id \
                and _iter_in_order(g.iter, want_pat) == 'ok' and not match(f"id({g.target.id})", dc.key) and mentions(dc.key, g.target.id):
            return 'refute', 'subset', (f"iterates `{src(it_expanded)[:90]}`: elements that share the same `{src(dc.key)}` collapse into "
                                        f"one, so a part of the collection is not visited" + (" (filtered as well)" if g.ifs else ""))
    while not match(want_pat, e):
        if isinstance(e, ast.Call) and isinstance(e.func, ast.Name) and e.args and not isinstance(e.args[0], ast.Starred):
            if e.func.id in ('list', 'tuple', 'iter') and len(e.args) == 1 and not e.keywords:
                e = e.args[0]
                continue
            if e.func.id in ('reversed', 'sorted', 'set', 'frozenset'):
                order_lost = True
                e = e.args[0]
                continue
            return None
        if isinstance(e, ast.Subscript):
            sl = e.slice
            if isinstance(sl, ast.Slice) and sl.lower is None and sl.upper is None:
                if sl.step is not None:
                    order_lost = True
            else:
                subset = True
            e = e.value
            continue
        return None
    if subset:
        return 'refute', 'subset', f"iterates `{src(it_expanded)}`: only a part of the collection is visited"
    if order_lost:
        return 'refute', 'order', f"iterates `{src(it_expanded)}`: the order of the collection is not kept"
    return 'ok'


def _walk_shape(ctx):
    """traversal separated from rendering: `_Repr.repr` loops `for t, lvl in <walk>(task, 0, children)` over a recursive
    package generator and emits one row per yielded pair.  None when the tree has the classic recursive
    __print_task_subtree; a dict describing the walk; or a text saying why the shape is not understood"""
    from sa.model import AnchorMissing
    prog = ctx.prog
    if getattr(ctx, '_c20_walk', 'unset') != 'unset':
        return ctx._c20_walk
    try:
        _subtree(ctx)
        ctx._c20_walk = None
        return None
    except AnchorMissing:
        pass
    top = prog.func(REPR)
    res = _walk_shape_of(ctx, top)
    ctx._c20_walk = res
    return res


def _walk_shape_of(ctx, top):
    prog = ctx.prog
    helper = Counter(ctx)
    cfg, fl = cfg_of(top), flow_of(top)
    tables = _table_names(ctx, top)
    loops = []
    for lp in [n for n in walk_no_nested(top.node) if isinstance(n, ast.For) and isinstance(n.iter, ast.Call)]:
        G = helper.target_of(lp.iter, top)
        if G is not None and any(isinstance(n, (ast.Yield, ast.YieldFrom)) for n in walk_no_nested(G.node)):
            loops.append((lp, G))
    if len(loops) != 1 or len(tables) != 1:
        return "neither __print_task_subtree nor a single loop over a task-walk generator found in _Repr.repr"
    lp, G = loops[0]
    b = bind_args(lp.iter, G, drop_self=G.kind == 'method')
    if b is None:
        return f"call of the walk generator {G.qual} with */** arguments"
    gp = {}
    for prm, a in b.items():
        if isinstance(a, ast.Name) and a.id == 'children' and 'children' in top.params:
            gp['children'] = prm
        elif isinstance(a, ast.Name):
            ds = fl.reaching(a.id, cfg.node_of(lp))
            if ds and all(d.kind == 'for' for d in ds):
                gp['task'] = prm
        elif isinstance(a, ast.Constant) and isinstance(a.value, int) and not isinstance(a.value, bool):
            gp['level'] = prm
    if any(r not in gp for r in ('task', 'level', 'children')):
        return f"the call `{src(lp.iter)}` does not pass (task of the loop, level constant, children) to the walk generator"
    gfl = flow_of(G)
    if any(d.kind != 'param' for r in ('task', 'children') for d in gfl.defs_of(gp[r])):
        return f"the walk generator {G.qual} re-assigns its task / children parameter"
    relays = [n.body[0].value for n in walk_no_nested(G.node) if isinstance(n, ast.For) and isinstance(n.iter, ast.Call)
              and helper.target_of(n.iter, G) is G and len(n.body) == 1 and isinstance(n.body[0], ast.Expr)
              and isinstance(n.body[0].value, ast.Yield) and n.body[0].value.value is not None and same(n.body[0].value.value, n.target)]
    ys = [n for n in walk_no_nested(G.node) if isinstance(n, ast.Yield) and not any(n is r for r in relays)]
    own = [y for y in ys if isinstance(y.value, ast.Tuple) and any(isinstance(e, ast.Name) and e.id == gp['task'] for e in y.value.elts)]
    if len(own) != 1 or len(own[0].value.elts) != 2 or not (isinstance(lp.target, ast.Tuple) and len(lp.target.elts) == 2
                                                             and all(isinstance(e, ast.Name) for e in lp.target.elts)):
        return f"the walk generator {G.qual} does not yield one (task, level) pair that the loop in _Repr.repr unpacks"
    elts = own[0].value.elts
    ti = next(i for i, e in enumerate(elts) if isinstance(e, ast.Name) and e.id == gp['task'])
    rec_calls = [c for c in walk_no_nested(G.node) if isinstance(c, ast.Call) and helper.target_of(c, G) is G]
    return {'top': top, 'loop': lp, 'call': lp.iter, 'G': G, 'gp': gp, 'T': lp.target.elts[ti].id, 'LVL': lp.target.elts[1 - ti].id,
            'own_yield': own[0], 'yield_level': elts[1 - ti], 'other_yields': [y for y in ys if y is not own[0]],
            'rec_calls': rec_calls, 'table': next(iter(tables))}


def _rows_walk(ctx, W, o_row, o_rec, o_top):
    """the three row obligations for the walk shape (see _walk_shape)"""
    prog = ctx.prog
    top, G, lp, gp = W['top'], W['G'], W['loop'], W['gp']
    tables = {W['table']}
    tasks_p = top.params[0]

    def in_loop(n):
        return any(x is n for st in lp.body for x in ast.walk(st))

    def rows(_):
        cfg = cfg_of(top)
        c = Counter(ctx, classify=lambda node, g: 'walk' if node is W['call'] else None)
        em = c.summary(top, tables, {})
        W['em'], W['counter'] = em, c
        if '!irregular' in em:
            o_row.undecided(top, top.node, 'repr', "emission inside a loop left by break/return or inside try: " + '; '.join(c.notes))
            return
        watom = c.loop_atom(top, lp)
        W['watom'] = watom
        part = lambda cnt, inside: {k: v for k, v in c_norm(cnt).items() if (watom in k) == inside}
        _verdict(o_row, top, lp, 'new_row per walked task', "table.new_row per yielded task", part(em.get('new_row', {}), True),
                 {(tasks_p, watom): (1, 1)})
        _verdict(o_row, top, lp, 'new_cell per walked task', "table.new_cell per yielded task", part(em.get('new_cell', {}), True),
                 {(tasks_p, watom, 'fields'): (1, 1)})
        own = lambda ev: [cfg.node_containing(n) for g, n in c.event_nodes.get(ev, []) if g is top and in_loop(n)]
        rows_, cells = own('new_row'), own('new_cell')
        if any(g is not top for ev in ('new_row', 'new_cell') for g, _n in c.event_nodes.get(ev, [])):
            o_row.site(top, lp, "row/cells emitted by a helper that receives the table (order inside the helper not compared)")
        else:
            bad = False
            for cn in cells:
                if not any(cfg.dominates(rn, cn) for rn in rows_):
                    o_row.refute(top, cn.ast, 'cell before row', "a cell is emitted on a path that has not opened this task's row: "
                                                                 "it lands in the previous task's line")
                    bad = True
            if not bad and cells and rows_:
                o_row.site(top, lp, "new_row dominates every new_cell of the yielded task")
        # the walk yields its own task exactly once, unconditionally, before its descendants
        gcfg = cfg_of(G)
        y = W['own_yield']
        yn = gcfg.node_containing(y)
        if W['other_yields']:
            o_row.undecided(G, W['other_yields'][0], W['other_yields'][0], f"the walk generator {G.qual} has further plain yields")
            return
        if gcfg.conditions(yn) or gcfg.enclosing_fors(yn) or any(isinstance(n, ast.While) and any(x is y for x in ast.walk(n)) for n in walk_no_nested(G.node)):
            conds = ', '.join(facts.cond_texts(gcfg.conditions(yn))) or 'inside a loop'
            o_row.refute(G, y, 'own yield conditional', f"the walk yields the task itself only under [{conds}]: some tasks get no line / several lines")
        elif any(isinstance(n, ast.Return) and not gcfg.dominates(yn, gcfg.node_of(n)) for n in walk_no_nested(G.node)):
            o_row.undecided(G, G.node, 'return in walk', f"the walk generator {G.qual} can return early")
        else:
            o_row.site(G, y, f"the walk yields ({src(y.value)}) exactly once per call, unconditionally")
        late = [c_ for c_ in W['rec_calls'] if gcfg.can_reach(gcfg.node_containing(c_), yn)]
        if late:
            o_row.refute(G, late[0], 'recursion before own yield', "the descendants are yielded before the task itself: rows are not in depth-first WBS order")
        elif W['rec_calls']:
            o_row.site(G, y, "the task is yielded before its descendants")
    ctx.guarded(o_row, rows)

    def rec(o):
        gcfg = cfg_of(G)
        gex = Expander(prog, G, ctx.typer)
        tp, chp = gp['task'], gp['children']
        if not W['rec_calls']:
            o.refute(G, G.node, 'no recursion', f"the walk generator {G.qual} never calls itself: descendants are not printed")
        for c in W['rec_calls']:
            cn = gcfg.node_containing(c)
            b = bind_args(c, G, drop_self=G.kind == 'method')
            if b is None:
                o.undecided(G, c, c, "recursive call with */** arguments")
                continue
            # the recursive walk must be handed on: `yield from walk(..)` or `for x in walk(..): yield x`
            par = next((n for n in walk_no_nested(G.node) if isinstance(n, ast.YieldFrom) and n.value is c), None)
            relay = next((n for n in walk_no_nested(G.node) if isinstance(n, ast.For) and n.iter is c and len(n.body) == 1
                          and isinstance(n.body[0], ast.Expr) and isinstance(n.body[0].value, ast.Yield)
                          and n.body[0].value.value is not None and same(n.body[0].value.value, n.target)), None)
            if par is not None or relay is not None:
                o.site(G, c, "the recursive walk is handed on element by element (" + ("yield from" if par is not None else "for .. yield") + ")")
            elif any(isinstance(n, ast.Expr) and n.value is c for n in walk_no_nested(G.node)):
                o.refute(G, c, 'recursive walk dropped', "the recursive walk is created but never iterated: descendants are not listed")
                continue
            else:
                o.undecided(G, c, c, "the result of the recursive walk is not handed on by `yield from`")
                continue
            fors = [fo for fo in gcfg.enclosing_fors(cn) if fo is not relay]
            a = b.get(tp)
            loop = next((fo for fo in fors if isinstance(fo.target, ast.Name) and isinstance(a, ast.Name) and fo.target.id == a.id), None)
            if loop is None:
                o.undecided(G, c, c, "the recursive call does not pass the variable of an enclosing for loop as task")
                continue
            it = gex.expand(loop.iter, gcfg.node_of(loop))
            r = _iter_in_order(it, f"{tp}.children")
            if r == 'ok':
                o.site(G, loop, f"for {loop.target.id} in {src(it)}")
            elif r:
                o.refute(G, loop, loop.iter, "children loop " + r[2])
            elif match(f"{tp}.all_children", it):
                o.refute(G, loop, loop.iter, "recursion over all_children: every descendant below the first level is printed more than once")
            else:
                o.undecided(G, loop, loop.iter, f"recursion iterates `{src(it)}`, not `{tp}.children`")
            arg = b.get(chp)
            if isinstance(arg, ast.Name) and arg.id == chp:
                o.site(G, c, "children flag handed on unchanged")
            else:
                o.refute(G, c, f"children={src(arg) if arg is not None else '?'}",
                         f"the recursive call passes `{src(arg) if arg is not None else '?'}` as children flag instead of its own `{chp}`")
            conds = gcfg.conditions(gcfg.node_of(loop))
            on = [truth(t if pol else ast.UnaryOp(op=ast.Not(), operand=t), {chp: True}) for t, pol in conds]
            off = [truth(t if pol else ast.UnaryOp(op=ast.Not(), operand=t), {chp: False}) for t, pol in conds]
            if not conds:
                o.refute(G, loop, 'children flag ignored', f"the descendants are walked whether or not `{chp}` is set: children are listed "
                                                           f"although they were switched off")
            elif all(v is True for v in on) and any(v is False for v in off):
                o.site(G, loop, f"descendants are walked iff `{chp}`")
            elif any(v is False for v in on):
                o.refute(G, loop, 'children flag inverted', f"the descendants are walked only when `{chp}` is off")
            else:
                o.undecided(G, loop, 'children condition', "the descendants are walked under (" + ', '.join(facts.cond_texts(conds)) + ")")
    ctx.guarded(o_rec, rec)

    def header(o):
        cfg, fl = cfg_of(top), flow_of(top)
        ex = Expander(prog, top, ctx.typer)
        em, c = W.get('em'), W.get('counter')
        if em is None or '!irregular' in em or 'watom' not in W:
            o.undecided(top, top.node, 'repr', "emissions of _Repr.repr not counted")
            return
        watom = W['watom']
        part = lambda cnt: {k: v for k, v in c_norm(cnt).items() if watom not in k}
        _verdict(o, top, top.node, 'header new_row', "header table.new_row", part(em.get('new_row', {})), c_const(1))
        _verdict(o, top, top.node, 'header new_cell', "header table.new_cell", part(em.get('new_cell', {})), {('fields',): (1, 1)})
        _verdict(o, top, top.node, 'walk per task', "a walk is started", em.get('walk', {}), {(tasks_p,): (1, 1)})
        ln = cfg.node_of(lp)
        b = bind_args(W['call'], G, drop_self=G.kind == 'method')
        a = b.get(gp['task'])
        outer = next((fo for fo in cfg.enclosing_fors(ln) if isinstance(fo.target, ast.Name) and isinstance(a, ast.Name) and fo.target.id == a.id), None)
        if outer is None:
            o.undecided(top, W['call'], W['call'], "task argument of the walk is not the variable of an enclosing for loop")
        else:
            it = ex.expand(outer.iter, cfg.node_of(outer))
            r = _iter_in_order(it, tasks_p)
            if r == 'ok':
                o.site(top, outer, f"for {outer.target.id} in {src(it)}")
            elif r:
                o.refute(top, outer, outer.iter, "task loop " + r[2])
            else:
                o.undecided(top, outer, outer.iter, f"task loop iterates `{src(it)}`, not the given `{tasks_p}`")
        first = cfg.node_of(outer) if outer is not None else ln
        cells = [cfg.node_containing(n) for g, n in c.event_nodes.get('new_cell', []) if g is top and not in_loop(n)]
        rows_ = [cfg.node_containing(n) for g, n in c.event_nodes.get('new_row', []) if g is top and not in_loop(n)]
        ok = True
        for x in cells:
            if not any(cfg.dominates(rn, x) for rn in rows_):
                o.refute(top, x.ast, 'header cell before row', "a header cell is emitted before the header row is opened")
                ok = False
            if cfg.can_reach(first, x):
                o.refute(top, x.ast, 'header after tasks', "header cells can be emitted after a task row was printed: they land in a task's line")
                ok = False
        for rn in rows_:
            if cfg.can_reach(first, rn) or not cfg.dominates(rn, first):
                o.refute(top, rn.ast, 'header row after tasks', "the header row is not opened before the first task row")
                ok = False
        hdr_loops = [fo for x in cells for fo in cfg.enclosing_fors(x)]
        if hdr_loops and not all(fl.same_version('fields', cfg.node_of(h), ln) for h in hdr_loops):
            o.refute(top, W['call'], 'fields redefined', "`fields` is redefined between the header and the task rows: columns differ")
            ok = False
        ca = b.get(gp['children'])
        if not (isinstance(ca, ast.Name) and ca.id == 'children' and fl.same_version('children', cfg.entry, ln)):
            o.refute(top, W['call'], f"children={src(ca)}", f"`{src(ca)}` is passed as children flag instead of the caller's `children`")
            ok = False
        if ok:
            o.site(top, W['call'], "header row precedes the task rows; same table, same fields, children handed on")
        rets = [n for n in walk_no_nested(top.node) if isinstance(n, ast.Return)]
        for r in rets:
            if r.value is not None and _renders_table(r.value, tables):
                o.site(top, r, src(r.value))
            else:
                o.undecided(top, r, r, "repr does not return <table>.text_repr(..)")
        if not rets:
            o.refute(top, top.node, 'no return', "_Repr.repr returns nothing")
    ctx.guarded(o_top, header)


def _rows(ctx):
    prog = ctx.prog
    o_row = ctx.ob('rows_one_row_per_task', 'R13',
                   "__print_task_subtree opens exactly one row and emits exactly one cell per field on every path, row first, "
                   "recursion last (children on and off)", floor=5)
    o_rec = ctx.ob('rows_children_iff', 'R13',
                   "__print_task_subtree recurses exactly once per element of task.children, in that order, iff `children`, "
                   "handing on fields, table and the children flag unchanged", floor=4)
    o_top = ctx.ob('rows_header_and_order', 'R13',
                   "_Repr.repr emits one header row with one cell per field, then one subtree per given task in the given order, "
                   "and returns the rendering of that table", floor=6)

    W = _walk_shape(ctx)
    if isinstance(W, dict):
        return _rows_walk(ctx, W, o_row, o_rec, o_top)
    if W is not None:
        top = prog.func(REPR)
        for o in (o_row, o_rec, o_top):
            o.undecided(top, top.node, 'repr', W)
        return
    roles, top_calls = _subtree_roles(ctx)
    f = _subtree(ctx)
    SUBQ = f.qual
    top = prog.func(REPR)
    need = ('task', 'fields', 'table', 'children')
    if roles is None or any(r not in roles for r in need):
        for o in (o_row, o_rec, o_top):
            o.undecided(top, top.node, 'repr', "the call of __print_task_subtree in _Repr.repr is not a single call passing "
                                               "(task of the loop, fields, level constant, table, children, theme)")
        return
    P = roles
    flat = _visits_without_recursion(f)
    if flat:
        for o_ in (o_row, o_rec):
            o_.undecided(f, f.node, 'no recursion', flat)

    def sub(_):
        if flat:
            return
        tables = {P['table']}
        for val in (True, False):
            c = Counter(ctx, stop=[SUBQ], free=P.get('_closure', ()))
            em = c.summary(f, tables, {P['children']: val})
            tag = f"children={'on' if val else 'off'}"
            if '!irregular' in em:
                o_row.undecided(f, f.node, f"{f.name} {tag}", "emission inside a loop left by break/return or inside try: " + '; '.join(c.notes))
                continue
            _verdict(o_row, f, f.node, f"new_row {tag}", f"[{tag}] table.new_row", em.get('new_row', {}), c_const(1))
            _verdict(o_row, f, f.node, f"new_cell {tag}", f"[{tag}] table.new_cell", em.get('new_cell', {}), {(P['fields'],): (1, 1)})
            want = {(P['task'] + '.children',): (1, 1)} if val else {}
            _verdict(o_rec, f, f.node, f"recursion {tag}", f"[{tag}] recursive call", em.get('call:' + SUBQ, {}), want)
            if not val:
                continue
            # order: the row is opened before its cells, the cells are complete before any child row is opened
            cfg = cfg_of(f)
            own = lambda ev: [cfg.node_containing(n) for g, n in c.event_nodes.get(ev, []) if g is f]
            rows_, cells, recs = own('new_row'), own('new_cell'), own('call:' + SUBQ)
            helper_events = any(g is not f for ev in ('new_row', 'new_cell') for g, _n in c.event_nodes.get(ev, []))
            if helper_events:
                o_row.site(f, f.node, "row/cells emitted by a helper that receives the table (order inside the helper not compared)")
            else:
                bad = False
                for cn in cells:
                    if not any(cfg.dominates(rn, cn) for rn in rows_):
                        o_row.refute(f, cn.ast, 'cell before row', "a cell is emitted on a path that has not opened this task's row: "
                                                                   "it lands in the previous task's line")
                        bad = True
                for kn in recs:
                    for cn in cells + rows_:
                        if cn is not None and kn is not None and cfg.can_reach(kn, cn):
                            o_row.refute(f, kn.ast, 'recursion before cells', "the recursive call can run before this task's row is "
                                                                              "complete: child rows are opened first and take the cells")
                            bad = True
                            break
                if not bad and cells and rows_:
                    o_row.site(f, f.node, "new_row dominates every new_cell; recursion follows the cells")
    ctx.guarded(o_row, sub)

    def rec(o):
        if flat:
            return
        ex = Expander(prog, f, ctx.typer)
        cfg = cfg_of(f)
        calls = facts.calls_named(f, f.name)
        if not calls:
            o.refute(f, f.node, 'no recursion', "__print_task_subtree never calls itself: descendants are not printed")
        for c in calls:
            b = _bind_sub(c, f, P)
            if b is None:
                o.undecided(f, c, c, "recursive call with */** arguments")
                continue
            cn = cfg.node_containing(c)
            fors = cfg.enclosing_fors(cn)
            a = b.get(P['task'])
            loop = next((fo for fo in fors if isinstance(fo.target, ast.Name) and isinstance(a, ast.Name) and fo.target.id == a.id), None)
            if loop is None:
                o.undecided(f, c, c, "the recursive call does not pass the variable of an enclosing for loop as task")
                continue
            it = ex.expand(loop.iter, cfg.node_of(loop))
            r = _iter_in_order(it, f"{P['task']}.children")
            if r == 'ok':
                o.site(f, loop, f"for {loop.target.id} in {src(it)}")
            elif r:
                o.refute(f, loop, loop.iter, "children loop " + r[2])
            elif match(f"{P['task']}.all_children", it):
                o.refute(f, loop, loop.iter, "recursion over all_children: every descendant below the first level is printed more than once")
            else:
                o.undecided(f, loop, loop.iter, f"recursion iterates `{src(it)}`, not `{P['task']}.children`")
            for role in ('fields', 'table', 'children'):
                arg = b.get(P[role])
                if isinstance(arg, ast.Name) and arg.id == P[role] and flow_of(f).same_version(P[role], cfg.entry, cn):
                    o.site(f, c, f"{role} handed on unchanged")
                else:
                    o.refute(f, c, f"{role}={src(arg) if arg is not None else '?'}",
                             f"the recursive call passes `{src(arg) if arg is not None else '?'}` as {role} instead of its own "
                             f"`{P[role]}`: deeper levels are printed with a different {role}")
    ctx.guarded(o_rec, rec)

    def header(o):
        tables = _table_names(ctx, top)
        cfg, fl = cfg_of(top), flow_of(top)
        c = Counter(ctx, stop=[SUBQ], free=P.get('_closure', ()))
        em = c.summary(top, tables, {})
        if '!irregular' in em:
            o.undecided(top, top.node, 'repr', "emission inside a loop left by break/return: " + '; '.join(c.notes))
            return
        _verdict(o, top, top.node, 'header new_row', "header table.new_row", em.get('new_row', {}), c_const(1))
        _verdict(o, top, top.node, 'header new_cell', "header table.new_cell", em.get('new_cell', {}), {('fields',): (1, 1)})
        _verdict(o, top, top.node, 'subtree call', "call of __print_task_subtree", em.get('call:' + SUBQ, {}),
                 {(top.params[0],): (1, 1)})
        call = top_calls[0]
        cn = cfg.node_containing(call)
        b = _bind_sub(call, f, P)
        ex = Expander(prog, top, ctx.typer)
        fors = cfg.enclosing_fors(cn)
        a = b.get(P['task'])
        loop = next((fo for fo in fors if isinstance(fo.target, ast.Name) and isinstance(a, ast.Name) and fo.target.id == a.id), None)
        if loop is None:
            o.undecided(top, call, call, "task argument is not the variable of an enclosing for loop")
        else:
            it = ex.expand(loop.iter, cfg.node_of(loop))
            r = _iter_in_order(it, top.params[0])
            if r == 'ok':
                o.site(top, loop, f"for {loop.target.id} in {src(it)}")
            elif r:
                o.refute(top, loop, loop.iter, "task loop " + r[2])
            else:
                o.undecided(top, loop, loop.iter, f"task loop iterates `{src(it)}`, not the given `{top.params[0]}`")
        # header before the task rows, same table, same fields
        cells = [cfg.node_containing(n) for g, n in c.event_nodes.get('new_cell', []) if g is top]
        rows_ = [cfg.node_containing(n) for g, n in c.event_nodes.get('new_row', []) if g is top]
        ok = True
        for x in cells:
            if not any(cfg.dominates(rn, x) for rn in rows_):
                o.refute(top, x.ast, 'header cell before row', "a header cell is emitted before the header row is opened")
                ok = False
            if cfg.can_reach(cn, x):
                o.refute(top, x.ast, 'header after tasks', "header cells can be emitted after a task row was printed: they land in a task's line")
                ok = False
        for rn in rows_:
            if cfg.can_reach(cn, rn) or not cfg.dominates(rn, cn):
                o.refute(top, rn.ast, 'header row after tasks', "the header row is not opened before the first task row")
                ok = False
        hdr_loops = [fo for x in cells for fo in cfg.enclosing_fors(x)]
        fa = b.get(P['fields'])
        if not (isinstance(fa, ast.Name) and fa.id == 'fields'):
            o.refute(top, call, f"fields={src(fa)}", f"task rows are printed for `{src(fa)}`, the header for `fields`: columns differ")
            ok = False
        elif hdr_loops and not all(fl.same_version('fields', cfg.node_of(h), cn) for h in hdr_loops):
            o.refute(top, call, 'fields redefined', "`fields` is redefined between the header and the task rows: columns differ")
            ok = False
        ta = b.get(P['table'])
        if not (isinstance(ta, ast.Name) and ta.id in tables):
            o.refute(top, call, f"table={src(ta)}", "the subtree is not printed into the table that holds the header")
            ok = False
        ca = b.get(P['children'])
        if not (isinstance(ca, ast.Name) and ca.id == 'children'):
            o.refute(top, call, f"children={src(ca)}", f"`{src(ca)}` is passed as children flag instead of the caller's `children`")
            ok = False
        if ok:
            o.site(top, call, "header row precedes the task rows; same table, same fields, children handed on")
        rets = [n for n in walk_no_nested(top.node) if isinstance(n, ast.Return)]
        for r in rets:
            v = ex.expand(r.value) if r.value is not None else None
            if r.value is not None and _renders_table(r.value, tables):
                o.site(top, r, src(r.value))
            else:
                o.undecided(top, r, r, "repr does not return <table>.text_repr(..)")
        if not rets:
            o.refute(top, top.node, 'no return', "_Repr.repr returns nothing")
    ctx.guarded(o_top, header)


def _list_texts(f, lst, at):
    """expressions that become the elements of the local list `lst` (appends, or the element of a comprehension)"""
    cfg, fl = cfg_of(f), flow_of(f)
    apps = [n for n in facts.calls_named(f, 'append') if isinstance(n.func, ast.Attribute)
            and isinstance(n.func.value, ast.Name) and n.func.value.id == lst and len(n.args) == 1]
    if apps:
        return [(n.args[0], cfg.node_containing(n), n) for n in apps]
    defs = fl.reaching(lst, at) if at is not None else []
    if len(defs) == 1 and defs[0].kind == 'assign' and isinstance(defs[0].value, ast.ListComp):
        return [(defs[0].value.elt, defs[0].node, defs[0].value)]
    return None


def _cell_values(ctx, f, tables, depth=0):
    """[(value expression, cfg node of its evaluation, call/append node)] for every text that reaches table.new_cell from f:
    the argument itself, or - when the argument is the variable of a loop over a list built by appends - the appended
    expressions; helpers that receive the table are followed and their parameters mapped back to the arguments.
    Second result: nodes whose text could not be traced."""
    cfg, fl = cfg_of(f), flow_of(f)
    out, unknown = [], []

    def add(a, cn, node):
        if isinstance(a, ast.Name):
            loop = next((fo for fo in cfg.enclosing_fors(cn) if isinstance(fo.target, ast.Name) and fo.target.id == a.id), None)
            if loop is not None and isinstance(loop.iter, ast.Name):
                if loop.iter.id in f.params and depth > 0:
                    out.append((('elem', loop.iter.id), None, node))
                    return
                got = _list_texts(f, loop.iter.id, cfg.node_of(loop))
                if got is None:
                    unknown.append(node)
                else:
                    out.extend(got)
                return
            if a.id in f.params and depth > 0 and all(d.kind == 'param' for d in fl.reaching(a.id, cn)):
                out.append((('param', a.id), None, node))
                return
        out.append((a, cn, node))

    for c in facts.calls_named(f, 'new_cell'):
        if not (isinstance(c.func, ast.Attribute) and isinstance(c.func.value, ast.Name) and c.func.value.id in tables):
            continue
        a = c.args[0] if c.args else next((k.value for k in c.keywords if k.arg == 'text'), None)
        if a is None:
            unknown.append(c)
            continue
        add(a, cfg.node_containing(c), c)
    if depth < 3:
        helper = Counter(ctx)
        for c in [n for n in walk_no_nested(f.node) if isinstance(n, ast.Call)]:
            g = helper.target_of(c, f)
            if g is None or g.qual == f.qual or g.qual == _subtree_qual(ctx):
                continue
            b = bind_args(c, g, drop_self=g.kind == 'method')
            if b is None:
                continue
            gt = {p for p, a in b.items() if isinstance(a, ast.Name) and a.id in tables}
            if not gt:
                continue
            sub, sub_unknown = _cell_values(ctx, g, gt, depth + 1)
            unknown.extend(c for _ in sub_unknown)
            cn = cfg.node_containing(c)
            for e, at, node in sub:
                if isinstance(e, tuple):
                    arg = b.get(e[1])
                    if arg is None:
                        unknown.append(c)
                    elif e[0] == 'param':
                        add(arg, cn, c)
                    elif isinstance(arg, ast.Name):
                        if arg.id in f.params and depth > 0:
                            out.append((('elem', arg.id), None, c))
                        else:
                            got = _list_texts(f, arg.id, cn)
                            if got is None:
                                unknown.append(c)
                            else:
                                out.extend(got)
                    elif isinstance(arg, ast.ListComp):
                        out.append((arg.elt, cn, c))
                    else:
                        unknown.append(c)
                else:
                    unknown.append(c)      # text computed inside the helper: not comparable in the caller's terms
    return out, unknown


def _name_or_empty(e, task):
    """'ok' | ('refute', why) | None for the text printed for the task name"""
    for p in (f"{task}.name if {task}.name is not None else ''", f"'' if {task}.name is None else {task}.name",
              f"{task}.name or ''", f"{task}.name if {task}.name else ''", f"str({task}.name or '')",
              f"str({task}.name) if {task}.name is not None else ''", f"'' if {task}.name is None else str({task}.name)"):
        if match(p, e):
            return 'ok'
    if match(f"{task}.name", e) or match(f"str({task}.name)", e):
        return 'refute', f"the name is printed as `{src(e)}`: a task whose name is None raises / prints 'None' instead of an empty name"
    for p in (f"{task}.name if {task}.name is not None else $d", f"$d if {task}.name is None else {task}.name", f"{task}.name or $d"):
        m = match(p, e)
        if m and const_str(m['d']) not in (None, ''):
            return 'refute', f"a None name is printed as {m['d'].value!r}, expected the empty string"
    return None


def _class_const(prog, e):
    """the literal a class-level constant `Cls.NAME` was assigned in the class body, else None"""
    if isinstance(e, ast.Attribute) and isinstance(e.value, ast.Name) and e.value.id in prog.classes:
        for st in prog.classes[e.value.id].node.body:
            tg = st.targets if isinstance(st, ast.Assign) else ([st.target] if isinstance(st, ast.AnnAssign) and st.value is not None else [])
            if any(isinstance(t_, ast.Name) and t_.id in (e.attr, unmangle(e.attr)) for t_ in tg) and isinstance(st.value, ast.Constant):
                return st.value
    return None


def _name_cells(ctx, o, f, P, scope, def_ok, within=None, vals_override=None, only_name=False):
    """the name cell is '   ' * level + (name or ''), every other cell __get_field_value(task, field), for the cells that
    function f emits into table P['table'] for task P['task'] (only those inside the statement `within`, if given);
    `scope`: the variables the depth can come from (parameters of f / variables of the walk loop), def_ok(d): the definition
    of such a variable is the one handed in.  -> (level variable | None, an absolute-depth refutation was recorded)"""
    prog = ctx.prog
    if True:
        cfg = cfg_of(f)
        ex = Expander(prog, f, ctx.typer)
        vals, unknown = (vals_override, []) if vals_override is not None else _cell_values(ctx, f, {P['table']})
        fvf = prog.func(FIELD_VALUE)
        if vals_override is None and vals and len(fvf.params) >= 3:
            # every cell is __get_field_value(task, field, <level>): the name cell is built inside that function
            exn = Expander(prog, f, ctx.typer, inline=False)
            inside_ = (lambda n: within is None or any(x is n for st_ in within.body for x in ast.walk(st_)))
            mine = [v for v in vals if inside_(v[2])]
            ms = [match(f"_Repr._Repr{fvf.name}($t, $fld, $lvl)", exn.expand(e, at)) for e, at, _ in mine]
            if mine and all(ms) and all(isinstance(m_['t'], ast.Name) and m_['t'].id == P['task'] and isinstance(m_['lvl'], ast.Name)
                                        and m_['lvl'].id in scope for m_ in ms) and len({m_['lvl'].id for m_ in ms}) == 1:
                lname = ms[0]['lvl'].id
                inner = [(rv, rn, r) for r, rv, rn in _virtual_returns(fvf) if rv is not None]
                got, absd = _name_cells(ctx, o, fvf, {'task': fvf.params[0], 'table': None, 'fields': None}, list(fvf.params),
                                        lambda d: d.kind == 'param', vals_override=inner, only_name=True)
                if got == fvf.params[2] and all(def_ok(d) for d in flow_of(f).reaching(lname, mine[0][1])):
                    o.site(f, mine[0][2], f"every cell = {fvf.name}({P['task']}, field, {lname}); the name branch is inside it")
                    return lname, absd
                if got is not None and got != fvf.params[2]:
                    o.refute(fvf, fvf.node, 'level parameter', f"the name cell is indented by `{got}`, not by the level `{fvf.params[2]}` handed in")
                    return lname, True
                return (lname if got else None), absd
        if within is not None:
            inside = lambda n: n is not None and any(x is n for st_ in within.body for x in ast.walk(st_))
            vals = [v for v in vals if inside(v[2])]
            unknown = [u for u in unknown if inside(u)]
        for c in unknown:
            o.undecided(f, c, c, "cell text comes from a collection the rule cannot trace")
        level = None
        abs_depth = False
        name_cases = other_cases = 0
        for e, at, node in vals:
            conds = []
            for t, pol in cfg.conditions(at):
                conds += facts.split_conj(ex.expand(t, cfg.node_containing(t)), pol)
            for cs, _parts in _ifexp_cases(e):
                allc = conds + [(ex.expand(t, at), p) for t, p in cs[0]]
                sub = cs[1]
                is_name = None
                fvar = None
                for t, pol in allc:
                    q = eq_const(t, pol)
                    if q and q[1] == 'name' and isinstance(q[0], ast.Name):
                        is_name, fvar = q[2], q[0].id
                xe = ex.expand(sub, at)
                if is_name is True:
                    name_cases += 1
                    parts = parts_of(xe)
                    ind = [p for p in parts if isinstance(p, ast.BinOp) and isinstance(p.op, ast.Mult)]
                    rest = [p for p in parts if not any(p is i for i in ind)]
                    if not ind:
                        own = {x.id for x in ast.walk(xe) if isinstance(x, ast.Name)} & (set(f.params) | {d_.var for d_ in flow_of(f).defs if '.' not in d_.var})
                        if len(parts) == 1 and _name_or_empty(parts[0], P['task']):
                            o.refute(f, node, sub, "the name cell carries no indentation: expected '   ' * level in front of the name")
                        elif own <= {P['task']}:
                            abs_depth = True
                            o.refute(f, node, sub, f"the name cell `{src(xe)[:80]}` is computed from the printed task alone: it cannot be "
                                                   f"indented by the depth below the tasks being printed, which only the recursion knows")
                        else:
                            o.undecided(f, node, sub, f"name cell `{src(xe)[:100]}` is not `<indent> * level + name`")
                        continue
                    if len(ind) != 1 or len(rest) != 1 or parts[0] is not ind[0]:
                        o.undecided(f, node, sub, f"name cell `{src(xe)[:100]}` has more parts than indentation and name")
                        continue
                    a, b = ind[0].left, ind[0].right
                    if const_str(a) is None and const_str(b) is not None:
                        a, b = b, a
                    if const_str(a) is None and const_str(b) is None:
                        if _class_const(prog, a) is not None:
                            a = _class_const(prog, a)
                        elif _class_const(prog, b) is not None:
                            a, b = _class_const(prog, b), a
                    unit = const_str(a)
                    if unit is None:
                        o.undecided(f, node, ind[0], "indentation unit is not a string literal")
                        continue
                    good = True
                    if unit != '   ':
                        o.refute(f, node, ind[0], f"indentation unit is {unit!r} ({len(unit)} character(s)); expected three spaces per level")
                        good = False
                    if isinstance(b, ast.Name) and b.id in scope:
                        level = b.id
                        redef = [d for d in flow_of(f).reaching(level, at) if not def_ok(d)]
                        if redef:
                            o.refute(f, node, ind[0], f"the indentation reads `{level}` after it was re-assigned (line "
                                                      f"{getattr(redef[0].stmt, 'lineno', '?')}: `{src(redef[0].stmt)[:60]}`), not the depth the "
                                                      f"function was called with")
                            good = False
                    else:
                        pn = [p for p in scope if mentions(b, p)]
                        if len(pn) == 1 and isinstance(b, ast.BinOp) and pn[0] != P['task']:
                            level = pn[0]
                            o.refute(f, node, ind[0], f"indentation is multiplied by `{src(b)}` instead of the level `{level}`")
                        elif pn == [P['task']] and not isinstance(b, ast.Constant):
                            abs_depth = True
                            o.refute(f, node, ind[0], f"indentation is multiplied by `{src(b)}`, a value read off the printed task itself (its "
                                                      f"absolute position in the whole tree), not the depth below the tasks being printed that "
                                                      f"the recursion counts from 0: a task, subtree or task list printed on its own does not "
                                                      f"start at the left margin")
                        elif isinstance(b, ast.Constant):
                            o.refute(f, node, ind[0], f"indentation is the constant `{src(ind[0])}`: it does not follow the level")
                        elif not pn and _unprotected_depth_counter(ctx, f, b):
                            abs_depth = True
                            o.refute(f, node, ind[0], _unprotected_depth_counter(ctx, f, b))
                        else:
                            o.undecided(f, node, ind[0], f"indentation multiplier `{src(b)}` is not the level parameter")
                        good = False
                    r = _name_or_empty(rest[0], P['task'])
                    if r is None:
                        o.undecided(f, node, rest[0], f"name part `{src(rest[0])}` is not `name or ''` of the printed task")
                        good = False
                    elif r != 'ok':
                        o.refute(f, node, rest[0], r[1])
                        good = False
                    if good:
                        o.site(f, node, f"name cell = {src(xe)}")
                elif is_name is False and not only_name:
                    other_cases += 1
                    g = prog.func(FIELD_VALUE)
                    m = match(f"_Repr._Repr{g.name}($t, $fld)", xe)
                    if m and isinstance(m['t'], ast.Name) and m['t'].id in scope and m['t'].id == P['task'] and isinstance(m['fld'], ast.Name) and m['fld'].id == fvar:
                        o.site(f, node, f"other cells = {src(xe)}")
                    elif m:
                        o.refute(f, node, sub, f"cell text is `{src(xe)}`: expected the value of field `{fvar}` of the printed task `{P['task']}`")
                    else:
                        # a link column special-cased in the row writer itself: `elif f == 'parent': <linked id of (task, X)>`
                        col = next((q_[1] for q_ in (eq_const(t_, p_) for t_, p_ in allc) if q_ and q_[2] and isinstance(q_[0], ast.Name)
                                    and q_[0].id == fvar and q_[1] in ('parent',)), None)
                        one_pat = _link_helpers(ctx)['one_pat'] if col else None
                        m2 = match(one_pat, Expander(prog, f, ctx.typer, inline=False).expand(sub, at)) if one_pat else None
                        if m2 and match(P['task'], m2['a']) and match(f"{P['task']}.{col}", m2['b']):
                            o.site(f, node, f"{col} cell = linked id of ({P['task']}, {P['task']}.{col})")
                        elif m2 and match(P['task'], m2['a']):
                            o.refute(f, node, sub, f"the {col} column shows the linked id of `{src(m2['b'])}` - a value handed to "
                                                   f"{f.name} by its caller - instead of `{P['task']}.{col}`: a row whose caller does not know "
                                                   f"the task's {col} (the rows at the top of a sheet) shows an empty / wrong {col}")
                        else:
                            o.undecided(f, node, sub, f"cell text `{src(xe)[:100]}` is not __get_field_value(task, field)")
        if name_cases == 0 and only_name:
            return None, abs_depth
        if name_cases == 0:
            if vals and all(match(f"_Repr._Repr{prog.func(FIELD_VALUE).name}($t, $fld)", ex.expand(e, at)) for e, at, _ in vals):
                o.refute(f, f.node, 'no name branch', "every cell, including the name, is printed by __get_field_value: the name is not indented")
            elif not unknown:
                o.undecided(f, f.node, 'no name branch', "no cell text is selected by `field == 'name'`")
    return level, abs_depth


def _indent(ctx):
    prog = ctx.prog
    o = ctx.ob('indent_three_per_level', 'R8',
               "the name cell is '   ' * level + (name or ''), every other cell is __get_field_value(task, field); the recursion "
               "passes level + 1 and _Repr.repr starts at level 0", floor=4)

    def level_arg(f, c, level, a, arg_node, ex_cfg):
        """verdict for the level argument `a` (expanded) of a recursive call c in f"""
        if a is None:
            o.undecided(f, c, c, "level argument of the recursive call not found")
        elif match(f"{level} + 1", a) or match(f"1 + {level}", a):
            redef = [d for d in flow_of(f).reaching(level, ex_cfg.node_containing(c)) if d.kind != 'param']
            if redef:
                o.refute(f, c, arg_node, f"the recursive call passes `{src(a)}` computed from a re-assigned `{level}` (line "
                                         f"{getattr(redef[0].stmt, 'lineno', '?')}: `{src(redef[0].stmt)[:60]}`), not from the depth this call "
                                         f"received: indentation stops following the tree depth")
            else:
                o.site(f, c, f"recursion passes {src(a)}")
        elif match(level, a):
            o.refute(f, c, arg_node, f"the recursive call passes `{level}` unchanged: children are printed at their parent's indentation")
        elif isinstance(a, ast.BinOp) and mentions(a, level) or isinstance(a, ast.Constant):
            o.refute(f, c, arg_node, f"the recursive call passes `{src(a)}` as level, expected `{level} + 1`")
        else:
            o.undecided(f, c, arg_node, f"level argument `{src(a)}` not understood")

    def top_level_arg(top, c, a, arg_node):
        if isinstance(a, ast.Constant) and a.value == 0 and not isinstance(a.value, bool):
            o.site(top, c, "top level passes 0")
        elif isinstance(a, ast.Constant):
            o.refute(top, c, arg_node, f"top-level tasks are printed at level {a.value!r}, expected 0")
        else:
            o.undecided(top, c, c, "level argument of the top-level call is not a constant")

    def run_walk(o, W):
        top, G = W['top'], W['G']
        level, abs_depth = _name_cells(ctx, o, top, {'task': W['T'], 'table': W['table'], 'fields': 'fields'},
                                       [W['T'], W['LVL']] + list(top.params),
                                       lambda d: d.stmt is W['loop'], within=W['loop'])
        if level is not None and level != W['LVL']:
            o.refute(top, W['loop'], 'level variable', f"the indentation reads `{level}`, not the level `{W['LVL']}` the walk yields with the task")
        gl = W['gp']['level']
        gcfg, gex = cfg_of(G), Expander(prog, G, ctx.typer)
        # the walk yields its own level parameter
        yl = W['yield_level']
        if isinstance(yl, ast.Name) and yl.id == gl and all(d.kind == 'param' for d in flow_of(G).reaching(gl, gcfg.node_containing(yl))):
            o.site(G, yl, f"the walk yields (task, {gl}) with the level it was called with")
        elif isinstance(yl, ast.Name) and yl.id == gl:
            o.refute(G, yl, 'yield level', f"the walk yields `{gl}` after it was re-assigned, not the depth it was called with")
        else:
            o.undecided(G, yl, yl, f"the walk yields `{src(yl)}` as level, not its level parameter `{gl}`")
        for c in W['rec_calls']:
            b = bind_args(c, G)
            a = gex.expand(b[gl]) if b and gl in b else None
            level_arg(G, c, gl, a, b[gl] if b and gl in b else c, gcfg)
        b = bind_args(W['call'], G)
        a = Expander(prog, top, ctx.typer).expand(b[gl]) if b and gl in b else None
        top_level_arg(top, W['call'], a, b[gl] if b and gl in b else W['call'])

    def run(o):
        W = _walk_shape(ctx)
        if isinstance(W, dict):
            return run_walk(o, W)
        if W is not None:
            top = prog.func(REPR)
            o.undecided(top, top.node, 'repr', W)
            return
        roles, top_calls = _subtree_roles(ctx)
        f, top = _subtree(ctx), prog.func(REPR)
        if roles is None or any(r not in roles for r in ('task', 'fields', 'table')):
            o.undecided(top, top.node, 'repr', "call of __print_task_subtree in _Repr.repr not understood")
            return
        P = roles
        flat = _visits_without_recursion(f)
        if flat:
            o.undecided(f, f.node, 'no recursion', flat + "; the depth of a descendant is then computed in the pass itself, which the rule "
                                                          "cannot check against the tree")
            return
        cfg = cfg_of(f)
        ex = Expander(prog, f, ctx.typer)
        level, abs_depth = _name_cells(ctx, o, f, P, list(f.params), lambda d: d.kind == 'param')
        if level is None:
            level = roles.get('level')
        if level is None:
            if not abs_depth:
                o.undecided(f, f.node, 'level', "level parameter not identified")
            return
        # recursion passes level + 1
        for c in facts.calls_named(f, f.name):
            b = bind_args(c, f)
            a = ex.expand(b[level]) if b and level in b else None
            level_arg(f, c, level, a, b[level] if b and level in b else c, cfg)
        ext = Expander(prog, top, ctx.typer)
        for c in top_calls:
            b = bind_args(c, f)
            a = ext.expand(b[level]) if b and level in b else None
            top_level_arg(top, c, a, b[level] if b and level in b else c)
    ctx.guarded(o, run)


def _ifexp_cases(e):
    """[((conditions, expr), None)] splitting top-level conditional expressions"""
    out = []

    def rec(x, cs):
        if isinstance(x, ast.IfExp):
            rec(x.body, cs + [(x.test, True)])
            rec(x.orelse, cs + [(x.test, False)])
        else:
            out.append(((cs, x), None))
    rec(e, [])
    return out


# ============================================================================================================ callers
def _callers(ctx):
    prog = ctx.prog
    o = ctx.ob('rows_entry_points', 'R10',
               "every __repr__/print of Task, task lists and WBS hands _Repr.repr the visible tasks ([self] / self / self.roots) "
               "and print passes fields, children and theme on", floor=6)
    want = {'task.Task.__repr__': "[self]", 'task.Task.print': "[self]", 'task._ImmutableTaskList.__repr__': "self",
            'task._ImmutableTaskList.print': "self", 'wbs.WBS.__repr__': "self.roots", 'wbs.WBS.print': "self.roots"}

    def run(o):
        top = prog.func(REPR)
        seen = set()
        helper = Counter(ctx)
        # sinks: _Repr.repr itself and functions that only forward their own parameters to a sink
        # (qual -> (func, role -> parameter name)); roles: tasks / fields / children / theme
        sinks = {top.qual: (top, {'tasks': top.params[0], 'fields': 'fields', 'children': 'children', 'theme': 'theme'})}

        def calls_of_sinks(g):
            out = []
            names = {unmangle(v[0].name) for v in sinks.values()} | {v[0].name for v in sinks.values()}
            for c in [n for n in walk_no_nested(g.node) if isinstance(n, ast.Call)]:
                cname = c.func.attr if isinstance(c.func, ast.Attribute) else getattr(c.func, 'id', None)
                if cname is None or unmangle(cname) not in names:
                    continue
                tg = helper.target_of(c, g)
                hit = None
                if tg is not None and tg.qual in sinks:
                    hit = sinks[tg.qual]
                elif isinstance(c.func, ast.Attribute) and isinstance(c.func.value, ast.Name) and c.func.value.id == '_Repr':
                    hit = next((v for v in sinks.values() if v[0].name == c.func.attr and v[0].qual.startswith('task._Repr.')), None)
                if hit is not None:
                    out.append((c, hit))
            return out

        pending = []
        lossy = {}
        for _round in range(4):
            grew = False
            pending = []
            for g in prog.all_funcs():
                if g.qual in sinks:
                    continue
                for c, (sf, roles) in calls_of_sinks(g):
                    if g.qual in want:
                        pending.append((g, c, sf, roles))
                        continue
                    bnd = bind_args(c, sf, drop_self=sf.kind == 'method')
                    fl = flow_of(g)
                    own = {}
                    for role, prm in roles.items():
                        a = bnd.get(prm) if bnd and prm else None
                        if isinstance(a, ast.Name) and a.id in g.params and all(d.kind == 'param' for d in fl.defs_of(a.id)):
                            own[role] = a.id
                    if 'tasks' in own and roles.get('tasks') and len(calls_of_sinks(g)) == 1 \
                            and not cfg_of(g).conditions(cfg_of(g).node_containing(c)):
                        # roles that are not handed on (a constant / something else is passed) are lost for every caller
                        full = {role: (own.get(role) if roles.get(role) else None) for role in roles}
                        sinks[g.qual] = (g, full)
                        lost = [role for role, v in full.items() if v is None]
                        if lost:
                            lossy[g.qual] = (c, lost)
                        else:
                            o.site(g, c, f"{g.qual} forwards its parameters to {sf.qual}: {src(c)[:80]}")
                        grew = True
                    else:
                        pending.append((g, c, sf, roles))
            if not grew:
                break
        for g, c, sf, roles in pending:
            seen.add(g.qual)
            b = bind_args(c, sf, drop_self=sf.kind == 'method')
            if b is None or roles['tasks'] not in b:
                o.undecided(g, c, c, f"call of {sf.qual} with */** arguments")
                continue
            ex = Expander(prog, g, ctx.typer)
            t = ex.expand(b[roles['tasks']])
            w = want.get(g.qual)
            if w is None:
                o.undecided(g, c, c, "caller of _Repr.repr that the entry-point table does not list")
                continue
            sn = g.self_name or 'self'
            if not match(w.replace('self', sn), t):
                o.refute(g, c, b[roles['tasks']], f"prints `{src(t)}`, expected `{w}`")
                continue
            if g.name == 'print':
                gone = [p for p in ('fields', 'children', 'theme') if roles[p] is None]
                if gone:
                    lc, _l = lossy.get(sf.qual, (c, gone))
                    o.refute(sf, lc, lc, f"{g.qual} prints through {sf.qual}, which does not hand its `{', '.join(gone)}` argument(s) on "
                                         f"(`{src(lc)[:70]}`): print() ignores them")
                    continue
                bad = [p for p in ('fields', 'children', 'theme')
                       if not (isinstance(b.get(roles[p]), ast.Name) and b[roles[p]].id == p and p in g.params)]
                if bad:
                    o.refute(g, c, c, f"print() does not pass its `{', '.join(bad)}` argument(s) on to _Repr.repr")
                    continue
            elif any(v is None for v in roles.values()):
                o.undecided(g, c, c, f"{g.qual} renders through {sf.qual}, which replaces some of fields / children / theme")
                continue
            o.site(g, c, src(c))
        def delegated(q, g):
            """an entry point that renders through ANOTHER entry point of the table (`self.roots.print(fields, children, theme)`,
            `self.roots.__repr__()`): the tasks shown are those of the other entry point read on the receiver; print must hand
            on its own fields / children / theme.  The other entry point is judged in its own right.  True when decided."""
            cands = []
            for c in [n for n in walk_no_nested(g.node) if isinstance(n, ast.Call) and isinstance(n.func, ast.Attribute)]:
                tg = helper.target_of(c, g)
                if tg is not None and tg.qual in want and tg.qual != q and tg.name == g.name:
                    cands.append((c, tg))
            if len(cands) != 1 or cfg_of(g).conditions(cfg_of(g).node_containing(cands[0][0])):
                return False
            c, tg = cands[0]
            ex = Expander(prog, g, ctx.typer)
            recv = ex.expand(c.func.value)
            shown = subst(ast.parse(want[tg.qual], mode='eval').body, {'self': recv})
            sn = g.self_name or 'self'
            if not match(want[q].replace('self', sn), shown):
                o.refute(g, c, c.func.value, f"prints `{src(shown)}` (through {tg.qual}), expected `{want[q]}`")
                return True
            if g.name == 'print':
                b = bind_args(c, tg, drop_self=True)
                if b is None:
                    o.undecided(g, c, c, f"call of {tg.qual} with */** arguments")
                    return True
                bad = [p for p in ('fields', 'children', 'theme')
                       if not (p in tg.params and isinstance(b.get(p), ast.Name) and b[p].id == p and p in g.params
                               and all(d.kind == 'param' for d in flow_of(g).defs_of(p)))]
                if bad:
                    given = ', '.join(f"{p}={src(b[p])}" if b.get(p) is not None else f"{p} left at its default" for p in bad)
                    o.refute(g, c, c, f"{q} prints through {tg.qual} but does not pass its `{', '.join(bad)}` argument(s) on ({given}): "
                                      f"print() ignores what the caller asked for")
                    return True
            o.site(g, c, f"{src(c)[:80]} (delegates to {tg.qual}, which is an entry point itself)")
            return True

        for q in want:
            g = prog.func(q)
            if q not in seen and delegated(q, g):
                continue
            if q not in seen:
                other = [c for c in walk_no_nested(g.node) if isinstance(c, ast.Call) and (
                    helper.target_of(c, g) is not None or (isinstance(c.func, ast.Attribute) and isinstance(c.func.value, ast.Name)
                                                           and c.func.value.id == '_Repr'))]
                if other:
                    o.undecided(g, other[0], other[0], f"{q} renders through `{src(other[0])[:70]}`, which the rule cannot follow to _Repr.repr")
                else:
                    o.refute(g, g.node, 'no _Repr.repr', f"{q} does not render through _Repr.repr")
    ctx.guarded(o, run)


def _acc_returns(o, f, acc, what):
    """returns that post-process the accumulated text or return something else: False if any was reported"""
    ok = True
    for r, v in acc.transformed:
        o.refute(f, r, v, f"{what} is post-processed by `{src(v)}` after the cells were padded: padding is cut away and lines get "
                          f"different widths")
        ok = False
    for r, v in acc.foreign:
        if mentions(v, acc.name):
            o.undecided(f, r, v, f"`{src(v)[:80]}` is returned instead of the plain accumulated text `{acc.name}`")
        else:
            o.refute(f, r, v, f"a path returns `{src(v)[:80]}` instead of the accumulated text `{acc.name}`: that line lacks the padded cells")
        ok = False
    return ok


# ============================================================================================================== width
TEXT_REPR = 'utils.TextTable.text_repr'
ROW_REPR = 'utils._TextTableRow.repr'
PAD = 'utils.colored_text'


def _cell_of(e, row=None, idx=None):
    """`R.cells[I]` / `R.get_cell(I)` -> (R, I) if they agree with the given row / index expressions"""
    m = match("$r.cells[$i]", e) or match("$r.get_cell($i)", e)
    if not m:
        return None
    if row is not None and not same(m['r'], row):
        return None
    if idx is not None and not same(m['i'], idx):
        return None
    return m['r'], m['i']


def _enumerate_subst(fors, ex, cfg):
    """{cell variable: iterable[index]} for `for i, cell in enumerate(xs)` loops"""
    sub = {}
    for fo in fors:
        m = match("enumerate($x)", fo.iter)
        if m and isinstance(fo.target, ast.Tuple) and len(fo.target.elts) == 2 and all(isinstance(t, ast.Name) for t in fo.target.elts):
            i, c = fo.target.elts
            sub[c.id] = ast.Subscript(value=ex.expand(m['x'], cfg.node_of(fo)), slice=ast.Name(id=i.id, ctx=ast.Load()), ctx=ast.Load())
        # for a, b in zip(X, Y)  ->  a = X[__i], b = Y[__i];   for a in X[k:]  ->  a = X[__i]   (synthetic index __i)
        mz = match("zip($*xs)", fo.iter)
        if mz and isinstance(fo.target, ast.Tuple) and len(fo.target.elts) == len(mz['xs']) and all(isinstance(t, ast.Name) for t in fo.target.elts) \
                and not any(isinstance(x, ast.Starred) for x in mz['xs']):
            for t, x in zip(fo.target.elts, mz['xs']):
                sub[t.id] = ast.Subscript(value=ex.expand(x, cfg.node_of(fo)), slice=ast.Name(id='__i', ctx=ast.Load()), ctx=ast.Load())
        if isinstance(fo.target, ast.Name) and isinstance(fo.iter, ast.Subscript) and isinstance(fo.iter.slice, ast.Slice) \
                and isinstance(fo.iter.value, ast.Name) and fo.iter.slice.step is None:
            sub[fo.target.id] = ast.Subscript(value=ast.Name(id=fo.iter.value.id, ctx=ast.Load()), slice=ast.Name(id='__i', ctx=ast.Load()), ctx=ast.Load())
    return sub


def _zip_remainder_pair(loops, wp, sn, cfg):
    """the column loop split in two: `for w, cell in zip(width, self.cells)` (the columns the row has a cell for) followed by
    `for w in width[len(self.cells):]` (the remaining ones): together one round per entry of width"""
    if len(loops) != 2:
        return False
    a, b = loops
    if match(f"{wp}[len({sn}.cells):]", a.iter) or match(f"{wp}[len({sn}):]", a.iter):
        a, b = b, a
    if not (match(f"zip({wp}, {sn}.cells)", a.iter) or match(f"zip({sn}.cells, {wp})", a.iter)):
        return False
    if not (match(f"{wp}[len({sn}.cells):]", b.iter) or match(f"{wp}[len({sn}):]", b.iter)):
        return False
    if cfg.enclosing_fors(cfg.node_of(a)) or cfg.enclosing_fors(cfg.node_of(b)) or cfg.conditions(cfg.node_of(a)) or cfg.conditions(cfg.node_of(b)):
        return False
    return True


def _index_loop(fo, idx_name, len_ok, what):
    """'ok' | ('refute', why) | None: does the loop `fo` bind idx_name to every index 0..len-1 (len_ok(expr) recognises the length)"""
    tgt = fo.target
    m = match("enumerate($x)", fo.iter)
    if m and isinstance(tgt, ast.Tuple) and len(tgt.elts) == 2 and isinstance(tgt.elts[0], ast.Name) and tgt.elts[0].id == idx_name:
        x = m['x']
        if isinstance(x, ast.Subscript) and isinstance(x.slice, ast.Slice) and not (x.slice.lower is None and x.slice.upper is None) \
                and len_ok(ast.Call(func=ast.Name(id='len', ctx=ast.Load()), args=[x.value], keywords=[])):
            return 'refute', f"{what} loop `{src(fo.iter)}` visits only a slice of the collection"
        return 'ok' if len_ok(ast.Call(func=ast.Name(id='len', ctx=ast.Load()), args=[m['x']], keywords=[])) else None
    if not (isinstance(tgt, ast.Name) and tgt.id == idx_name):
        return None
    r = range_over(fo.iter)
    if r is None:
        return None
    a, b, step = r
    if step is not None and not (isinstance(step, ast.Constant) and step.value == 1):
        return 'refute', f"{what} loop `{src(fo.iter)}` steps by {src(step)}: indexes are skipped"
    if not is_zero(a):
        if isinstance(a, ast.Constant):
            return 'refute', f"{what} loop `{src(fo.iter)}` starts at {a.value!r}: the first column(s) are skipped"
        return None
    if len_ok(b):
        return 'ok'
    if isinstance(b, ast.BinOp) and (len_ok(b.left) or len_ok(b.right)):
        return 'refute', f"{what} loop `{src(fo.iter)}` does not cover every index (bound `{src(b)}`)"
    return None


def _width(ctx):
    prog = ctx.prog
    o = ctx.ob('width_running_max', 'R8',
               "TextTable.text_repr: widths[i] = max(len(row.cells[i].text), previous widths[i]) for every cell index of "
               "every row of the table, unconditionally", floor=4)
    o2 = ctx.ob('width_one_list_all_rows', 'R13',
                "text_repr renders every row exactly once, in order, with the one complete widths list (columns in index "
                "order), lines separated by a line break", floor=4)
    info = {}

    def run(o):
        f = prog.func(TEXT_REPR)
        sn = f.self_name
        rows = f"{sn}._TextTable__rows"
        cfg, fl = cfg_of(f), flow_of(f)
        ex = Expander(prog, f, ctx.typer)
        stores = []
        for n in walk_no_nested(f.node):
            if isinstance(n, ast.Assign) and len(n.targets) == 1 and isinstance(n.targets[0], ast.Subscript) \
                    and isinstance(n.targets[0].value, ast.Name):
                if any(isinstance(x, ast.Attribute) and x.attr == 'text' for x in ast.walk(ex.expand(n.value, cfg.node_of(n)))):
                    stores.append(n)
        if not stores:
            for n in walk_no_nested(f.node):
                if isinstance(n, ast.Assign) and len(n.targets) == 1 and isinstance(n.targets[0], ast.Subscript) \
                        and isinstance(n.targets[0].value, ast.Name):
                    fors = cfg.enclosing_fors(cfg.node_of(n))
                    if any(_iter_in_order(ex.expand(fo.iter, cfg.node_of(fo)), rows) for fo in fors):
                        o.refute(f, n, n, f"the width update `{src(n)[:80]}` inside the loop over the rows does not measure any cell text")
                        return
            # no running maximum: the widths list handed to row.repr may be computed column by column
            row_repr = prog.func(ROW_REPR)
            was = []
            for c in facts.calls_named(f, 'repr'):
                if isinstance(c.func, ast.Attribute) and base(ctx.typer.expr_type(c.func.value, f)) == '_TextTableRow':
                    b = bind_args(c, row_repr, drop_self=True)
                    wa = b.get(row_repr.params[1]) if b else None
                    if wa is not None:
                        was.append(ex.expand(wa, cfg.node_containing(c)))
            cols = [_colwise(w, rows) for w in was]
            if cols and all(v is not None for v in cols):
                for v in cols:
                    for kind, node, text in v:
                        if kind == 'site':
                            o.site(f, node, text)
                        elif kind == 'refute':
                            o.refute(f, node, node, text)
                        else:
                            o.undecided(f, node, node, text)
                if all(kind == 'site' for v in cols for kind, _n, _t in v):
                    info['colwise'] = True
                return
            if _widths_kept_outside(ctx, o, f, was):
                return
            o.undecided(f, f.node, 'text_repr', "no width accumulation of the form `W[i] = max(len(cell.text), W[i])` found")
            return
        for st in stores:
            W, I = st.targets[0].value.id, st.targets[0].slice
            info.setdefault('W', W)
            info.setdefault('store', st)
            cn = cfg.node_of(st)
            fors = cfg.enclosing_fors(cn)
            V = ex.expand(st.value, cn, stop={W})
            sub = _enumerate_subst(fors, ex, cfg)
            if sub:
                V = subst(V, sub)
            args = facts.flatten_lattice(V, 'max')
            consumed = set()
            if args is None and match("len($c.text)", V):
                # `if len(text) > W[i]: W[i] = len(text)` is the running maximum spelled as a guarded store
                verdict = None
                for t, pol in cfg.conditions(cn):
                    tx = ex.expand(t, cfg.node_containing(t), stop={W})
                    if sub:
                        tx = subst(tx, sub)
                    cm = cmp_oriented(tx, pol, lambda x: same(x, V))
                    if not cm:
                        continue
                    prev = cm[2]
                    strict = match(f"{W}.setdefault($i, $d)", prev) or match(f"{W}[$i]", prev)
                    loose = match(f"{W}.get($i, $d)", prev)
                    if not ((strict or loose) and same((strict or loose)['i'], I)):
                        continue
                    if cm[1] in ('>', '>=') and strict:
                        verdict = ('max', prev, t)
                    elif cm[1] in ('>', '>='):
                        verdict = ('get', prev, t)
                    elif cm[1] in ('<', '<='):
                        verdict = ('min', prev, t)
                if verdict and verdict[0] == 'max':
                    args = [V, verdict[1]]
                    consumed.add(id(verdict[2]))
                elif verdict and verdict[0] == 'min':
                    o.refute(f, st, st, f"the width is replaced only by SHORTER cell texts (`{src(verdict[2])}`): a running minimum, longer "
                                        f"cells overflow their column")
                    continue
                elif verdict:
                    o.undecided(f, st, st, f"the width is stored only under `{src(verdict[2])}`: a column whose cells are all empty never "
                                           f"gets an entry in `{W}`, the order of its values may differ from the column order")
                    continue
                else:
                    o.refute(f, st, st, f"the width update `{src(V)[:90]}` keeps no running maximum: the width is that of the last row only, "
                                        f"not the maximum over all rows")
                    continue
            if args is None:
                mins = facts.flatten_lattice(V, 'min')
                if mins is not None and any(facts.flatten_lattice(a, 'max') is not None for a in mins):
                    o.refute(f, st, st, f"the running maximum is capped (`{src(V)[:90]}`): cell texts are neither cut nor wrapped, so a "
                                        f"longer cell overflows its column and that line is wider than the others")
                elif mins is not None:
                    o.refute(f, st, st, "column width is a running MINIMUM of the cell lengths: longer cells overflow their column")
                else:
                    o.undecided(f, st, st, f"width update `{src(V)[:100]}` is not a max(..) expression")
                continue
            R = None
            has_len = has_prev = False
            bad = False
            for a in args:
                m = match("len($c.text)", a)
                cell = _cell_of(m['c'], idx=I) if m else None
                if cell and isinstance(cell[0], ast.Name):
                    has_len, R = True, cell[0].id
                    continue
                if m and _cell_of(m['c']):
                    o.refute(f, st, a, f"width of column `{src(I)}` is computed from cell `{src(_cell_of(m['c'])[1])}`")
                    bad = True
                    continue
                pm = match(f"{W}.setdefault($i, $d)", a) or match(f"{W}.get($i, $d)", a) or match(f"{W}[$i]", a)
                if pm and same(pm['i'], I) and ('d' not in pm or facts.const_num(pm['d']) is not None):
                    has_prev = True
                    continue
                if facts.const_num(a) is not None:
                    continue
                if any(isinstance(x, ast.Attribute) and x.attr == 'text' for x in ast.walk(a)):
                    if isinstance(a, ast.BinOp) and isinstance(a.op, ast.Sub) and match("len($c.text)", a.left):
                        o.refute(f, st, a, f"column width uses `{src(a)}`: narrower than the longest cell")
                    else:
                        o.undecided(f, st, a, f"width operand `{src(a)}` is not len(cell.text)")
                    bad = True
                    continue
                o.undecided(f, st, a, f"width operand `{src(a)}` not understood")
                bad = True
            if bad:
                continue
            if not has_len:
                o.undecided(f, st, st, "no operand len(row.cells[i].text) in the width update")
                continue
            if not has_prev:
                o.refute(f, st, st, f"the width update `{src(V)[:90]}` drops the previous value of {W}[{src(I)}]: the width is that of the "
                                    f"last row only, not the maximum over all rows")
                continue
            # loops
            ok = True
            row_loop = next((fo for fo in fors if isinstance(fo.target, ast.Name) and fo.target.id == R), None)
            if row_loop is None:
                ds = fl.reaching(R, cn)
                v = ex.expand(ds[0].value, ds[0].node) if len(ds) == 1 and ds[0].kind == 'assign' else None
                if v is not None and isinstance(v, ast.Subscript) and match(rows, v.value):
                    o.refute(f, st, ds[0].stmt, f"widths are computed from `{src(v)}` only, not from every row")
                else:
                    o.undecided(f, st, st, f"row variable `{R}` is not bound by a loop over the rows")
                continue
            it = ex.expand(row_loop.iter, cfg.node_of(row_loop))
            r = _iter_in_order(it, rows)
            if r == 'ok' or (r and r[1] == 'order'):
                pass
            elif r:
                o.refute(f, row_loop, row_loop.iter, "width loop " + r[2] + ": cells of the other rows can be wider than their column")
                ok = False
            else:
                o.undecided(f, row_loop, row_loop.iter, f"width loop iterates `{src(it)}`, not the rows of the table")
                ok = False
            iname = I.id if isinstance(I, ast.Name) else None
            len_ok = lambda b: bool(match(f"len({R})", b) or match(f"len({R}.cells)", b))
            idx_loop = None
            for fo in fors:
                if fo is row_loop or iname is None:
                    continue
                q = _index_loop(fo, iname, len_ok, 'index')
                if q is not None:
                    idx_loop = (fo, q)
                elif (isinstance(fo.target, ast.Name) and fo.target.id == iname) or \
                        (isinstance(fo.target, ast.Tuple) and any(isinstance(t, ast.Name) and t.id == iname for t in fo.target.elts)):
                    idx_loop = (fo, None)
            if idx_loop is None:
                o.undecided(f, st, st, f"column index `{src(I)}` is not bound by a loop over the cell indexes of the row")
                ok = False
            elif idx_loop[1] is None:
                o.undecided(f, idx_loop[0], idx_loop[0].iter, f"index loop `{src(idx_loop[0].iter)}` not understood")
                ok = False
            elif idx_loop[1] != 'ok':
                o.refute(f, idx_loop[0], idx_loop[0].iter, idx_loop[1][1])
                ok = False
            conds = [(t_, p_) for t_, p_ in cfg.conditions(cn) if id(t_) not in consumed]
            if conds:
                grow = _list_grow_branch(f, st, W, I, R, conds, ex, cfg, fors) if idx_loop and idx_loop[1] == 'ok' else None
                if grow is not None:
                    info['list'] = True
                    o.site(f, grow, f"{W} is a list grown in column order: `{src(grow)}` when the column is new, the running maximum otherwise")
                else:
                    o.undecided(f, st, st, "the width update is conditional (" + ', '.join(facts.cond_texts(conds)) + ")")
                    ok = False
            for n in walk_no_nested(row_loop):
                if isinstance(n, (ast.Break, ast.Return)):
                    if not cfg.conditions(cfg.node_of(n)) or n in row_loop.body:
                        o.refute(f, n, 'break in width loop', "the width loop stops after the first row: later rows are not measured")
                    else:
                        o.undecided(f, n, 'break in width loop', "the width loop can be left early")
                    ok = False
            if ok:
                info['W'], info['store'] = W, st
                o.site(f, st, f"{W}[{src(I)}] = {src(V)[:80]}")
                o.site(f, row_loop, f"for {R} in {src(it)}")
                o.site(f, idx_loop[0], f"for {iname} in {src(idx_loop[0].iter)}")
                o.site(f, st, "unconditional, loop not left early")
    ctx.guarded(o, run)

    def render(o):
        f = prog.func(TEXT_REPR)
        sn = f.self_name
        rows = f"{sn}._TextTable__rows"
        cfg, fl = cfg_of(f), flow_of(f)
        ex = Expander(prog, f, ctx.typer)
        calls = [c for c in facts.calls_named(f, 'repr') if isinstance(c.func, ast.Attribute)
                 and base(ctx.typer.expr_type(c.func.value, f)) == '_TextTableRow']
        if not calls:
            o.refute(f, f.node, 'no row.repr', "text_repr never renders a row (no _TextTableRow.repr call)")
            return
        W = info.get('W')
        for c in calls:
            cn = cfg.node_containing(c)
            b = bind_args(c, prog.func(ROW_REPR), drop_self=True)
            wa = b.get(prog.func(ROW_REPR).params[1]) if b else None
            if wa is None:
                o.undecided(f, c, c, "widths argument of row.repr not found")
                continue
            w = ex.expand(wa, cn, stop={W} if W else None)
            if W is None and info.get('colwise'):
                v = _colwise(w, rows)
                if v is not None and all(kind == 'site' for kind, _n, _t in v):
                    o.site(f, c, f"widths = {src(w)[:100]} (one entry per column, in index order, computed from all rows)")
                else:
                    o.undecided(f, c, wa, f"widths list `{src(w)[:90]}` is not the column-by-column maximum that was recognised")
                continue
            if W is None:
                o.undecided(f, c, wa, "the widths accumulation was not recognised, so the widths list cannot be compared with it")
                continue
            if info.get('list'):
                # the list is filled in place: a rebinding of its name between the width loop and the rendering is part of the value
                stn_ = cfg.node_of(info['store'])
                for x in [x for x in ast.walk(w) if isinstance(x, ast.Name) and x.id == W]:
                    ds = fl.reaching(W, cn)
                    if len(ds) == 1 and ds[0].kind == 'assign' and ds[0].node is not None and cfg.can_reach(stn_, ds[0].node):
                        w = subst(w, {W: ex.expand(ds[0].value, ds[0].node, stop={W})})
                    elif not (len(ds) == 1 and ds[0].kind == 'assign'):
                        w = None
                    break
                if w is None:
                    o.undecided(f, c, wa, f"`{W}` is re-assigned on some path between the width loop and the rendering")
                    continue
            forms = (f"[$v for $v in {W}.values()]", f"list({W}.values())", f"[{W}[$k] for $k in range(len({W}))]",
                     f"[{W}[$k] for $k in range(0, len({W}))]", f"[{W}[$k] for $k in sorted({W})]", f"tuple({W}.values())")
            if info.get('list'):
                forms = (W, f"list({W})", f"tuple({W})", f"{W}[:]", f"[$v for $v in {W}]", f"[{W}[$k] for $k in range(len({W}))]")
            if any(match(p, w) for p in forms):
                o.site(f, c, f"widths = {src(w)}")
            elif match(f"sorted({W}.values())", w) or match(f"sorted({W}.values(), $*r)", w) or match(f"list(reversed({W}.values()))", w) \
                    or match(f"set({W}.values())", w) \
                    or (info.get('list') and (match(f"sorted({W})", w) or match(f"sorted({W}, $*r)", w) or match(f"list(reversed({W}))", w)
                                              or match(f"{W}[::-1]", w))):
                o.refute(f, c, wa, f"the widths list is `{src(w)}`: widths are no longer in column order")
                continue
            elif isinstance(w, ast.Subscript) and any(match(p, w.value) for p in forms):
                o.refute(f, c, wa, f"the widths list is `{src(w)}`: columns are dropped")
                continue
            else:
                we = _widths_elem(w, W)
                q = _narrowed(we[0], we[1]) if we else None
                if q:
                    o.refute(f, c, wa, f"the widths list is `{src(w)[:90]}`: column widths are {q}, but cell texts are neither cut nor "
                                       f"wrapped - a longer cell overflows its column and that line is wider than the others")
                else:
                    o.undecided(f, c, wa, f"widths list `{src(w)}` is not the values of `{W}` in index order")
                continue
            stn = cfg.node_of(info['store'])
            if cfg.can_reach(cn, stn) or not all(d.node is None or not cfg.can_reach(cn, d.node) for d in fl.defs_of(attr_path(wa) or '')):
                o.refute(f, c, 'render before widths complete', "a row can be rendered before the widths of all rows are known")
        # one line per row, in order
        m = None
        rets = [n for n in walk_no_nested(f.node) if isinstance(n, ast.Return) and n.value is not None]
        if len(rets) == 1:
            v0 = rets[0].value
            if isinstance(v0, ast.Name):
                vs = value_set(f, v0, cfg.node_of(rets[0]))
                v0 = vs[0][0] if len(vs) == 1 else v0
            m = match("$s.join($c)", v0)
            if m and isinstance(m['c'], ast.Name):
                # lines = [row.repr(..) for row in rows]; return sep.join(lines)
                vs = value_set(f, m['c'], cfg.node_containing(v0) or cfg.node_of(rets[0]))
                if len(vs) == 1 and isinstance(vs[0][0], (ast.GeneratorExp, ast.ListComp)) \
                        and not [n for n in walk_no_nested(f.node) if isinstance(n, ast.Call) and isinstance(n.func, ast.Attribute)
                                 and isinstance(n.func.value, ast.Name) and n.func.value.id == m['c'].id and n is not v0]:
                    m = dict(m)
                    m['c'] = vs[0][0]
        if m and isinstance(m['c'], (ast.GeneratorExp, ast.ListComp)):
            comp = m['c']
            g = comp.generators[0]
            r = _iter_in_order(ex.expand(g.iter, cfg.node_containing(comp)), rows)
            if r and r != 'ok':
                o.refute(f, rets[0], g.iter, "render loop " + r[2])
            elif len(comp.generators) == 1 and g.ifs:
                o.refute(f, rets[0], comp, "rows are filtered before rendering: some tasks get no line")
            elif const_str(m['s']) is not None and const_str(m['s']) != '\n':
                o.refute(f, rets[0], m['s'], f"lines are joined by {const_str(m['s'])!r}, expected a line break")
            elif len(comp.generators) == 1 and r == 'ok' and const_str(m['s']) == '\n' \
                    and any(x is c for c in calls for x in ast.walk(comp.elt)) and isinstance(comp.elt, ast.Call):
                o.site(f, rets[0], "'\\n'.join(row.repr(widths) for row in rows)")
                o.site(f, rets[0], "rows in order")
                o.site(f, rets[0], "separator is a line break")
            else:
                o.undecided(f, rets[0], rets[0], "join form of text_repr not understood")
            return
        acc = Accumulator(f)
        if acc.drops is not None:
            o.refute(f, acc.drops, acc.drops, f"`{src(acc.drops)[:90]}` keeps the text built so far only while it is empty and replaces it "
                                              f"otherwise: every line but the last is lost")
            return
        if acc.problem:
            o.undecided(f, f.node, 'text_repr', acc.problem)
            return
        _acc_returns(o, f, acc, "the rendered table")

        def classify(node, g):
            e = acc.emitted(node)
            if e is None:
                return None
            at = cfg.node_of(node) or cfg.node_containing(node)
            kinds_ = []
            for part in (parts_of(e) or [e]):
                vs = value_set(f, part, at)
                if any(isinstance(x, ast.Call) and any(x is c for c in calls) for v, _ in vs for x in ast.walk(v)):
                    kinds_.append('line')
                elif all(const_str(v) == '\n' for v, _ in vs):
                    kinds_.append('nl')
                elif len(vs) == 1 and isinstance(vs[0][0], ast.IfExp) and const_str(vs[0][0].body) is not None \
                        and const_str(vs[0][0].orelse) is not None and '' in (const_str(vs[0][0].body), const_str(vs[0][0].orelse)):
                    kinds_.append('nl?')
                    inline_nl[id(node)] = (vs[0][0], vs[0][1])
                else:
                    kinds_.append('other')
            if kinds_ in (['line'], ['nl']):
                return kinds_[0]
            if kinds_ == ['nl?', 'line']:
                return 'line'
            return 'other'
        inline_nl = {}
        c = Counter(ctx, classify=classify)
        em = c.summary(f, (), {})
        if '!irregular' in em or 'other' in em:
            o.undecided(f, f.node, 'text_repr emissions', "text_repr appends something other than rendered rows and line breaks, or leaves "
                                                          "its loop early: " + '; '.join(c.notes))
            return
        _verdict(o, f, f.node, 'row.repr per row', "a rendered row is appended", em.get('line', {}), {(rows,): (1, 1)})
        for g, node in c.event_nodes.get('line', []):
            ln = cfg.node_of(node) or cfg.node_containing(node)
            loop = next(iter(cfg.enclosing_fors(ln)), None)
            if loop is None:
                continue
            r = _iter_in_order(ex.expand(loop.iter, cfg.node_of(loop)), rows)
            if r == 'ok':
                o.site(f, loop, "rows rendered in table order")
            elif r:
                o.refute(f, loop, loop.iter, "render loop " + r[2])
            else:
                o.undecided(f, loop, loop.iter, "render loop does not iterate the rows of the table")
            if acc.sep is not None:
                if acc.sep == '\n':
                    o.site(f, loop, "lines joined by a line break")
                else:
                    o.refute(f, loop, 'separator', f"lines are joined by {acc.sep!r}, expected a line break")
                continue
            nls = [(cfg.node_of(n) or cfg.node_containing(n), n) for _g, n in c.event_nodes.get('nl', [])]
            if not nls and id(node) in inline_nl:
                # the line break is part of the same statement: ('\n' if <res not empty> else '') + line
                part, pat_ = inline_nl[id(node)]
                R = acc.name
                t_ = ex.expand(part.test, pat_ or ln)
                sepv = const_str(part.body) or const_str(part.orelse)
                if sepv != '\n':
                    o.refute(f, node, part, f"lines are joined by {sepv!r}, expected a line break")
                    continue
                nonempty = any(match(p, t_) for p in (f"len({R}) > 0", f"len({R}) != 0", f"len({R}) >= 1", f"{R}", f"{R} != ''", f"0 < len({R})"))
                isempty = any(match(p, t_) for p in (f"len({R}) == 0", f"not {R}", f"{R} == ''", f"0 == len({R})"))
                if (nonempty and const_str(part.body) == '\n') or (isempty and const_str(part.orelse) == '\n'):
                    o.site(f, node, f"line break before every row but the first ({src(part.test)})")
                    o.site(f, node, "separator is a line break")
                elif (nonempty or isempty):
                    o.refute(f, node, part, f"the line break is added when `{acc.name}` is still empty and left out afterwards: `{src(part)}`")
                else:
                    o.undecided(f, node, part, f"line break `{src(part)}` does not depend on `{acc.name}` being empty")
                continue
            if not nls:
                o.refute(f, loop, 'no line break', "rendered rows are appended without a line break between them")
                continue
            hdr = cfg.node_of(loop)
            for nn, n in nls:
                conds = [(ex.expand(t, cfg.node_containing(t)), p) for t, p in cfg.conditions(nn)]
                R = acc.name
                okc = len(conds) == 1 and conds[0][1] and any(match(p, conds[0][0]) for p in (
                    f"len({R}) > 0", f"len({R}) != 0", f"len({R}) >= 1", f"{R}", f"{R} != ''", f"0 < len({R})"))
                before = nn.id in cfg.between(hdr, ln)
                if okc and before:
                    o.site(f, n, f"line break before every row but the first ({facts.cond_texts(conds)[0]})")
                else:
                    o.undecided(f, n, n, "line break is not emitted as `if res is not empty: res += '\\n'` before the row")
    ctx.guarded(o2, render)



def _list_grow_branch(f, st, W, I, R, conds, ex, cfg, fors):
    """the width update `W[i] = max(.., W[i])` sits under `i < len(W)` and the other branch is `W.append(len(cell_i.text))`:
    the list spelling of `W.setdefault(i, 0)` (the index loop visits 0..len(row)-1 in order, so a new column is always the
    next list position).  Returns the append statement, else None"""
    if len(conds) != 1 or not isinstance(I, ast.Name):
        return None
    test, pol = conds[0]
    c = cmp_oriented(test, pol, lambda x: isinstance(x, ast.Name) and x.id == I.id)
    if not (c and c[1] == '<' and match(f"len({W})", c[2])):
        return None
    ifs = [n for n in walk_no_nested(f.node) if isinstance(n, ast.If) and n.test is test]
    if len(ifs) != 1:
        return None
    other = ifs[0].orelse if pol else ifs[0].body
    if len(other) != 1 or not (isinstance(other[0], ast.Expr) and match(f"{W}.append($x)", other[0].value)):
        return None
    x = ex.expand(other[0].value.args[0], cfg.node_of(other[0]), stop={W})
    sub = _enumerate_subst(fors, ex, cfg)
    if sub:
        x = subst(x, sub)
    args = facts.flatten_lattice(x, 'max') or [x]
    lens = [a for a in args if match("len($c.text)", a)]
    if len(lens) != 1 or any(facts.const_num(a) is None for a in args if a is not lens[0]):
        return None
    cell = _cell_of(match("len($c.text)", lens[0])['c'], idx=I)
    if not (cell and isinstance(cell[0], ast.Name) and cell[0].id == R):
        return None
    # W starts empty and nothing else changes it
    defs = [d for d in flow_of(f).reaching(W, cfg.node_of(st)) if d.kind != 'other']
    if len(defs) != 1 or defs[0].value is None or not (isinstance(defs[0].value, ast.List) and not defs[0].value.elts or (defs[0].value is not None and match("list()", defs[0].value))):
        return None
    for n in walk_no_nested(f.node):
        if isinstance(n, ast.Call) and isinstance(n.func, ast.Attribute) and isinstance(n.func.value, ast.Name) and n.func.value.id == W \
                and n is not other[0].value and n.func.attr in ('append', 'extend', 'insert', 'pop', 'remove', 'clear', 'sort', 'reverse'):
            return None
        if isinstance(n, ast.Assign) and n is not st and any(isinstance(t, ast.Subscript) and root_name(t) == W for t in n.targets):
            return None
        if isinstance(n, (ast.AugAssign, ast.Delete)) and any(root_name(t) == W for t in (n.targets if isinstance(n, ast.Delete) else [n.target])):
            return None
    return other[0]


def _widths_kept_outside(ctx, o, f, was):
    """text_repr measures nothing itself and hands row.repr an attribute of the table (`self.__widths`).  Recognised and refuted:
    the attribute is a running maximum that ONE other method M (new_row) updates from the cells of `self.<current row>` BEFORE it
    replaces that row by a fresh one, while cells reach the current row later (new_cell) - the row that is current when
    text_repr runs, i.e. the last line, is never measured.  True when a verdict was recorded."""
    prog = ctx.prog
    sn = f.self_name
    if not sn or len(was) == 0:
        return False
    paths = {attr_path(w) for w in was}
    if len(paths) != 1 or None in paths:
        return False
    path = paths.pop()
    if not (path.startswith(sn + '.') and path.count('.') == 1):
        return False
    X = path.split('.')[1]
    users = [g for g in prog.all_funcs() if g.cls == f.cls and g is not f and g.self_name
             and any(isinstance(n, ast.Attribute) and n.attr == X for n in ast.walk(g.node))]
    writers = []
    for g in users:
        gs = g.self_name
        sub_stores = [n for n in walk_no_nested(g.node) if isinstance(n, ast.Assign) and len(n.targets) == 1
                      and isinstance(n.targets[0], ast.Subscript) and attr_path(n.targets[0].value) == f"{gs}.{X}"]
        if sub_stores:
            writers.append((g, sub_stores))
        elif g.name != '__init__':
            return False            # read / changed somewhere else: not the closed shape described above
    if len(writers) != 1 or len(writers[0][1]) != 1:
        return False
    g, (st,) = writers[0]
    gs = g.self_name
    gcfg = cfg_of(g)
    I = st.targets[0].slice
    args = facts.flatten_lattice(st.value, 'max')
    if args is None:
        return False
    cur = None
    for a in args:
        m = match("len($c.text)", a)
        cell = _cell_of(m['c'], idx=I) if m else None
        if cell:
            p = attr_path(cell[0])
            if p and p.startswith(gs + '.') and p.count('.') == 1:
                cur = p
    if cur is None or not any(match(f"{gs}.{X}[$i]", a) and same(match(f"{gs}.{X}[$i]", a)['i'], I) for a in args):
        return False
    stn = gcfg.node_of(st)
    fresh = [n for n in walk_no_nested(g.node) if isinstance(n, ast.Assign) and any(attr_path(t) == cur for t in n.targets)
             and isinstance(n.value, ast.Call)]
    if len(fresh) != 1:
        return False
    frn = gcfg.node_of(fresh[0])
    if not (gcfg.can_reach(stn, frn) and not gcfg.can_reach(frn, stn)):
        return False
    # cells reach the current row in another method, which does not measure them
    cur_attr = cur.split('.')[1]
    adders = [h for h in prog.all_funcs() if h.cls == f.cls and h is not g and h.self_name and any(
        isinstance(c, ast.Call) and isinstance(c.func, ast.Attribute) and c.func.attr in ('add_cell', 'append')
        and (attr_path(c.func.value) or '').startswith(f"{h.self_name}.{cur_attr}") for c in walk_no_nested(h.node))]
    if not adders or any(h in users for h in adders):
        return False
    o.refute(g, st, st, f"the column widths are kept in `{unmangle(X)}`, which only {g.name} updates - from the cells of "
                        f"`{gs}.{unmangle(cur_attr)}` BEFORE it starts the next row (`{src(fresh[0])[:60]}`); {adders[0].name} adds cells to the "
                        f"current row afterwards and text_repr hands `{sn}.{unmangle(X)}` to row.repr as it is: the cells of the last row "
                        f"are never measured, a longest cell on the last line overflows its column")
    return True


def _extreme_over(e):
    """`max(<comp>)` / `max(<comp>, default=K)` / `min(..)` over ONE comprehension: (fn, comprehension, default or None) else None"""
    if not (isinstance(e, ast.Call) and isinstance(e.func, ast.Name) and e.func.id in ('max', 'min') and len(e.args) == 1
            and isinstance(e.args[0], (ast.GeneratorExp, ast.ListComp)) and len(e.args[0].generators) == 1
            and all(k.arg == 'default' for k in e.keywords) and len(e.keywords) <= 1):
        return None
    return e.func.id, e.args[0], (e.keywords[0].value if e.keywords else None)


def _colwise(w, rows):
    """widths computed column by column instead of by a running maximum over the rows:
        [max(len(r.get_cell(i).text) for r in ROWS if i < len(r)) for i in range(max((len(r) for r in ROWS), default=0))]
    Returns None when `w` is not of that family, else a list of (kind, node, text) with kind in site / refute / undecided: four
    sites (measure, rows of the measure, the in-range filter, the index range) when the list is the column maxima of ALL rows."""
    if isinstance(w, ast.Call) and isinstance(w.func, ast.Name) and w.func.id in ('list', 'tuple') and len(w.args) == 1 and not w.keywords:
        w = w.args[0]
    if not (isinstance(w, (ast.ListComp, ast.GeneratorExp)) and len(w.generators) == 1 and isinstance(w.generators[0].target, ast.Name)):
        return None
    og = w.generators[0]
    i = og.target.id
    elt = w.elt
    out = []
    inner = _extreme_over(elt)
    if inner is None:
        # min(max(..), K) and friends: the column maximum made smaller
        for cand in [x for x in ast.walk(elt) if _extreme_over(x) and _extreme_over(x)[0] == 'max']:
            q = _narrowed(elt, cand)
            if q and _colwise(ast.ListComp(elt=cand, generators=w.generators), rows) is not None:
                return [('refute', elt, f"the widths list is `{src(w)[:90]}`: column widths are {q}, but cell texts are neither cut nor "
                                        f"wrapped - a longer cell overflows its column and that line is wider than the others")]
        return None
    fn, comp, _default = inner
    g = comp.generators[0]
    m = match("len($c.text)", comp.elt)
    if not (isinstance(g.target, ast.Name) and any(isinstance(x, ast.Attribute) and x.attr == 'text' for x in ast.walk(comp.elt))):
        return None
    r = g.target.id
    if og.ifs:
        out.append(('undecided', w, f"the column list `{src(w)[:80]}` is filtered"))
    # the measure
    if fn == 'min':
        out.append(('refute', elt, f"the column width `{src(elt)[:90]}` is the MINIMUM of the cell lengths: longer cells overflow their column"))
    elif not m:
        if isinstance(comp.elt, ast.BinOp) and isinstance(comp.elt.op, ast.Sub) and match("len($c.text)", comp.elt.left):
            out.append(('refute', comp.elt, f"column width uses `{src(comp.elt)}`: narrower than the longest cell"))
        else:
            out.append(('undecided', comp.elt, f"width operand `{src(comp.elt)}` is not len(cell.text)"))
    else:
        cell = _cell_of(m['c'])
        if cell and isinstance(cell[0], ast.Name) and cell[0].id == r and isinstance(cell[1], ast.Name) and cell[1].id == i:
            out.append(('site', comp.elt, f"widths[{i}] = {fn}({src(comp.elt)} for {r} in ..)"))
        elif cell and isinstance(cell[0], ast.Name) and cell[0].id == r:
            out.append(('refute', comp.elt, f"width of column `{i}` is computed from cell `{src(cell[1])}`"))
        else:
            out.append(('undecided', comp.elt, f"width operand `{src(comp.elt)}` is not the cell `{i}` of the row `{r}`"))
    # the rows that are measured (the order does not matter for a maximum)
    q = _iter_in_order(g.iter, rows)
    if q == 'ok' or (q and q[1] == 'order'):
        out.append(('site', g.iter, f"for {r} in {src(g.iter)}"))
    elif q:
        out.append(('refute', g.iter, "width loop " + q[2] + ": cells of the other rows can be wider than their column"))
    else:
        out.append(('undecided', g.iter, f"width loop iterates `{src(g.iter)}`, not the rows of the table"))
    # rows that reach the column, and only those, are left out
    in_range = lambda t, pol: (lambda c: bool(c and ((c[1] == '<' and (match(f"len({r})", c[2]) or match(f"len({r}.cells)", c[2])))
                                                     or (c[1] == '<=' and (match(f"len({r}) - 1", c[2]) or match(f"len({r}.cells) - 1", c[2]))))))(
        cmp_oriented(t, pol, lambda x: isinstance(x, ast.Name) and x.id == i))
    atoms = [a for t in g.ifs for a in facts.split_conj(t, True)]
    rest = [a for a in atoms if not in_range(*a)]
    if atoms and not rest:
        out.append(('site', g.ifs[0], f"only rows without a cell `{i}` are left out ({src(g.ifs[0])})"))
    elif rest:
        out.append(('undecided', rest[0][0], f"rows are left out of the column maximum under `{src(rest[0][0])}`: not understood as "
                                             f"`{i} < len({r})`"))
    else:
        out.append(('undecided', comp, f"every row is asked for its cell `{i}` (no `{i} < len({r})` filter): not followed for rows of "
                                       f"different lengths"))
    # the columns: 0 .. (cell count of the longest row) - 1
    rg = range_over(og.iter)
    if rg is None:
        out.append(('undecided', og.iter, f"column loop `{src(og.iter)[:80]}` is not a range over the column indexes"))
        return out
    a, b, step = rg
    if step is not None and not (isinstance(step, ast.Constant) and step.value == 1):
        out.append(('refute', og.iter, f"column loop `{src(og.iter)[:80]}` steps by {src(step)}: columns are skipped"))
        return out
    if not is_zero(a):
        out.append(('refute', og.iter, f"column loop `{src(og.iter)[:80]}` starts at {src(a)}: the first column(s) get no width") if isinstance(a, ast.Constant)
                   else ('undecided', og.iter, f"column loop `{src(og.iter)[:80]}` does not start at 0"))
        return out
    n = b
    if isinstance(n, ast.IfExp) and facts.const_num(n.orelse) == 0 and _extreme_over(n.body) and match(rows, n.test):
        n = n.body                                      # max(..) if rows else 0
    cnt = _extreme_over(n)
    if cnt is None:
        if isinstance(n, ast.BinOp) and isinstance(n.op, ast.Sub) and _extreme_over(n.left) and facts.const_num(n.right):
            out.append(('refute', og.iter, f"column loop `{src(og.iter)[:80]}` does not cover every index (bound `{src(n)[:60]}`)"))
        else:
            out.append(('undecided', og.iter, f"column count `{src(n)[:80]}` is not the cell count of the longest row"))
        return out
    cfn, ccomp, cdef = cnt
    cg = ccomp.generators[0]
    cq = _iter_in_order(cg.iter, rows)
    len_of_row = isinstance(cg.target, ast.Name) and (match(f"len({cg.target.id})", ccomp.elt) or match(f"len({cg.target.id}.cells)", ccomp.elt))
    if cfn == 'min' and len_of_row:
        out.append(('refute', n, f"the number of columns `{src(n)[:80]}` is the cell count of the SHORTEST row: the other columns get no width"))
    elif not len_of_row or cg.ifs or (cdef is not None and facts.const_num(cdef) != 0):
        out.append(('undecided', n, f"column count `{src(n)[:80]}` is not the cell count of the longest row"))
    elif cq == 'ok' or (cq and cq[1] == 'order'):
        out.append(('site', og.iter, f"for {i} in {src(og.iter)[:80]}"))
    elif cq:
        out.append(('refute', cg.iter, "column count " + cq[2] + ": a longer row among the others has columns without a width"))
    else:
        out.append(('undecided', cg.iter, f"column count iterates `{src(cg.iter)}`, not the rows of the table"))
    return out


def _widths_elem(w, W):
    """w is a comprehension that yields one value per entry of the width map W, in index order:
    (element expression, expression of the stored width inside it) else None"""
    if isinstance(w, ast.Call) and isinstance(w.func, ast.Name) and w.func.id in ('list', 'tuple') and len(w.args) == 1:
        w = w.args[0]
    if not (isinstance(w, (ast.ListComp, ast.GeneratorExp)) and len(w.generators) == 1 and not w.generators[0].ifs):
        return None
    g = w.generators[0]
    if not isinstance(g.target, ast.Name):
        return None
    if match(f"{W}.values()", g.iter) or match(f"list({W}.values())", g.iter):
        return w.elt, ast.Name(id=g.target.id, ctx=ast.Load())
    if any(match(p, g.iter) for p in (f"range(len({W}))", f"range(0, len({W}))", f"sorted({W})", f"sorted({W}.keys())")):
        return w.elt, ast.Subscript(value=ast.Name(id=W, ctx=ast.Load()), slice=ast.Name(id=g.target.id, ctx=ast.Load()), ctx=ast.Load())
    inner = _widths_elem(g.iter, W)
    if inner is not None:
        return subst(w.elt, {g.target.id: inner[0]}), inner[1]
    return None


def _narrowed(elt, val):
    """text when the element makes the width smaller than the stored maximum `val` (min(val, cap), val - k), else None"""
    args = facts.flatten_lattice(elt, 'min')
    if args is not None and any(same(a, val) for a in args):
        caps = [a for a in args if not same(a, val)]
        return "capped at `" + ', '.join(src(a) for a in caps) + "`"
    if isinstance(elt, ast.BinOp) and isinstance(elt.op, ast.Sub) and same(elt.left, val) and facts.const_num(elt.right):
        return f"reduced by {src(elt.right)}"
    if isinstance(elt, ast.IfExp):
        # `v if v < K else K` / `K if v > K else v`: min(v, K) spelled as a conditional expression
        c = cmp_oriented(elt.test, True, lambda x: same(x, val))
        if c and c[1] in ('<', '<=', '>', '>='):
            small, big = (elt.body, elt.orelse) if c[1] in ('<', '<=') else (elt.orelse, elt.body)
            if same(small, val) and same(big, c[2]):
                return f"capped at `{src(c[2])}`"
    return None


def _row_render(ctx):
    prog = ctx.prog
    o = ctx.ob('width_row_emits_every_column', 'R13',
               "_TextTableRow.repr emits exactly one cell per entry of `width` on every path (blank when the row has no such "
               "cell), borders the same number of times for every row", floor=5)
    o2 = ctx.ob('width_cell_padded_to_column', 'R8',
                "every emitted cell is colored_text(' ' + cells[i].text + ' ', width[i] + 2, ..): the pad width is the column "
                "width plus the length of the decoration, the same for present and missing cells", floor=2)

    def run(_):
        f, padf = prog.func(ROW_REPR), prog.func(PAD)
        sn = f.self_name
        if len(f.params) < 2 or len(padf.params) < 2:
            o.undecided(f, f.node, 'signature', "unexpected signature of _TextTableRow.repr / colored_text")
            return
        wp = f.params[1]
        bp = f.params[2] if len(f.params) > 2 else None
        cfg = cfg_of(f)
        ex = Expander(prog, f, ctx.typer)
        acc = Accumulator(f)
        if acc.problem:
            o.undecided(f, f.node, 'repr', acc.problem)
            return
        _acc_returns(o, f, acc, "the rendered row")

        state = {'assume': {}}

        def leaf_kind(xv):
            has_text = any(isinstance(x, ast.Attribute) and x.attr == 'text' for x in ast.walk(xv))
            if isinstance(xv, ast.Call) and isinstance(xv.func, ast.Name) and xv.func.id == padf.name:
                b = bind_args(xv, padf)
                wd = b.get(padf.params[1]) if b else None
                return 'cell' if has_text or (wd is not None and mentions(wd, wp)) else 'border'
            if has_text:
                return 'rawcell'
            return 'border' if const_str(xv) is not None else 'other'

        def leaves(xv):
            """an emitted (expanded) expression as the alternatives of what it contributes: [[(kind, expr)], ..] - one list
            of texts per way the conditional expressions inside it can evaluate"""
            if isinstance(xv, ast.IfExp):
                t = truth(xv.test, state['assume'])
                if t is True:
                    return leaves(xv.body)
                if t is False:
                    return leaves(xv.orelse)
                return leaves(xv.body) + leaves(xv.orelse)
            if const_str(xv) == '':
                return [[]]
            ps = parts_of(xv)
            if len(ps) > 1 and not any(isinstance(q, ast.FormattedValue) for q in ps):
                out = [[]]
                for q in ps:
                    out = [a + b for a in out for b in leaves(q)][:64]
                return out
            return [[(leaf_kind(xv), xv)]]

        def kinds(node):
            """every text the statement appends: [(kind, original expr, cfg node, expanded expr, certain, slot no, alternative no)]
            (kind None: the alternative appends nothing)"""
            e = acc.emitted(node)
            if e is None:
                return None
            at = cfg.node_of(node) or cfg.node_containing(node)
            sub = _enumerate_subst(cfg.enclosing_fors(at), ex, cfg) if at is not None else {}
            out = []
            for si, part in enumerate(parts_of(e) or [e]):
                ai = 0
                for v, vat in value_set(f, part, at):
                    xv = ex.expand(v, vat)
                    if sub:
                        xv = subst(xv, sub)
                    for alt in leaves(xv):
                        for kind, leaf in alt:
                            out.append((kind, v, vat, leaf, True, si, ai))
                        if not alt:
                            out.append((None, v, vat, xv, True, si, ai))
                        ai += 1
            return out

        def classify(node, g):
            ks = kinds(node)
            if ks is None:
                return None
            em = {}
            for ev, members in (('cell', ('cell', 'rawcell')), ('border', ('border',)), ('other', ('other',))):
                lo = hi = 0
                for si in sorted({k[5] for k in ks}):
                    alts = {}
                    for k in [k for k in ks if k[5] == si]:
                        a = alts.setdefault(k[6], [0, 0])
                        if k[0] in members:
                            a[1] += 1
                            a[0] += 1 if k[4] else 0
                    # alternatives of one slot that contribute nothing of this kind still count as 0
                    n_alts = {k[6] for k in ks if k[5] == si}
                    vals = [tuple(alts.get(ai, (0, 0))) for ai in n_alts]
                    lo += min(v[0] for v in vals)
                    hi += max(v[1] for v in vals)
                if hi:
                    em[ev] = {(): (lo, hi)}
            return em or None

        # the column loop
        probe = Counter(ctx, classify=classify)
        probe.summary(f, (), {})
        cell_nodes = [n for _g, n in probe.event_nodes.get('cell', [])]
        if not cell_nodes:
            if probe.event_nodes.get('border') or probe.event_nodes.get('other'):
                o.refute(f, f.node, 'no cell emission', "_TextTableRow.repr appends no cell text to its result")
            else:
                o.undecided(f, f.node, 'no emission', f"nothing is appended to the returned variable `{acc.name}`: the way the row text is "
                                                      f"built is not understood")
            return
        loops = []
        for n in cell_nodes:
            cn = cfg.node_of(n) or cfg.node_containing(n)
            fs = cfg.enclosing_fors(cn)
            if not fs:
                o.undecided(f, n, n, "a cell is emitted outside a loop over the columns")
                return
            if not any(fs[-1] is l for l in loops):
                loops.append(fs[-1])
        loop_ok = True
        idx = None
        pair = _zip_remainder_pair(loops, wp, sn, cfg)
        if pair:
            idx = '__i'
            o.site(f, loops[0], f"columns with a cell: `{src(loops[0].iter)}`, the remaining ones: `{src(loops[1].iter)}` - together one "
                                f"round per entry of `{wp}`")
        for lp in ([] if pair else loops):
            tgt = lp.target
            idx = tgt.id if isinstance(tgt, ast.Name) else (tgt.elts[0].id if isinstance(tgt, ast.Tuple) and isinstance(tgt.elts[0], ast.Name) else None)
            q = _index_loop(lp, idx, lambda b: bool(match(f"len({wp})", b)), 'column') if idx else None
            if q == 'ok':
                o.site(f, lp, f"for {idx} in {src(lp.iter)}")
            elif q:
                o.refute(f, lp, lp.iter, q[1])
                loop_ok = False
            else:
                r = range_over(lp.iter)
                if r and is_zero(r[0]) and (match(f"len({sn}.cells)", r[1]) or match(f"len({sn})", r[1])) or match(f"enumerate({sn}.cells)", lp.iter) \
                        or match(f"{sn}.cells", lp.iter):
                    o.refute(f, lp, lp.iter, f"the row emits one cell per cell it owns (`{src(lp.iter)}`), not one per entry of `{wp}`: rows "
                                             f"with fewer cells are shorter than the others")
                else:
                    o.undecided(f, lp, lp.iter, f"column loop `{src(lp.iter)}` is not a loop over the indexes of `{wp}`")
                loop_ok = False
        for val in ((True, False) if bp else (None,)):
            state['assume'] = {bp: val} if bp else {}
            c = Counter(ctx, classify=classify)
            em = c.summary(f, (), {bp: val} if bp else {})
            tag = f"border={'on' if val else 'off'}" if bp else 'all paths'
            if '!irregular' in em or 'other' in em:
                o.undecided(f, f.node, f"emissions {tag}", "the row appends something that is neither a padded cell nor a constant border, "
                                                           "or leaves its loop early: " + '; '.join(c.notes))
                continue
            if loop_ok and pair:
                want_cells = {(c.loop_atom(f, lp),): (1, 1) for lp in loops}
                _verdict(o, f, f.node, f"cell per column {tag}", f"[{tag}] a cell is appended", em.get('cell', {}), want_cells)
            elif loop_ok:
                _verdict(o, f, f.node, f"cell per column {tag}", f"[{tag}] a cell is appended", em.get('cell', {}), {(wp,): (1, 1)})
            bc = c_norm(em.get('border', {}))
            row_tests = []
            if any(lo != hi for lo, hi in bc.values()):
                for _g, bn in c.event_nodes.get('border', []):
                    bcn = cfg.node_of(bn) or cfg.node_containing(bn)
                    tests = [t for t, _p in cfg.conditions(bcn)] if bcn is not None else []
                    e_ = acc.emitted(bn)
                    if e_ is not None:
                        for v_, vat_ in value_set(f, e_, bcn):
                            tests += [x.test for x in ast.walk(ex.expand(v_, vat_)) if isinstance(x, ast.IfExp)]
                    row_tests += [t for t in tests if mentions(t, sn)]
            if row_tests:
                o.refute(f, f.node, row_tests[0], f"[{tag}] a border is appended only when `{src(row_tests[0])}` holds for this row "
                                                  f"({fmt_count(bc)}): rows get different widths")
            elif any(lo != hi for lo, hi in bc.values()):
                o.undecided(f, f.node, f"border {tag}", f"[{tag}] the border is appended {fmt_count(bc)}: it may differ from row to row")
            else:
                o.site(f, f.node, f"[{tag}] border appended {fmt_count(bc)}")

        # content of the cells
        state['assume'] = {bp: True} if bp else {}
        wds = []
        for n in cell_nodes:
            for kind, v, vat, xv, _c, _s, _a in kinds(n):
                if kind in ('border', 'other', None):
                    continue
                if kind == 'rawcell':
                    o2.refute(f, n, v, f"cell text `{src(xv)[:80]}` is appended without colored_text(): it is not padded to the column width")
                    continue
                if kind != 'cell':
                    o2.undecided(f, n, v, f"`{src(xv)[:80]}` is appended in place of a cell")
                    continue
                b = bind_args(xv, padf)
                text, wd = b.get(padf.params[0]), b.get(padf.params[1])
                m = match(f"{wp}[$i] + $k", wd) or match(f"$k + {wp}[$i]", wd) or match(f"{wp}[$i]", wd)
                k = facts.const_num(m['k']) if m and 'k' in m else (0 if m else None)
                if not m or k is None:
                    if m is None and isinstance(wd, ast.BinOp) and isinstance(wd.op, ast.Sub) and match(f"{wp}[$i]", wd.left):
                        o2.refute(f, n, wd, f"cell is padded to `{src(wd)}`: narrower than the column plus its decoration")
                    else:
                        o2.undecided(f, n, wd, f"pad width `{src(wd)}` is not `{wp}[i] + constant`")
                    continue
                if isinstance(m['i'], ast.Name) and m['i'].id == '__i' and idx != '__i':
                    o2.undecided(f, n, wd, f"the pad width `{src(v)[:60]}` comes from a zip / slice loop the rule cannot align with the columns")
                    continue
                if not (isinstance(m['i'], ast.Name) and m['i'].id == idx):
                    o2.refute(f, n, wd, f"cell of column `{idx}` is padded to the width of column `{src(m['i'])}`")
                    continue
                cell_init = prog.func('utils._TextTableCell.__init__')
                textn = _norm_cell_text(text, cell_init)
                for _cs, parts in cases_of(textn):
                    # str methods applied to the cell text while rendering: the widths were measured from the raw text
                    chains = [(p, _text_chain(p, lambda r_: isinstance(r_, ast.Attribute) and r_.attr == 'text')) for p in parts]
                    chains = [(p, ch) for p, ch in chains if ch]
                    if chains:
                        p, ch = chains[0]
                        bad_ = [c_ for c_ in ch if c_[0] in ('longer', 'strip')]
                        if bad_ and bad_[0][0] == 'longer':
                            o2.refute(f, n, p, f"the cell text is changed by `{src(bad_[0][1])[:80]}` while the row is rendered, but the column "
                                               f"widths were measured from the raw cell text: {bad_[0][2]}, so such a cell is wider than its column")
                        elif bad_:
                            o2.refute(f, n, p, f"the cell text is stripped (`{src(bad_[0][1])[:60]}`) while the row is rendered: leading spaces - "
                                               f"the indentation of a name cell - are removed")
                        else:
                            o2.undecided(f, n, p, f"the cell text is transformed by `{src(p)[:80]}` while the row is rendered; the widths were "
                                                  f"measured from the raw text")
                        continue
                    tparts = [p for p in parts if isinstance(p, ast.Attribute) and p.attr == 'text']
                    consts = [const_str(p) for p in parts if not any(p is t for t in tparts)]
                    if any(cst is None for cst in consts) or len(tparts) > 1:
                        o2.undecided(f, n, text, f"cell text `{src(text)[:80]}` is not constants around one cell text")
                        continue
                    L = sum(len(cst) for cst in consts)
                    if tparts:
                        cell = _cell_of(tparts[0].value)
                        if cell is None or not (match(sn, cell[0])):
                            o2.undecided(f, n, text, f"`{src(tparts[0])}` is not the text of a cell of this row")
                            continue
                        if isinstance(cell[1], ast.Name) and cell[1].id == '__i' and idx != '__i':
                            o2.undecided(f, n, text, "the cell comes from a zip / slice loop the rule cannot align with the columns")
                            continue
                        if not (isinstance(cell[1], ast.Name) and cell[1].id == idx):
                            o2.refute(f, n, text, f"column `{idx}` prints cell `{src(cell[1])}`")
                            continue
                        if k < L:
                            o2.refute(f, n, wd, f"the cell text is len(text) + {L} characters but is padded to `{src(wd)}`: the longest cell of a "
                                                f"column overflows it, lines get different widths")
                            continue
                        if k > L:
                            o2.undecided(f, n, wd, f"cells are padded to `{src(wd)}`, wider than the decoration ({L}) needs")
                            continue
                        o2.site(f, n, f"colored_text({src(ast.fix_missing_locations(tparts[0]))} + {L} characters, {src(wd)}, ..)")
                    else:
                        if L > k:
                            o2.refute(f, n, wd, f"a missing cell prints {L} characters but is padded to `{src(wd)}` only")
                            continue
                        o2.site(f, n, f"missing cell: {L} characters padded to {src(wd)}")
                wds.append((n, wd))
        for n, wd in wds[1:]:
            if not same(wd, wds[0][1]):
                o2.refute(f, n, wd, f"present and missing cells are padded to different widths (`{src(wds[0][1])}` vs `{src(wd)}`)")
        # constant borders: text not longer than its width
        for n in [x for _g, x in probe.event_nodes.get('border', [])]:
            for kind, v, vat, xv, _c, _s, _a in kinds(n):
                if kind == 'border' and isinstance(xv, ast.Call):
                    b = bind_args(xv, padf)
                    t, wd = const_str(b.get(padf.params[0])), facts.const_num(b.get(padf.params[1]))
                    if t is None or wd is None:
                        o.undecided(f, n, v, f"border `{src(xv)[:80]}` is not a constant text with a constant width")
                    elif len(t) > wd:
                        o.refute(f, n, v, f"border text {t!r} is longer than its width {wd}")
    ctx.guarded(o, run)


def _pad(ctx):
    prog = ctx.prog
    o = ctx.ob('width_pad_on_every_return', 'R8',
               "colored_text returns text + ' ' * (width - len(text)) on every return path, wrapped in colour codes only", floor=2)

    def run(o):
        f = prog.func(PAD)
        tp, wp = f.params[0], f.params[1]
        ex = Expander(prog, f, ctx.typer)
        cfg = cfg_of(f)
        rets = [n for n in walk_no_nested(f.node) if isinstance(n, ast.Return)]
        if not rets:
            o.refute(f, f.node, 'no return', "colored_text returns nothing")
        for r in rets:
            if not cfg.is_reachable(cfg.node_of(r)):
                continue
            if r.value is None:
                o.refute(f, r, r, "colored_text returns None on this path")
                continue
            v = ex.expand(r.value, cfg.node_of(r))
            for cs, parts in cases_of(v):
                conds = ', '.join(facts.cond_texts(cfg.conditions(cfg.node_of(r)) + cs)) or 'always'
                _pad_case(o, f, r, v, parts, conds, tp, wp)
    ctx.guarded(o, run)


def _pad_case(o, f, r, v, parts, conds, tp, wp):
    shown = ' + '.join(src(p) for p in parts) or "''"
    j = next((i for i, p in enumerate(parts) if isinstance(p, ast.Name) and p.id == tp), None)
    lj = next((i for i, p in enumerate(parts) if match(f"{tp}.ljust({wp})", p) or match(f"{tp}.ljust({wp}, ' ')", p)), None)
    wrong_lj = next((p for p in parts if match(f"{tp}.ljust($*a)", p)), None)
    if j is None and lj is None and wrong_lj is not None:
        o.refute(f, r, wrong_lj, f"the text is padded by `{src(wrong_lj)}`, expected padding with spaces to exactly `{wp}`")
        return
    tpat = tp
    if j is None and lj is None:
        # the text is transformed before it is padded: text.replace(..).expandtabs() ...
        for i, p in enumerate(parts):
            chain = _text_chain(p, tp)
            if chain:
                j = i
                break
        if j is None:
            o.undecided(f, r, r, f"returned value `{src(v)[:100]}` does not contain the text parameter as a part of a concatenation")
            return
        longer = [c_ for c_ in chain if c_[0] == 'longer']
        strips = [c_ for c_ in chain if c_[0] == 'strip']
        if longer:
            o.refute(f, r, parts[j], f"the text is changed by `{src(longer[0][1])[:110]}` before it is padded, but the column widths were "
                                      f"measured from the raw cell text: {longer[0][2]}, so such a cell is wider than its column and its "
                                      f"line longer than the others")
            return
        if strips:
            o.refute(f, r, parts[j], f"the text is stripped (`{src(strips[0][1])[-40:]}`) before it is padded: leading spaces - the "
                                      f"three-spaces-per-level indentation of a name cell - are removed")
            return
        if any(c_[0] == 'unknown' for c_ in chain):
            o.undecided(f, r, parts[j], f"the text is transformed by `{src(parts[j])[:80]}` before it is padded; the rule cannot tell whether "
                                        f"its length still fits the measured column width")
            return
        tpat = src(parts[j])        # length-preserving or shortening only: the padded text is the transformed one
    if lj is not None:
        before, after = parts[:lj], parts[lj + 1:]
    else:
        nxt = parts[j + 1] if j + 1 < len(parts) else None
        verdict = _pad_part(nxt, tpat, wp, tp)
        if verdict is None and j > 0 and _pad_part(parts[j - 1], tpat, wp, tp) == 'ok':
            o.refute(f, r, parts[j - 1], f"the return under [{conds}] yields `{shown[:80]}`: the padding is put in FRONT of the text (right "
                                         f"aligned), so the text no longer starts at the column's left edge and a name cell loses its "
                                         f"three-spaces-per-level indentation")
            return
        if verdict is None:
            o.refute(f, r, r, f"the return under [{conds}] yields `{shown[:80]}`: the text is not padded to `{wp}` on this path, "
                              f"so the cell is narrower than its column")
            return
        if verdict != 'ok':
            o.refute(f, r, nxt, verdict)
            return
        before, after = parts[:j], parts[j + 2:]
    bad = False
    for p in before + after:
        cs = const_str(p)
        if cs is not None:
            if not (cs.startswith('\x1b') or cs in (':', ';')):
                o.refute(f, r, p, f"visible text {cs!r} is added outside the padded text: the cell is wider than its column")
                bad = True
        elif mentions(p, tp) or mentions(p, wp):
            o.undecided(f, r, p, f"part `{src(p)}` of the returned value depends on the text / width")
            bad = True
    if any(const_str(p) is None for p in before + after) and not (before and (const_str(before[0]) or '').startswith('\x1b')):
        o.undecided(f, r, r, "non-constant parts around the padded text without a leading escape sequence")
        bad = True
    if not bad:
        o.site(f, r, f"[{conds}] returns {shown[:90]}")


def _norm_cell_text(e, cell_init):
    """(A if c else B).text -> A.text if c else B.text;  _TextTableCell(T, ..).text -> T  (the constructor stores its text
    argument unchanged - checked by width_table_plumbing)"""
    import copy as _copy

    class Tr(ast.NodeTransformer):
        def visit_Attribute(self, n):
            self.generic_visit(n)
            if isinstance(n.value, ast.IfExp):
                mk = lambda v: self.visit(ast.Attribute(value=v, attr=n.attr, ctx=ast.Load()))
                return ast.IfExp(test=n.value.test, body=mk(n.value.body), orelse=mk(n.value.orelse))
            if n.attr == 'text' and isinstance(n.value, ast.Call) and isinstance(n.value.func, ast.Name) and n.value.func.id == '_TextTableCell':
                b = bind_args(n.value, cell_init, drop_self=True)
                tpar = cell_init.params[1] if len(cell_init.params) > 1 else None
                if b and tpar in b:
                    return b[tpar]
            return n
    return Tr().visit(_copy.deepcopy(e))


def _text_chain(p, tp):
    """p is the text parameter sent through str methods (`text.replace(a, b).expandtabs()`): the steps, outermost first, as
    ('same' | 'shorter' | 'longer' | 'strip' | 'unknown', call node, explanation); None when p is not such a chain"""
    out = []
    e = p
    while isinstance(e, ast.Call) and isinstance(e.func, ast.Attribute):
        name, args = e.func.attr, e.args
        if name == 'replace' and len(args) == 2 and const_str(args[0]) is not None and const_str(args[1]) is not None:
            a, b = const_str(args[0]), const_str(args[1])
            if len(b) > len(a):
                out.append(('longer', e, f"every {a!r} becomes the {len(b)} characters {b!r}"))
            else:
                out.append(('same' if len(a) == len(b) else 'shorter', e, ''))
        elif name == 'expandtabs':
            out.append(('longer', e, "every tab becomes up to 8 spaces"))
        elif name in ('strip', 'lstrip'):
            out.append(('strip', e, ''))
        elif name == 'rstrip':
            out.append(('shorter', e, ''))
        elif name in ('upper', 'lower', 'title', 'capitalize', 'casefold', 'swapcase'):
            out.append(('longer', e, f"some characters change their length under .{name}() ('\u00df'.upper() == 'SS')"))
        else:
            out.append(('unknown', e, ''))
        e = e.func.value
    if out and (tp(e) if callable(tp) else (isinstance(e, ast.Name) and e.id == tp)):
        return out
    return None


def _pad_part(p, tp, wp, tp_name=None):
    """'ok' | refutation text | None (not a padding term); tp: source text of the padded text expression"""
    tp_name = tp_name or tp
    if p is None or not (isinstance(p, ast.BinOp) and isinstance(p.op, ast.Mult)):
        return None
    a, b = p.left, p.right
    if const_str(a) is None and const_str(b) is not None:
        a, b = b, a
    s = const_str(a)
    if s is None:
        return None
    if match(f"{wp} - len({tp})", b):
        if s != ' ':
            return f"padding repeats {s!r} instead of one space per missing character"
        return 'ok'
    m = match(f"max($*x)", b)
    if m and len(m['x']) == 2 and any(match(f"{wp} - len({tp})", x) for x in m['x']) and any(is_zero(x) for x in m['x']):
        return 'ok' if s == ' ' else f"padding repeats {s!r} instead of one space per missing character"
    if mentions(b, wp) and mentions(b, tp_name):
        return f"padding is `{src(p)}`: the text is padded to a width different from `{wp}`"
    if mentions(b, wp) or mentions(b, tp_name):
        return f"padding is `{src(p)}`, expected ' ' * ({wp} - len({tp}))"
    return None



# =========================================================================================================== plumbing
def _plumbing(ctx):
    prog = ctx.prog
    o = ctx.ob('width_table_plumbing', 'R13',
               "new_row appends exactly one fresh row and makes it current; new_cell / add_cell store exactly one cell holding "
               "the given text in the current row, unconditionally; len(row) and get_cell(i) read the same cell list", floor=11)

    def one_call(f, pattern, what, expected_atom=None):
        """exactly one call matching pattern on every path of f -> the call node, else None (verdict recorded)"""
        hits = []

        ex1, cfg1 = Expander(prog, f, ctx.typer), cfg_of(f)

        def classify(node, g):
            if isinstance(node, ast.Call) and isinstance(node.func, ast.Attribute) and g is f:
                # the receiver may be a local alias (`row = self.__current_row; row.add_cell(..)`)
                recv = ex1.expand(node.func.value, cfg1.node_containing(node))
                probe = ast.Call(func=ast.Attribute(value=recv, attr=node.func.attr, ctx=ast.Load()), args=node.args, keywords=node.keywords)
                if match(pattern, probe):
                    hits.append(node)
                    return 'hit'
            return None
        c = Counter(ctx, classify=classify, track_tables=False)
        em = c.summary(f, (), {})
        if '!irregular' in em:
            o.undecided(f, f.node, what, "loop left early / try around the call")
            return None
        if not hits:
            # nothing matched at all: only a function without any other call on self / its attributes is understood completely
            others = [n for n in walk_no_nested(f.node) if isinstance(n, ast.Call) and isinstance(n.func, ast.Attribute)
                      and root_name(n.func.value) == f.self_name]
            if others:
                o.undecided(f, others[0], what, f"{what} not found; `{src(others[0])[:70]}` may do it in a way the rule cannot follow")
                return None
        if not _verdict(o, f, f.node, what, what, em.get('hit', {}), c_const(1)):
            return None
        return hits[0]

    def run(o):
        new_row, new_cell = prog.func('utils.TextTable.new_row'), prog.func('utils.TextTable.new_cell')
        add_cell = prog.func('utils._TextTableRow.add_cell')
        cell_init = prog.func('utils._TextTableCell.__init__')
        row_init, tab_init = prog.func('utils._TextTableRow.__init__'), prog.func('utils.TextTable.__init__')
        # new_row
        sn = new_row.self_name
        c = one_call(new_row, f"{sn}._TextTable__rows.append($x)", "new_row: rows.append")
        if c is not None:
            cfg = cfg_of(new_row)
            ex = Expander(prog, new_row, ctx.typer)
            x = c.args[0]
            xv = ex.expand(x, cfg.node_containing(c))
            stores = facts.attr_stores(new_row, '_TextTable__current_row')
            if not (isinstance(xv, ast.Call) and isinstance(xv.func, ast.Name) and xv.func.id == '_TextTableRow'):
                o.refute(new_row, c, x, f"new_row appends `{src(xv)}`, not a fresh _TextTableRow")
            elif len(stores) != 1:
                o.refute(new_row, new_row.node, 'current row', "new_row does not set the current row exactly once: cells go to an older row")
            else:
                st, tgt, val = stores[0]
                stn = cfg.node_of(st)
                cur = f"{sn}._TextTable__current_row"
                if cfg.conditions(stn):
                    o.refute(new_row, st, st, "the current row is replaced only under a condition")
                elif (match(cur, x) and cfg.dominates(stn, cfg.node_containing(c))) or \
                        (isinstance(x, ast.Name) and isinstance(val, ast.Name) and x.id == val.id):
                    o.site(new_row, st, "the appended row is the new current row")
                elif match(cur, x):
                    o.refute(new_row, c, c, "the row list receives the previous current row: the new row is appended too late")
                else:
                    o.refute(new_row, c, x, "the appended row and the current row are different objects: cells never reach the printed row")
        # new_cell -> add_cell
        sn = new_cell.self_name
        c = one_call(new_cell, f"{sn}._TextTable__current_row.add_cell($*a)", "new_cell: current_row.add_cell")
        if c is not None:
            b = bind_args(c, add_cell, drop_self=True)
            a = b.get(add_cell.params[1]) if b else None
            if isinstance(a, ast.Name) and a.id == new_cell.params[1] and not flow_of(new_cell).defs_of(a.id)[1:]:
                o.site(new_cell, c, "text handed on")
            else:
                o.refute(new_cell, c, c, f"new_cell stores `{src(a) if a is not None else '?'}` instead of the given text")
        # add_cell -> cells.append(_TextTableCell(text, ..))
        sn = add_cell.self_name
        c = one_call(add_cell, f"{sn}.cells.append($x)", "add_cell: cells.append")
        if c is not None:
            ex = Expander(prog, add_cell, ctx.typer)
            xv = ex.expand(c.args[0], cfg_of(add_cell).node_containing(c), stop={add_cell.params[1]})
            b = bind_args(xv, cell_init, drop_self=True) if isinstance(xv, ast.Call) and getattr(xv.func, 'id', '') == '_TextTableCell' else None
            a = b.get(cell_init.params[1]) if b else None
            tp = add_cell.params[1]
            if b is None:
                o.undecided(add_cell, c, c, "appended object is not a _TextTableCell(..)")
            elif isinstance(a, ast.Name) and a.id == tp and len(flow_of(add_cell).defs_of(tp)) == 1:
                o.site(add_cell, c, "cell holds the given text")
            else:
                o.refute(add_cell, c, c, f"the stored cell holds `{src(a) if a is not None else '?'}`, not the text given to add_cell")
        # constructors / accessors
        st = facts.attr_stores(cell_init, 'text')
        if len(st) == 1 and isinstance(st[0][2], ast.Name) and st[0][2].id == cell_init.params[1] \
                and not cfg_of(cell_init).conditions(cfg_of(cell_init).node_of(st[0][0])):
            o.site(cell_init, st[0][0], "self.text = text")
        else:
            o.refute(cell_init, cell_init.node, 'self.text', "_TextTableCell does not store the given text unchanged in `.text`")
        for init, attr in ((row_init, 'cells'), (tab_init, '_TextTable__rows')):
            st = facts.attr_stores(init, attr)
            if len(st) == 1 and ((isinstance(st[0][2], ast.List) and not st[0][2].elts) or match("list()", st[0][2])):
                o.site(init, st[0][0], f"{unmangle(attr)} starts empty")
            else:
                o.refute(init, init.node, attr, f"`{unmangle(attr)}` does not start as an empty list")
        ln, gc = prog.func('utils._TextTableRow.__len__'), prog.func('utils._TextTableRow.get_cell')
        for g, pat in ((ln, "len({s}.cells)"), (gc, "{s}.cells[{p}]")):
            rets = [n for n in walk_no_nested(g.node) if isinstance(n, ast.Return)]
            p = pat.format(s=g.self_name, p=g.params[1] if len(g.params) > 1 else '')
            if len(rets) == 1 and rets[0].value is not None and match(p, Expander(prog, g, ctx.typer).expand(rets[0].value)):
                o.site(g, rets[0], p)
            else:
                o.refute(g, g.node, g.name, f"{g.name} is not `return {p}`: width computation and rendering read different cells")
    ctx.guarded(o, run)



# ============================================================================================================== links
def _links(ctx):
    prog = ctx.prog
    o = ctx.ob('links_external_iff_other_wbs', 'R2',
               "__get_linked_task_id prints '' for a None / sentinel link, otherwise the linked task's id, followed by "
               "'(external)' iff linked.wbs != task.wbs - no further condition", floor=4)
    o2 = ctx.ob('links_columns', 'R10',
                "predecessors / successors columns list one linked id per element of t.predecessors / t.successors in order, "
                "the parent column prints the id of t.parent, all relative to the printed task", floor=5)

    # the value the module constant EMPTY_TASK_ID currently has (the Expander replaces the name by it): whatever it is, the
    # guard `linked.id == EMPTY_TASK_ID` is the guard against the hidden root
    sentinel_values = []
    for mod_ in prog.modules.values() if hasattr(prog, 'modules') else []:
        for st_ in getattr(mod_, 'tree', ast.Module(body=[], type_ignores=[])).body:
            if isinstance(st_, ast.Assign) and any(isinstance(t_, ast.Name) and t_.id == 'EMPTY_TASK_ID' for t_ in st_.targets):
                sentinel_values.append(st_.value)

    def atoms_for(tp, lp):
        def is_none_atom(t, pol):
            c = cmp_oriented(t, pol, lambda x: bool(match(lp, x)))
            if c and isinstance(c[2], ast.Constant) and c[2].value is None and c[1] in ('is', '==', 'isnot', '!='):
                return c[1] in ('is', '==')
            return None

        def is_sentinel_atom(t, pol):
            c = cmp_oriented(t, pol, lambda x: bool(match(f"{lp}.id", x)))
            if c and c[1] in ('==', '!=', 'is', 'isnot') and (match("EMPTY_TASK_ID", c[2]) or match("sys.maxsize", c[2])
                                                              or any(same(c[2], v_) for v_ in sentinel_values)):
                return c[1] in ('==', 'is')
            return None

        def ne_atom(t, pol):
            c = cmp_norm(t, pol)
            if not c:
                return None
            l, op, r = c
            if (match(f"{lp}.wbs", l) and match(f"{tp}.wbs", r)) or (match(f"{tp}.wbs", l) and match(f"{lp}.wbs", r)):
                if op in ('!=', 'isnot'):
                    return True
                if op in ('==', 'is'):
                    return False
            return None
        return is_none_atom, is_sentinel_atom, ne_atom

    def link_expr(o, f, r, v, conds0, tp, lp, st):
        """one expression v (already expanded) that prints the link lp of task tp, evaluated under conds0, at statement r"""
        is_none_atom, is_sentinel_atom, ne_atom = atoms_for(tp, lp)
        for cs, parts in cases_of(v):
            conds = conds0 + cs
            if not parts:
                for t, p in conds:
                    for a, ap in split_disj(t, p):
                        if is_none_atom(a, ap) is True:
                            st['none'] = r
                        if is_sentinel_atom(a, ap) is True:
                            st['sentinel'] = r
                continue
            head = parts[0]
            m = match("str($x)", head)
            if m:
                head = m['x']
            if match(f"{tp}.id", head):
                o.refute(f, r, parts[0], f"the column prints `{src(head)}` - the id of the printed task itself, not of the linked task")
                continue
            if not match(f"{lp}.id", head):
                o.undecided(f, r, r, f"returned text `{src(v)[:80]}` does not start with the linked task's id")
                continue
            tail = [const_str(p) for p in parts[1:]]
            if any(x is None for x in tail):
                o.undecided(f, r, r, f"returned text `{src(v)[:80]}` has non-constant parts after the id")
                continue
            marker = ''.join(tail)
            if marker not in ('', '(external)'):
                o.refute(f, r, marker, f"the id is followed by {marker!r}; expected '(external)' or nothing")
                continue
            atoms = []
            for t, p in conds:
                atoms += facts.split_conj(t, p)
            rest = [(a, p) for a, p in atoms if is_none_atom(a, p) is not False and is_sentinel_atom(a, p) is not False]
            nes = [ne_atom(a, p) for a, p in rest]
            others = [(a, p) for (a, p), n in zip(rest, nes) if n is None]
            ctext = ' and '.join(facts.cond_texts(rest)) or 'always'
            want = marker == '(external)'
            kind = 'ext' if want else 'int'
            if others or not nes or any(n is not want for n in nes):
                exp = f"{lp}.wbs != {tp}.wbs" if want else f"{lp}.wbs == {tp}.wbs"
                what = "with the '(external)' marker" if want else "without the '(external)' marker"
                extra = (" (additional condition: " + ', '.join(facts.cond_texts(others)) + ")") if others and any(n is want for n in nes) else ''
                o.refute(f, r, f"{kind}: {ctext}", f"the linked id is printed {what} under `{ctext}`{extra}; expected exactly `{exp}`")
                st[kind] += 1
                continue
            st[kind] += 1
            o.site(f, r, f"{'id(external)' if want else 'id'} under {ctext}")

    def link_finish(o, f, r, lp, st):
        if not st['ext'] and st['int']:
            o.refute(f, r, 'no marker', "no return path appends '(external)': links that leave the WBS are not marked")
        if not st['int'] and st['ext']:
            o.refute(f, r, 'always marker', "no return path prints the bare id: links inside the WBS are marked as external")
        if not st['ext'] and not st['int'] and not o.unknown and not o.refuted:
            o.undecided(f, r, 'linked id', "no return of the linked id found")
        if st['none']:
            o.site(f, st['none'], "'' for a None link")
        elif not o.unknown:
            o.refute(f, r, 'None link', f"no `return ''` guarded by `{lp} is None`: a task without parent cannot be printed")
        if st['sentinel']:
            o.site(f, st['sentinel'], "'' for the sentinel (EMPTY_TASK_ID) parent")
        elif not o.unknown:
            o.refute(f, r, 'sentinel link', f"no `return ''` guarded by `{lp}.id == EMPTY_TASK_ID`: the hidden WBS root is printed as a parent id")

    def one(o):
        H = _link_helpers(ctx)
        if H['one'] is None:
            if not H['inline']:
                fv = prog.func(FIELD_VALUE)
                o.undecided(fv, fv.node, 'linked id', "neither __get_linked_task_id nor an inlined linked-id expression found")
            for g, node, v, tp, lp in H['inline']:
                st = {'none': False, 'sentinel': False, 'ext': 0, 'int': 0}
                link_expr(o, g, node, v, [], tp, lp, st)
                link_finish(o, g, node, lp, st)
            return
        f = H['one']
        tp, lp = f.params[0], f.params[1]
        cfg = cfg_of(f)
        ex = Expander(prog, f, ctx.typer)
        st = {'none': False, 'sentinel': False, 'ext': 0, 'int': 0}
        rets = [n for n in walk_no_nested(f.node) if isinstance(n, ast.Return)]
        for r in rets:
            rn = cfg.node_of(r)
            if not cfg.is_reachable(rn):
                continue
            conds0 = [(ex.expand(t, cfg.node_containing(t)), p) for t, p in cfg.conditions(rn)]
            if r.value is None:
                o.refute(f, r, r, "a link is printed as None")
                continue
            link_expr(o, f, r, ex.expand(r.value, rn), conds0, tp, lp, st)
        link_finish(o, f, f.node, lp, st)
    ctx.guarded(o, one)

    def cols(o):
        H = _link_helpers(ctx)
        many, fv = H['many'], prog.func(FIELD_VALUE)
        one_pat, many_pat = H['one_pat'], H['many_pat']
        if many is None and not H['inline_many']:
            o.undecided(fv, fv.node, 'linked ids', "the helper that lists the linked ids (called with (t, t.predecessors)) was not found")
            return

        def as_one(xv, targets):
            """bindings {a: task expr, b: linked expr} when xv prints one linked id"""
            if one_pat is not None:
                return match(one_pat, xv)
            for tg in targets:
                if isinstance(tg, ast.Name) and any(match(f"{tg.id}.id", x) for x in ast.walk(xv)):
                    tname = many.params[0] if many is not None else fv.params[0]
                    uses_task = any(match(f"{tname}.wbs", x) for x in ast.walk(xv))
                    return {'a': ast.Name(id=tname if uses_task else '?', ctx=ast.Load()), 'b': tg}
            return None
        # ---- list of ids
        done = many is None          # folded into __get_field_value: the join is judged per column below
        rets = []
        if many is not None:
            tp, lp = many.params[0], many.params[1]
            cfg = cfg_of(many)
            ex = Expander(prog, many, ctx.typer, inline=False)
            rets = [n for n in walk_no_nested(many.node) if isinstance(n, ast.Return) and n.value is not None]
        if len(rets) == 1:
            m = match("$s.join($c)", ex.expand(rets[0].value, cfg.node_of(rets[0])))
            if m and isinstance(m['c'], (ast.GeneratorExp, ast.ListComp)) and len(m['c'].generators) == 1:
                done = True
                g = m['c'].generators[0]
                mm = as_one(m['c'].elt, [g.target])
                if g.ifs:
                    o.refute(many, rets[0], m['c'], "linked ids are filtered: some links are not printed")
                elif not (isinstance(g.iter, ast.Name) and g.iter.id == lp):
                    r = _iter_in_order(g.iter, lp)
                    if r and r != 'ok':
                        o.refute(many, rets[0], g.iter, "link loop " + r[2])
                    elif r != 'ok':
                        o.undecided(many, rets[0], g.iter, "link list is not built from the given linked tasks")
                if not mm:
                    o.undecided(many, rets[0], m['c'].elt, "element is not __get_linked_task_id(task, linked)")
                elif not (match(tp, mm['a']) and same(mm['b'], g.target)):
                    o.refute(many, rets[0], m['c'].elt, f"ids are computed by `{src(m['c'].elt)}`, expected (printed task, linked task)")
                elif not const_str(m['s']):
                    o.refute(many, rets[0], m['s'], "linked ids are joined without a separator")
                elif not o.refuted and not o.unknown:
                    o.site(many, rets[0], src(rets[0].value))
                    o.site(many, rets[0], "separator " + repr(const_str(m['s'])))
        if not done:
            acc = Accumulator(many)
            if acc.problem or acc.sep is None:
                o.undecided(many, many.node, many.name, acc.problem or "the id list is not returned as <sep>.join(list)")
            else:
                calls = []

                def classify(node, g):
                    e = acc.emitted(node)
                    if e is None:
                        return None
                    xv = ex.expand(e, cfg.node_containing(node))
                    mm = as_one(xv, [fo.target for fo in cfg.enclosing_fors(cfg.node_containing(node))])
                    if mm:
                        calls.append((node, mm))
                        return 'id'
                    return 'other'
                c = Counter(ctx, classify=classify, track_tables=False)
                em = c.summary(many, (), {})
                if '!irregular' in em or 'other' in em:
                    o.undecided(many, many.node, many.name, "something other than one linked id per link is collected")
                else:
                    _verdict(o, many, many.node, 'one id per link', "a linked id is collected", em.get('id', {}), {(lp,): (1, 1)})
                    for node, mm in calls:
                        cn = cfg.node_containing(node)
                        loop = next((fo for fo in cfg.enclosing_fors(cn) if same(fo.target, mm['b'])), None)
                        r = _iter_in_order(ex.expand(loop.iter, cfg.node_of(loop)), lp) if loop is not None else None
                        if not match(tp, mm['a']) or loop is None:
                            o.refute(many, node, node, f"ids are computed by `{src(node)[:80]}`, expected __get_linked_task_id(printed task, "
                                                       f"linked task of the loop)")
                        elif r == 'ok':
                            o.site(many, node, f"(task, {src(mm['b'])}) for each of {lp}, in order")
                        elif r:
                            o.refute(many, loop, loop.iter, "link loop " + r[2])
                        else:
                            o.undecided(many, loop, loop.iter, "link loop does not iterate the given linked tasks")
                    if acc.sep == '':
                        o.refute(many, many.node, 'separator', "linked ids are joined without a separator")
        # ---- columns
        h = fv
        t, fld = h.params[0], h.params[1]
        cfg = cfg_of(h)
        ex = Expander(prog, h, ctx.typer, inline=False)
        table = {'predecessors': (many_pat, 'predecessors'), 'successors': (many_pat, 'successors'), 'parent': (one_pat, 'parent')}
        found = {k: False for k in table}
        for r, rvalue, rn in [x for x in _virtual_returns(h) if x[1] is not None]:
            keys = []
            for tt, p in cfg.conditions(rn):
                for a, ap in facts.split_conj(ex.expand(tt, cfg.node_containing(tt)), p):
                    q = eq_const(a, ap)
                    if q and q[2] and isinstance(q[0], ast.Name) and q[0].id == fld and q[1] in table:
                        keys = [q[1]]
                    # `field in ('predecessors', 'successors')`: one return for several columns
                    if isinstance(a, ast.Compare) and len(a.ops) == 1 and isinstance(a.ops[0], (ast.In, ast.NotIn)) and isinstance(a.left, ast.Name) \
                            and a.left.id == fld and isinstance(a.comparators[0], (ast.Tuple, ast.List, ast.Set)) \
                            and (isinstance(a.ops[0], ast.In) == ap) and not keys:
                        keys = [const_str(x) for x in a.comparators[0].elts if const_str(x) in table]
            for key in keys:
                _link_column(o, h, r, rn, key, table, found, ex, fld, t, one_pat, many_pat, as_one, rvalue)
        # a dispatch table: `getter = <dict>.get(field)` / `<dict>[field]` ... `return getter(t)`, the dict a literal with
        # constant keys and lambda values (class attribute, module constant or local)
        table_rets = _dispatch_table_returns(prog, h, fld)
        for key, lam, arg, r, rn in table_rets:
            if key in table and not found[key] and len(lam.args.args) == 1:
                body = subst(lam.body, {lam.args.args[0].arg: arg})
                _link_column(o, h, r, rn, key, table, found, ex, fld, t, one_pat, many_pat, as_one, body)
        dynamic = [n for n in walk_no_nested(h.node) if isinstance(n, ast.Call) and isinstance(n.func, (ast.Name, ast.Subscript))
                   and not any(n is x[3].value for x in table_rets)
                   and not (isinstance(n.func, ast.Name) and (n.func.id in ('str', 'isinstance', 'len', 'getattr', 'hasattr', 'repr', 'format', 'vars')
                                                               or not flow_of(h).defs_of(n.func.id)))]
        for k, ok in found.items():
            if not ok:
                if dynamic:
                    o.undecided(h, dynamic[0], f"no branch for {k}", f"__get_field_value answers some columns through `{src(dynamic[0])[:60]}`, a "
                                                                     f"callable picked at run time: the rule cannot see what column '{k}' prints")
                elif any(isinstance(n, ast.Constant) and n.value == k for n in ast.walk(h.node)):
                    o.undecided(h, h.node, f"no branch for {k}", f"__get_field_value mentions '{k}' but not as `if {fld} == '{k}': return ..`: the "
                                                                 f"rule cannot see what that column prints")
                else:
                    o.refute(h, h.node, f"no branch for {k}", f"__get_field_value has no branch for field '{k}' (the name does not occur in it): "
                                                              f"the generic attribute lookup cannot see the relation, the column stays empty")
    ctx.guarded(o2, cols)



def _link_helpers(ctx):
    """the two helpers behind the dependency / parent columns, by anchor name or - when they were moved / renamed - by
    following the calls `X(t, t.predecessors)` in __get_field_value and `Y(task, linked)` in X; when the one-id helper was
    folded into its callers by the normaliser: the inlined expressions [(func, node, expr, task expr, linked expr)]"""
    from sa.model import AnchorMissing
    if getattr(ctx, '_c20_links', None) is not None:
        return ctx._c20_links
    prog = ctx.prog
    helper = Counter(ctx)
    fv = prog.func(FIELD_VALUE)
    t = fv.params[0]
    H = {'one': None, 'many': None, 'one_pat': None, 'many_pat': None, 'inline': [], 'inline_many': []}
    try:
        H['one'] = prog.func(LINK_ONE)
        H['one_pat'] = f"_Repr._Repr{H['one'].name}($a, $b)"
    except AnchorMissing:
        pass
    try:
        H['many'] = prog.func(LINK_MANY)
        H['many_pat'] = f"_Repr._Repr{H['many'].name}($a, $b)"
    except AnchorMissing:
        for c in [n for n in walk_no_nested(fv.node) if isinstance(n, ast.Call)]:
            if len(c.args) == 2 and not c.keywords and match(t, c.args[0]) and match(f"{t}.predecessors", c.args[1]):
                g = helper.target_of(c, fv)
                if g is not None and len(g.params) == 2:
                    H['many'], H['many_pat'] = g, src(c.func) + "($a, $b)"
    many = H['many']
    if many is None:
        # folded into __get_field_value: sep.join(.. for x in t.predecessors)
        for comp in [n for n in walk_no_nested(fv.node) if isinstance(n, (ast.ListComp, ast.GeneratorExp)) and len(n.generators) == 1]:
            if any(match(f"{t}.predecessors", x) or match(f"{t}.successors", x) for x in ast.walk(comp.generators[0].iter)):
                H['inline_many'].append(comp)
                tg = comp.generators[0].target
                if H['one'] is None and isinstance(tg, ast.Name):
                    for c in [n for n in ast.walk(comp.elt) if isinstance(n, ast.Call)]:
                        g = helper.target_of(c, fv)
                        if g is not None and len(c.args) == 2 and not c.keywords and match(t, c.args[0]) and same(c.args[1], tg) and len(g.params) == 2:
                            H['one'], H['one_pat'] = g, src(c.func) + "($a, $b)"
    if H['one'] is None and many is not None:
        for c in [n for n in walk_no_nested(many.node) if isinstance(n, ast.Call)]:
            g = helper.target_of(c, many)
            if g is not None and len(c.args) == 2 and not c.keywords and match(many.params[0], c.args[0]) and isinstance(c.args[1], ast.Name) \
                    and len(g.params) == 2:
                H['one'], H['one_pat'] = g, src(c.func) + "($a, $b)"
    if H['one'] is None:
        if many is not None:
            cfg = cfg_of(many)
            for c in facts.calls_named(many, 'append'):
                if len(c.args) == 1:
                    for fo in cfg.enclosing_fors(cfg.node_containing(c)):
                        if isinstance(fo.target, ast.Name) and any(match(f"{fo.target.id}.id", x) for x in ast.walk(c.args[0])):
                            H['inline'].append((many, c, c.args[0], many.params[0], fo.target.id))
            for comp in [n for n in walk_no_nested(many.node) if isinstance(n, (ast.ListComp, ast.GeneratorExp)) and len(n.generators) == 1]:
                tg = comp.generators[0].target
                if isinstance(tg, ast.Name) and any(match(f"{tg.id}.id", x) for x in ast.walk(comp.elt)):
                    H['inline'].append((many, comp, comp.elt, many.params[0], tg.id))
        for comp in H['inline_many']:
            tg = comp.generators[0].target
            if isinstance(tg, ast.Name) and any(match(f"{tg.id}.id", x) for x in ast.walk(comp.elt)):
                H['inline'].append((fv, comp, comp.elt, t, tg.id))
        for r in [n for n in walk_no_nested(fv.node) if isinstance(n, ast.Return) and n.value is not None]:
            if any(match(f"{t}.parent.id", x) for x in ast.walk(r.value)):
                H['inline'].append((fv, r, r.value, t, f"{t}.parent"))
    ctx._c20_links = H
    return H


def _virtual_returns(f):
    """[(statement, value, cfg node)]: the returns of f; a `return name` whose name is assigned on several branches
    (`result = ..` in every arm of an if/elif/else, one `return result` at the end) stands for those assignments"""
    cfg, fl = cfg_of(f), flow_of(f)
    out = []
    for r in [n for n in walk_no_nested(f.node) if isinstance(n, ast.Return)]:
        rn = cfg.node_of(r)
        if isinstance(r.value, ast.Name):
            ds = fl.reaching(r.value.id, rn)
            if len(ds) > 1 and all(d.kind == 'assign' and d.value is not None and d.node is not None for d in ds):
                out += [(d.stmt, d.value, d.node) for d in ds]
                continue
        out.append((r, r.value, rn))
    return out


def _dispatch_table_returns(prog, h, fld):
    """[(key, lambda, argument, return statement, cfg node)] for `g = D.get(fld)` / `g = D[fld]` ... `return g(arg)` (or the
    direct `return D[fld](arg)`) in function h, where D is a dict literal with constant keys and lambda values: a local,
    a module constant or a class attribute (`Cls.__TABLE`)"""
    cfg, fl = cfg_of(h), flow_of(h)

    def dict_of(e):
        if isinstance(e, ast.Dict):
            return e
        if isinstance(e, ast.Name):
            ds = [d for d in fl.defs_of(e.id) if d.kind == 'assign']
            if len(ds) == 1 and isinstance(ds[0].value, ast.Dict):
                return ds[0].value
            mod = getattr(h.module, 'tree', None)
            for st in (mod.body if mod is not None else []):
                if isinstance(st, ast.Assign) and any(isinstance(t_, ast.Name) and t_.id == e.id for t_ in st.targets) and isinstance(st.value, ast.Dict):
                    return st.value
        if isinstance(e, ast.Attribute) and isinstance(e.value, ast.Name) and e.value.id in prog.classes:
            for st in prog.classes[e.value.id].node.body:
                tg = st.targets if isinstance(st, ast.Assign) else ([st.target] if isinstance(st, ast.AnnAssign) and st.value is not None else [])
                if any(isinstance(t_, ast.Name) and t_.id in (e.attr, unmangle(e.attr)) for t_ in tg) and isinstance(st.value, ast.Dict):
                    return st.value
        return None

    def lookup(e):
        """e is D.get(fld[, None]) / D[fld] -> the dict literal"""
        m = match(f"$d.get({fld})", e) or match(f"$d.get({fld}, None)", e) or match(f"$d[{fld}]", e)
        return dict_of(m['d']) if m else None

    out = []
    for r in [n for n in walk_no_nested(h.node) if isinstance(n, ast.Return) and isinstance(n.value, ast.Call) and len(n.value.args) == 1
              and not n.value.keywords]:
        fn = r.value.func
        d = None
        if isinstance(fn, ast.Name):
            ds = fl.reaching(fn.id, cfg.node_of(r))
            if len(ds) == 1 and ds[0].kind == 'assign' and ds[0].value is not None:
                d = lookup(ds[0].value)
        else:
            d = lookup(fn)
        if d is None:
            continue
        for k_, v_ in zip(d.keys, d.values):
            if isinstance(k_, ast.Constant) and isinstance(k_.value, str) and isinstance(v_, ast.Lambda):
                out.append((k_.value, v_, r.value.args[0], r, cfg.node_of(r)))
    return out


def _specialise(v, fld, key):
    """v with the conditional expressions that test `fld == '<const>'` decided for fld == key"""
    class Tr(ast.NodeTransformer):
        def visit_IfExp(self, n):
            self.generic_visit(n)
            q = eq_const(n.test, True)
            if q and isinstance(q[0], ast.Name) and q[0].id == fld and isinstance(q[1], str):
                return n.body if (q[1] == key) == q[2] else n.orelse
            return n
    import copy as _copy
    return Tr().visit(_copy.deepcopy(v))


def _link_column(o, h, r, rn, key, table, found, ex, fld, t, one_pat, many_pat, as_one=None, rvalue=None):
    """verdict for the return r of __get_field_value that prints column `key`"""
    found[key] = True
    pat, attr = table[key]
    rvalue = rvalue if rvalue is not None else r.value
    v = _specialise(ex.expand(rvalue, rn), fld, key)
    if pat is None and key != 'parent':
        # the list helper is folded into this function: `sep.join(<one id> for x in t.<attr>)`
        joins = [m for m in (match("$s.join($c)", x) for x in ast.walk(v) if isinstance(x, ast.Call)) if m
                 and isinstance(m['c'], (ast.GeneratorExp, ast.ListComp)) and len(m['c'].generators) == 1]
        if len(joins) != 1:
            o.undecided(h, r, rvalue, f"column `{key}` is not printed through the linked-id helpers")
            return
        m = joins[0]
        g = m['c'].generators[0]
        q = _iter_in_order(g.iter, f"{t}.{attr}")
        mm = as_one(m['c'].elt, [g.target]) if as_one else None
        if g.ifs:
            o.refute(h, r, m['c'], "linked ids are filtered: some links are not printed")
        elif q and q != 'ok':
            o.refute(h, r, g.iter, "link loop " + q[2])
        elif q != 'ok':
            other = 'successors' if attr == 'predecessors' else 'predecessors'
            if _iter_in_order(g.iter, f"{t}.{other}") == 'ok':
                o.refute(h, r, g.iter, f"column `{key}` lists `{src(g.iter)}`; expected {t}.{attr}")
            else:
                o.undecided(h, r, g.iter, f"column `{key}` does not list {t}.{attr}")
        elif not mm:
            o.undecided(h, r, m['c'].elt, "element is not the linked-id expression of the loop variable")
        elif not (match(t, mm['a']) and same(mm['b'], g.target)):
            o.refute(h, r, m['c'].elt, f"ids are computed by `{src(m['c'].elt)[:80]}`, expected (printed task, linked task)")
        elif not const_str(m['s']):
            o.refute(h, r, m['s'], "linked ids are joined without a separator")
        else:
            o.site(h, r, f"{key}: <linked id of ({t}, {src(g.target)})> for {src(g.target)} in {src(g.iter)}, in order")
            o.site(h, r, f"{key}: separator {const_str(m['s'])!r}")
        return
    if pat is None:
        # the one-id helper is inlined: the expression itself is judged by links_external_iff_other_wbs
        if any(match(f"{t}.{attr}.id", x) for x in ast.walk(v)):
            o.site(h, r, f"{key}: inlined linked-id expression for {t}.{attr}")
        elif any(match(f"{t}.id", x) for x in ast.walk(v)) and not any(match(f"{t}.{attr}", x) for x in ast.walk(v)):
            o.refute(h, r, rvalue, f"column `{key}` prints `{src(v)[:80]}` - the id of the printed task itself, not of {t}.{attr}")
        else:
            o.undecided(h, r, rvalue, f"column `{key}` is not printed through the linked-id helpers")
        return
    hits = [match(pat, x) for x in ast.walk(v) if isinstance(x, ast.Call)]
    hits = [m for m in hits if m]
    other_pat = one_pat if pat is many_pat else many_pat
    if not hits:
        if other_pat is not None and any(match(other_pat, x) for x in ast.walk(v) if isinstance(x, ast.Call)):
            o.refute(h, r, rvalue, f"column `{key}` is printed by the wrong helper: `{src(v)[:80]}`")
        else:
            o.undecided(h, r, rvalue, f"column `{key}` is not printed through the linked-id helpers")
        return
    m = hits[0]
    if match(t, m['a']) and match(f"{t}.{attr}", m['b']):
        o.site(h, r, f"{key}: {src(v)[:80]}")
    else:
        o.refute(h, r, rvalue, f"column `{key}` prints `{src(v)[:80]}`; expected the helper applied to ({t}, {t}.{attr})")


# ============================================================================================================== usage
USAGE = 'schedule.ResourceUsageReport.__repr__'


def _usage(ctx):
    prog = ctx.prog
    o = ctx.ob('usage_one_line_per_day', 'R13',
               "ResourceUsageReport.__repr__: d = min(dates of all rows); while d <= max(dates of all rows): one table row for d; "
               "d += 1 day (exactly once per iteration, after the row)", floor=6)
    o2 = ctx.ob('usage_cells', 'R13',
                "the usage table has one header row (title + one cell per resource) and per day one date cell plus one cell per "
                "resource showing reserved(resource, day), for the same set of resources", floor=5)

    def peel(e):
        """strip wrappers that only reorder / dedupe / copy a collection"""
        while True:
            if isinstance(e, ast.Call) and isinstance(e.func, ast.Name) and len(e.args) >= 1 \
                    and e.func.id in ('list', 'set', 'sorted', 'tuple', 'reversed', 'frozenset', 'iter'):
                e = e.args[0]
            elif isinstance(e, ast.Call) and isinstance(e.func, ast.Attribute) and e.func.attr == 'keys' and not e.args:
                e = e.func.value
            else:
                return e

    def labels_of_all_rows(e, rows):
        """a comprehension over every stored row whose element (key of a dict comprehension) is derived from the row's date:
        ('date' | 'text' | 'other', element, value of a dict comprehension | None, filtered) else None"""
        e = peel(e)
        if isinstance(e, ast.DictComp) and len(e.generators) == 1:
            g = e.generators[0]
            elt, val, tgt, it, ifs = e.key, e.value, g.target, g.iter, g.ifs
        else:
            parts = facts.comp_parts(e)
            if not parts:
                return None
            elt, tgt, it, ifs = parts
            val = None
        it, more = _unfilter_rows(it, rows)
        ifs = list(ifs) + more
        if not (isinstance(tgt, ast.Name) and match(rows, it)):
            return None
        dt = f"{tgt.id}.date"
        if match(dt, elt):
            kind = 'date'
        elif not any(match(dt, x) for x in ast.walk(elt)):
            return None
        elif isinstance(elt, ast.JoinedStr) or (isinstance(elt, ast.Call) and (
                (isinstance(elt.func, ast.Attribute) and elt.func.attr in ('strftime', 'isoformat', 'format', '__format__', '__str__', 'ctime'))
                or (isinstance(elt.func, ast.Name) and elt.func.id in ('str', 'format', 'repr')))):
            kind = 'text'
        else:
            kind = 'other'
        return kind, elt, val, bool(ifs)

    def day_offset(e, i):
        """F for `F + timedelta(days=i)` (and spellings), else None"""
        for p in ("$F + timedelta(days=$i)", "$F + timedelta($i)", "timedelta(days=$i) + $F", "timedelta($i) + $F",
                  "$F + $i * timedelta(days=1)", "$F + timedelta(days=1) * $i", "$F + $i * timedelta(1)", "$F + timedelta(1) * $i"):
            m = match(p, e)
            if m and isinstance(m['i'], ast.Name) and m['i'].id == i:
                return m['F']
        return None

    def while_loop(ob, g, w):
        """`while d <op> bound` with its step statements, inside function g: dict or None (verdict recorded)"""
        steps = []
        for n in walk_no_nested(w):
            if isinstance(n, ast.AugAssign) and isinstance(n.target, ast.Name):
                steps.append((n, n.target.id, n.op, n.value))
            elif isinstance(n, ast.Assign) and len(n.targets) == 1 and isinstance(n.targets[0], ast.Name):
                d0 = n.targets[0].id
                m = match(f"{d0} + $x", n.value) or match(f"$x + {d0}", n.value)
                m2 = match(f"{d0} - $x", n.value)
                if m or m2:
                    steps.append((n, d0, ast.Add() if m else ast.Sub(), (m or m2)['x']))
        steps = [s_ for s_ in steps if mentions(w.test, s_[1])]
        if not steps:
            if isinstance(w.test, ast.Constant) or any(isinstance(n, ast.Break) for n in walk_no_nested(w)):
                ob.undecided(g, w, w.test, f"`while {src(w.test)}` loop left by break: not a `while day <= last day` loop the rule can follow")
            else:
                ob.refute(g, w, w.test, "the day variable of the loop is never advanced")
            return None
        d = steps[0][1]
        c3 = cmp_oriented(w.test, True, lambda x: isinstance(x, ast.Name) and x.id == d)
        if c3 is None and isinstance(w.test, ast.BoolOp) and isinstance(w.test.op, ast.And):
            # `while d <= last and <something else>`: the day comparison plus a further stop condition
            for cand in [s_[1] for s_ in steps]:
                hits = [v for v in w.test.values if cmp_oriented(v, True, lambda x: isinstance(x, ast.Name) and x.id == cand)
                        and cmp_oriented(v, True, lambda x: isinstance(x, ast.Name) and x.id == cand)[1] in ('<=', '<')]
                extra = [v for v in w.test.values if not any(v is h for h in hits)]
                if len(hits) == 1 and extra and facts.day_delta(Expander(prog, g, ctx.typer).expand(
                        next(s_[3] for s_ in steps if s_[1] == cand), cfg_of(g).node_of(next(s_[0] for s_ in steps if s_[1] == cand)))) is not None:
                    ob.refute(g, w, extra[0], f"the day loop also stops as soon as `{src(extra[0])}` fails (`{src(w.test)[:80]}`): a longer "
                                              f"report is cut off before the day of the last reservation")
                    return None
        if c3 is None:
            ob.undecided(g, w, w.test, f"loop test `{src(w.test)}` is not a comparison of the day with the last day")
            return None
        _, op, bound = c3
        if op == '<=':
            ob.site(g, w, f"while {d} <= {src(bound)}")
        elif op == '<':
            ob.refute(g, w, w.test, f"loop test `{src(w.test)}` excludes the last day: the day of the last reservation gets no line")
        elif op in ('>', '>=', '=='):
            ob.refute(g, w, w.test, f"loop test `{src(w.test)}` does not run from the first to the last day")
        else:
            ob.undecided(g, w, w.test, f"loop test `{src(w.test)}` not understood")
        steps = [s_ for s_ in steps if s_[1] == d]
        gfl, gcfg = flow_of(g), cfg_of(g)
        wn = gcfg.node_of(w)
        ds = [x for x in gfl.reaching(d, wn) if not any(x.stmt is s_[0] for s_ in steps)]
        init = ds[0] if len(ds) == 1 and ds[0].kind == 'assign' else None
        if init is None:
            ob.undecided(g, w, d, f"initial value of `{d}` not unique")
        return {'d': d, 'bound': bound, 'steps': steps, 'init': init, 'wn': wn}

    def step_sizes(ob, g, steps, d):
        gex, gcfg = Expander(prog, g, ctx.typer), cfg_of(g)
        for st, _d, sop, val in steps:
            dd = facts.day_delta(gex.expand(val, gcfg.node_of(st)))
            if not isinstance(sop, ast.Add):
                ob.refute(g, st, st, "the day is moved backwards: the loop never reaches the last day")
            elif dd is None:
                ob.undecided(g, st, st, f"step `{src(val)}` is not a constant timedelta")
            elif dd != 1:
                ob.refute(g, st, st, f"the day is advanced by {dd:g} days per line: days in between get no line")
            else:
                ob.site(g, st, f"{d} += 1 day")

    def check_bound(ob, f, rows, what, v, node, fn, other):
        m = match(f"{fn}($x)", v)
        mo = match(f"{other}($x)", v)
        single = [x for x in ast.walk(v) if isinstance(x, ast.Subscript) and match(rows, x.value)
                  and not (isinstance(x.slice, ast.Slice) and x.slice.lower is None and x.slice.upper is None)]
        lab = labels_of_all_rows((m or mo)['x'], rows) if (m or mo) else None
        # `D[min(D)]` with D = {label(x.date): x.date for x in rows}: the extreme is taken over the keys
        md = match(f"$D[{fn}($K)]", v) or match(f"$D[{other}($K)]", v)
        if md and same(peel(md['K']), md['D']):
            dl = labels_of_all_rows(md['D'], rows)
            if dl and dl[0] == 'text':
                ob.refute(f, node, v, f"the {what} is the date whose label `{src(dl[1])}` is the {'smallest' if match(f'$D[min($K)]', v) else 'largest'} "
                                      f"TEXT (`{src(v)[:70]}`), not {fn}() over the dates themselves: labels do not sort like dates, and equal "
                                      f"labels keep an arbitrary time of that day")
                return
            if dl and dl[0] == 'date' and dl[2] is not None and match(src(dl[1]), dl[2]) and not dl[3] and match(f"$D[{fn}($K)]", v):
                ob.site(f, node, f"{what} = {src(v)[:80]}")
                return
        if single:
            ob.refute(f, node, v, f"the {what} is taken from individual rows (`{src(v)[:80]}`), not {fn}() over the dates of ALL stored "
                                  f"rows: reservations recorded out of date order fall outside the table")
        elif m and lab and lab[0] == 'date' and not lab[3]:
            ob.site(f, node, f"{what} = {src(v)[:80]}")
        elif lab and lab[0] == 'date':
            if mo:
                ob.refute(f, node, v, f"the {what} of the table is `{src(v)[:80]}`, expected {fn}(..) of the reservation dates")
            else:
                ob.refute(f, node, v, f"the {what} is computed from a filtered set of reservations: `{src(v)[:80]}`")
        else:
            ob.undecided(f, node, v, f"{what} `{src(v)[:80]}` is not {fn}() over the dates of all stored rows")

    def delegate(f0):
        """__repr__ that hands the table building to a package function: (function, name of the report in it, pattern of
        the stored rows in it); (f0, self, self.__rows) when it builds the table itself"""
        sn0 = f0.self_name
        rows0 = f"{sn0}._ResourceUsageReport__rows"
        if facts.calls_named(f0, 'new_row'):
            return f0, sn0, rows0
        helper = Counter(ctx)
        ex0 = Expander(prog, f0, ctx.typer, inline=False)
        cands = []
        for r in [n for n in walk_no_nested(f0.node) if isinstance(n, ast.Return) and isinstance(n.value, ast.Call)]:
            g = helper.target_of(r.value, f0)
            if g is None or not facts.calls_named(g, 'new_row'):
                continue
            b = bind_args(r.value, g, drop_self=g.kind == 'method')
            if b is None:
                continue
            gfl = flow_of(g)
            fixed = lambda p: all(d.kind == 'param' for d in gfl.defs_of(p))
            rp = [p for p, a in b.items() if match(rows0, ex0.expand(a, cfg_of(f0).node_of(r))) and fixed(p)]
            sp = [p for p, a in b.items() if isinstance(a, ast.Name) and a.id == sn0 and fixed(p)]
            if g.kind == 'method' and isinstance(r.value.func, ast.Attribute) and match(sn0, r.value.func.value):
                sp = [g.self_name]
            if len(sp) == 1 and len(rp) <= 1:
                cands.append((g, sp[0], rp[0] if rp else f"{sp[0]}._ResourceUsageReport__rows"))
        if len(cands) == 1:
            return cands[0]
        return f0, sn0, rows0

    def run(_):
        f, sn, rows = delegate(prog.func(USAGE))
        cfg, fl = cfg_of(f), flow_of(f)
        ex = Expander(prog, f, ctx.typer)
        tables = _table_names(ctx, f)
        row_calls = [c for c in facts.calls_named(f, 'new_row') if isinstance(c.func.value, ast.Name) and c.func.value.id in tables]
        inside = lambda lp, c: any(x is c for st in lp.body for x in ast.walk(st))
        whiles = [w for w in walk_no_nested(f.node) if isinstance(w, ast.While) and any(inside(w, c) for c in row_calls)]
        step_nodes = []
        bounds = []          # (what, expanded value, report node, fn, other)
        if whiles:
            w = whiles[0]
            info = while_loop(o, f, w)
            if info is None:
                o2.undecided(f, f.node, '__repr__', "cells per day not compared: the day loop was not recognised")
                return
            d, wn, dref = info['d'], info['wn'], info['wn']
            bounds.append(('last day', xexpand(ex, info['bound'], wn), w, 'max', 'min'))
            if info['init'] is not None:
                bounds.append(('first day', xexpand(ex, info['init'].value, info['init'].node), info['init'].stmt, 'min', 'max'))
            step_nodes = [s_[0] for s_ in info['steps']]
        else:
            fors = []
            for c in row_calls:
                efs = cfg.enclosing_fors(cfg.node_containing(c))
                if efs and not any(efs[0] is x for x in fors):
                    fors.append(efs[0])
            if len(fors) != 1:
                o.undecided(f, f.node, '__repr__', "no `while day <= last day` loop producing the table rows")
                o2.undecided(f, f.node, '__repr__', "cells per day not compared: the day loop was not recognised")
                return
            w = fors[0]
            wn = dref = cfg.node_of(w)
            it = ex.expand(w.iter, wn)
            lab = labels_of_all_rows(it, rows)
            got = None
            if lab:
                o.refute(f, w, w.iter, f"table rows are produced by iterating `{src(it)[:90]}` - the dates that have reservations; "
                                       f"days between the first and the last reservation without a reservation get no line")
                got = 'refuted'
            else:
                got = _for_day_loop(ctx, o, f, w, it, ex, cfg, bounds, while_loop, step_sizes, day_offset)
            if not isinstance(got, dict):
                if got is None:
                    o.undecided(f, w, w.iter, f"the loop producing the table rows iterates `{src(it)[:80]}`: not a recognised way of "
                                              f"visiting every day from the first to the last reservation")
                o2.undecided(f, f.node, '__repr__', "cells per day not compared: the day loop was not recognised")
                return
            d, dref = got['d'], got['dref']
        for what, v, node, fn, other in bounds:
            if isinstance(v, ast.Name):
                skipped = _running_extreme_skipped(f, v.id, fn)
                if skipped is not None:
                    st_, guard_, foreign_ = skipped
                    o.refute(f, st_, st_, f"the {what} `{v.id}` is a running {fn}imum, but its update `{src(st_)[:60]}` (under `{src(guard_)}`) "
                                          f"is skipped in every round in which `{src(foreign_)}` holds (elif): a round that moves both ends "
                                          f"of the period only moves the other one, the table ends before / starts after the real {what}")
                    continue
            check_bound(o, f, rows, what, v, node, fn, other)
        # step / rows per iteration
        def classify(node, g):
            return 'step' if any(node is s_ for s_ in step_nodes) else None
        c = Counter(ctx, classify=classify)
        watom = c.loop_atom(f, w)
        main = None
        for r, em in c.exits(f, tables, {}):
            if r is not None and r.value is not None and _renders_table(r.value, tables):
                main = em if main is None else None
        if main is None:
            o.undecided(f, f.node, 'return', "__repr__ does not have exactly one `return table.text_repr(..)` exit")
            return
        if '!irregular' in main:
            o.undecided(f, f.node, 'loops', "a loop is left by break/return: " + '; '.join(c.notes))
            return
        if step_nodes:
            _verdict(o, f, w, 'day step per iteration', "the day is advanced", main.get('step', {}), {(watom,): (1, 1)})
            step_sizes(o, f, info['steps'], d)
        want_rows = {(): (1, 1), (watom,): (1, 1)}
        _verdict(o, f, w, 'new_row per day', "table.new_row", main.get('new_row', {}), want_rows)

        # ---- cells
        cell_calls = [x for x in facts.calls_named(f, 'new_cell') if isinstance(x.func.value, ast.Name) and x.func.value.id in tables]
        in_w = lambda n: any(x is n for st in w.body for x in ast.walk(st))
        inner = []
        for x in cell_calls:
            if in_w(x):
                for fo in cfg.enclosing_fors(cfg.node_containing(x)):
                    if fo is not w and in_w(fo) and not any(fo is y for y in inner):
                        inner.append(fo)
        if len(inner) != 1:
            o2.undecided(f, w, 'resource loop', "the day loop does not contain exactly one loop emitting the resource cells")
            return
        rl = inner[0]
        rl_emit = rl          # the loop that puts the cells of a day line into the table
        first_cells = None
        if isinstance(rl.iter, ast.Name):
            # the line is collected first: `line = [<date cell>]; for k in resources: line.append(..)`, then emitted in one loop
            lname = rl.iter.id
            ldefs = fl.reaching(lname, cfg.node_of(rl))
            apps = [x for x in facts.calls_named(f, 'append') if in_w(x) and isinstance(x.func, ast.Attribute)
                    and isinstance(x.func.value, ast.Name) and x.func.value.id == lname]
            if apps and len(ldefs) == 1 and ldefs[0].kind == 'assign' and isinstance(ldefs[0].value, ast.List) and in_w(ldefs[0].value):
                srcs = []
                for x in apps:
                    fs_ = [fo for fo in cfg.enclosing_fors(cfg.node_containing(x)) if in_w(fo)]
                    if fs_ and not any(fs_[-1] is y for y in srcs):
                        srcs.append(fs_[-1])
                if len(srcs) == 1 and all([fo for fo in cfg.enclosing_fors(cfg.node_containing(x)) if in_w(fo)] for x in apps):
                    rl, first_cells = srcs[0], (ldefs[0].value.elts, ldefs[0].node)
        ratom = c.loop_atom(f, rl)
        # the cells of a day line may come from a package generator that yields one (text, ..) per resource
        gs = gen_summary(c, f, rl.iter) if isinstance(rl.iter, ast.Call) else None
        if gs is not None and (gs['b'] is None or gs['src'] not in gs['b']):
            gs = None
        want = {(): (1, 1), (ratom,): (1, 1), (watom,): (1, 1), (watom, ratom): (1, 1)}
        if is_opaque(ratom):
            o2.undecided(f, rl, rl.iter, f"the cells of a day line come from `{src(rl.iter)[:70]}`, whose length the rule cannot relate to "
                                         f"the header columns")
        else:
            _verdict(o2, f, f.node, 'cells', "table.new_cell", main.get('new_cell', {}), want)
        hdr_loops = [fo for x in cell_calls if not in_w(x) for fo in cfg.enclosing_fors(cfg.node_containing(x))]
        if ratom.startswith('var:'):
            rv = ratom[4:]
            if all(fl.same_version(rv, cfg.node_of(h), cfg.node_of(rl)) for h in hdr_loops) and hdr_loops:
                o2.site(f, rl, f"header and day rows iterate the same `{rv}`")
            else:
                o2.refute(f, rl, 'resources redefined', f"`{rv}` is redefined between the header and the day rows: columns differ")
        rit = ex.expand(gs['b'][gs['src']] if gs else rl.iter, cfg.node_of(rl))
        m = match("set($x)", rit)
        inner_c = m['x'] if m else rit
        parts = facts.comp_parts(inner_c) if isinstance(inner_c, (ast.ListComp, ast.GeneratorExp, ast.SetComp)) else None
        if parts:
            it_, more_ = _unfilter_rows(parts[2], rows)
            parts = (parts[0], parts[1], it_, list(parts[3]) + more_)
        if parts and (m or isinstance(inner_c, ast.SetComp)) and isinstance(parts[1], ast.Name) \
                and match(f"{parts[1].id}.resource", parts[0]) and match(rows, parts[2]):
            if parts[3]:
                o2.refute(f, rl, rl.iter, f"resource columns come from a filtered set of reservations: `{src(rit)[:80]}`")
            else:
                o2.site(f, rl, f"resources = {src(rit)[:80]}")
        else:
            o2.undecided(f, rl, rl.iter, f"resource columns `{src(rit)[:80]}` are not the set of resources of all stored rows")
        kvar = rl.target.id if isinstance(rl.target, ast.Name) else None
        res_calls = [x for x in facts.calls_named(f, 'reserved') if in_w(x) and match(f"{sn}.reserved($*a)", x)]
        if gs is not None and not res_calls:
            # reserved(resource, day) is computed inside the generator: its loop variable and the parameter the day is bound to
            G = gs['G']
            gsn = G.self_name if G.kind == 'method' else None
            gday = [p_ for p_, a_ in gs['b'].items() if isinstance(a_, ast.Name) and a_.id == d]
            gcalls = [x for x in facts.calls_named(G, 'reserved') if gsn and match(f"{gsn}.reserved($*a)", x)]
            gk = gs['loop'].target.id if isinstance(gs['loop'].target, ast.Name) else None
            if not gcalls or len(gday) != 1 or not (isinstance(rl.iter.func, ast.Attribute) and match(sn, rl.iter.func.value)):
                o2.undecided(f, rl, 'reserved', "resource cells do not show self.reserved(resource, day)")
            for x in gcalls if len(gday) == 1 else []:
                b = bind_args(x, prog.func('schedule.ResourceUsageReport.reserved'), drop_self=True)
                vals = list(b.values()) if b else []
                if len(vals) == 2 and isinstance(vals[0], ast.Name) and vals[0].id == gk and isinstance(vals[1], ast.Name) and vals[1].id == gday[0] \
                        and all(d_.kind == 'param' for d_ in flow_of(G).defs_of(gday[0])) and fl.same_version(d, dref, cfg.node_of(rl)) \
                        and any(x is n_ for n_ in ast.walk(gs['loop'])):
                    o2.site(G, x, f"{src(x)} in {G.qual}, called with ({src(gs['b'][gs['src']])}, {d})")
                else:
                    o2.refute(G, x, x, f"resource cell shows `{src(x)}`, expected reserved({gk}, {gday[0]}) for the day of this line")
        elif not res_calls:
            o2.undecided(f, rl, 'reserved', "resource cells do not show self.reserved(resource, day)")
        for x in res_calls:
            b = bind_args(x, prog.func('schedule.ResourceUsageReport.reserved'), drop_self=True)
            vals = list(b.values()) if b else []
            if len(vals) == 2 and isinstance(vals[0], ast.Name) and vals[0].id == kvar and isinstance(vals[1], ast.Name) and vals[1].id == d \
                    and fl.same_version(d, dref, cfg.node_containing(x)):
                o2.site(f, x, src(x))
            else:
                o2.refute(f, x, x, f"resource cell shows `{src(x)}`, expected reserved({kvar}, {d}) for the day of this line")
        if first_cells is not None:
            elts, lnode = first_cells
            texts = [(e_.elts[0] if isinstance(e_, ast.Tuple) and e_.elts else e_) for e_ in elts]
            if len(texts) == 1 and mentions(ex.expand(texts[0], lnode, stop={d}), d) and fl.same_version(d, dref, lnode):
                o2.site(f, texts[0], f"date cell {src(texts[0])} (first element of the collected line)")
            elif len(texts) == 1 and mentions(ex.expand(texts[0], lnode, stop={d}), d):
                o2.refute(f, texts[0], texts[0], f"the date cell is computed after `{d}` was advanced: every line shows the following day")
            else:
                o2.undecided(f, rl_emit, 'date cell', "the collected line does not start with exactly one cell showing the day")
        for x in cell_calls:
            xn = cfg.node_containing(x)
            if first_cells is None and in_w(x) and not any(fo is rl for fo in cfg.enclosing_fors(xn)):
                a0 = x.args[0] if x.args else None
                if a0 is not None and mentions(ex.expand(a0, xn, stop={d}), d) and fl.same_version(d, dref, xn):
                    o2.site(f, x, f"date cell {src(a0)}")
                elif a0 is not None and mentions(ex.expand(a0, xn, stop={d}), d):
                    o2.refute(f, x, x, f"the date cell is written after `{d}` was advanced: every line shows the following day")
                else:
                    o2.refute(f, x, x, f"the first cell of a day line `{src(a0) if a0 is not None else ''}` does not show the day `{d}`")
    ctx.guarded(o, run)


def _unfilter_rows(it, rows):
    """`[x for x in ROWS if C]` (also wrapped in list(..) / a generator) used as the iterable of another comprehension is the
    stored rows with the filter C: (ROWS expression, [C ..]); anything else is returned unchanged with no filter"""
    e = it
    if isinstance(e, ast.Call) and isinstance(e.func, ast.Name) and e.func.id in ('list', 'tuple') and len(e.args) == 1:
        e = e.args[0]
    if isinstance(e, (ast.ListComp, ast.GeneratorExp)) and len(e.generators) == 1:
        g = e.generators[0]
        if isinstance(g.target, ast.Name) and isinstance(e.elt, ast.Name) and e.elt.id == g.target.id and g.ifs:
            inner, more = _unfilter_rows(g.iter, rows)
            if match(rows, inner):
                return inner, list(g.ifs) + more
    if isinstance(e, ast.Call) and isinstance(e.func, ast.Name) and e.func.id == 'filter' and len(e.args) == 2 and match(rows, e.args[1]):
        return e.args[1], [e.args[0]]
    return it, []


def _running_extreme_skipped(f, name, fn):
    """`name` is folded as a running max / min inside a loop (`if E > name: name = E`), and that update sits in the
    else-branch of an unrelated test (`if A < lo: lo = A  elif E > name: name = E` with A different from E): it is skipped
    whenever the other test holds.  -> (update statement, its guard, the foreign test) or None.
    (`if v < lo: lo = v  elif v > hi: hi = v` on ONE value v is the correct classic and not reported.)"""
    cfg, fl = cfg_of(f), flow_of(f)
    want = ('<', '<=') if fn == 'max' else ('>', '>=')
    for d in fl.defs_of(name):
        if d.kind != 'assign' or d.node is None or d.value is None or not cfg.enclosing_loops(d.node):
            continue
        conds = cfg.conditions(d.node)
        guard = None
        for t, p in conds:
            c = cmp_oriented(t, p, lambda x: isinstance(x, ast.Name) and x.id == name)
            if c and c[1] in want and same(c[2], d.value):
                guard = t
        if guard is None:
            continue
        for t, p in conds:
            if t is guard or p:
                continue
            c = cmp_norm(t, True)
            if c is None or c[1] not in ('<', '<=', '>', '>='):
                continue
            if mentions(t, name) or any(same(x, d.value) for x in ast.walk(t)):
                continue
            # the foreign test must belong to the same if/elif chain inside the loop body
            if not cfg.enclosing_loops(cfg.node_containing(t) or d.node):
                continue
            return d.stmt, guard, t
    return None


def _for_day_loop(ctx, o, f, w, it, ex, cfg, bounds, while_loop, step_sizes, day_offset):
    """`for d in <generator of days>(first, last)` / `for i in range((last - first).days + 1): d = first + i days` /
    `for d in [first + i days for i in range(..)]`: {'d', 'dref'} when understood (first/last appended to `bounds`),
    'refuted' when a verdict was recorded, None when the loop is of no known form"""
    prog = ctx.prog
    wn = cfg.node_of(w)

    def count_range(n_expr, first):
        """n_expr must be (last - first).days + 1 -> last"""
        m = match("($L - $F).days + 1", n_expr) or match("1 + ($L - $F).days", n_expr)
        if m and same(m['F'], first):
            o.site(f, w, f"{src(n_expr)[:80]} days")
            return m['L']
        caps = facts.flatten_lattice(n_expr, 'min')
        if caps is not None:
            full = [a for a in caps if (match("($L - $F).days + 1", a) or match("1 + ($L - $F).days", a))]
            if len(full) == 1 and len(caps) > 1:
                rest = ', '.join(src(a) for a in caps if a is not full[0])
                o.refute(f, w, n_expr, f"the number of day lines is capped: `{src(n_expr)[:90]}` - a report that spans more than `{rest}` "
                                       f"days is cut off before the day of the last reservation")
                return 'refuted'
        m0 = match("($L - $F).days", n_expr)
        if m0 and same(m0['F'], first):
            o.refute(f, w, n_expr, f"the loop runs `{src(n_expr)[:80]}` times: the day of the last reservation gets no line "
                                   f"(expected `.days + 1`)")
            return 'refuted'
        o.undecided(f, w, n_expr, f"number of day lines `{src(n_expr)[:80]}` is not `(last - first).days + 1`")
        return 'refuted'

    def range_from_zero(r, where):
        a, b, step = r
        if step is not None and not (isinstance(step, ast.Constant) and step.value == 1):
            o.refute(f, w, where, f"day index loop `{src(where)[:80]}` steps by {src(step)}: days in between get no line")
            return False
        if not is_zero(a):
            if isinstance(a, ast.Constant):
                o.refute(f, w, where, f"day index loop `{src(where)[:80]}` starts at {a.value!r}: the first day gets no line")
            else:
                o.undecided(f, w, where, f"day index loop `{src(where)[:80]}` does not start at 0")
            return False
        o.site(f, w, "day index counts from 0 by 1")
        return True

    # --- (B) generator function of the package
    if isinstance(w.iter, ast.Call) and isinstance(w.target, ast.Name):
        g = Counter(ctx).target_of(w.iter, f)
        if g is not None and any(isinstance(n, (ast.Yield, ast.YieldFrom)) for n in walk_no_nested(g.node)):
            b = bind_args(w.iter, g, drop_self=g.kind == 'method')
            gw = [n for n in g.body if isinstance(n, ast.While)]
            ys = [n for n in walk_no_nested(g.node) if isinstance(n, (ast.Yield, ast.YieldFrom))]
            if b is None or len(gw) != 1 or len(ys) != 1 or isinstance(ys[0], ast.YieldFrom):
                o.undecided(f, w, w.iter, f"day generator {g.qual} is not one `while day <= last: yield day; day += step` loop")
                return 'refuted'
            gw = gw[0]
            if any(isinstance(n, (ast.Break, ast.Continue, ast.Return, ast.Try)) for n in walk_no_nested(g.node)):
                o.undecided(g, gw, gw, f"day generator {g.qual} leaves its loop by break / continue / return")
                return 'refuted'
            info = while_loop(o, g, gw)
            if info is None:
                return 'refuted'
            gd = info['d']
            top = {id(s): k for k, s in enumerate(gw.body)}
            ystmt = next((s for s in gw.body if isinstance(s, ast.Expr) and s.value is ys[0]), None)
            steps_top = [s_ for s_ in info['steps'] if id(s_[0]) in top]
            if ystmt is None or len(steps_top) != 1 or len(info['steps']) != 1:
                o.undecided(g, gw, gw, "the day is not yielded and advanced exactly once, unconditionally, per iteration")
                return 'refuted'
            if not (isinstance(ys[0].value, ast.Name) and ys[0].value.id == gd):
                o.undecided(g, ystmt, ystmt, f"the generator yields `{src(ys[0].value) if ys[0].value is not None else None}`, not the day `{gd}`")
                return 'refuted'
            if top[id(ystmt)] > top[id(steps_top[0][0])]:
                o.refute(g, ystmt, 'yield after step', f"`{gd}` is advanced before it is yielded: the first day gets no line and the day after "
                                                       f"the last reservation gets one")
                return 'refuted'
            o.site(g, ystmt, f"yield {gd} once per iteration, before the step")
            step_sizes(o, g, info['steps'], gd)
            gex = Expander(prog, g, ctx.typer)
            pl = gex.expand(info['bound'], info['wn'])
            pf = gex.expand(info['init'].value, info['init'].node) if info['init'] is not None else None
            ok = True
            for what, p, fn, other in (('last day', pl, 'max', 'min'), ('first day', pf, 'min', 'max')):
                if isinstance(p, ast.Name) and p.id in b and all(x.kind == 'param' for x in flow_of(g).defs_of(p.id)):
                    bounds.append((what, xexpand(ex, b[p.id], wn), w, fn, other))
                else:
                    o.undecided(g, gw, what, f"the {what} of generator {g.qual} is `{src(p) if p is not None else '?'}`, not one of its parameters")
                    ok = False
            if not ok:
                return 'refuted'
            return {'d': w.target.id, 'dref': wn}
    # --- (C) index loop: for i in range(N): d = first + timedelta(days=i)
    r = range_over(it)
    if r is not None and isinstance(w.target, ast.Name):
        i = w.target.id
        cands = []
        for s in w.body:
            if isinstance(s, ast.Assign) and len(s.targets) == 1 and isinstance(s.targets[0], ast.Name):
                F = day_offset(s.value, i)
                if F is not None:
                    cands.append((s, F))
        if len(cands) != 1:
            return None
        s, F = cands[0]
        d = s.targets[0].id
        sn_ = cfg.node_of(s)
        if len([x for x in flow_of(f).defs_of(d) if x.node is not None and any(x.stmt is y for st in w.body for y in ast.walk(st))]) != 1:
            o.undecided(f, s, s, f"`{d}` is assigned more than once inside the day loop")
            return 'refuted'
        if cfg.conditions(sn_) and any(t is not None for t, _p in cfg.conditions(sn_) if any(t is x for st in w.body for x in ast.walk(st))):
            o.undecided(f, s, s, f"`{d}` is computed under a condition")
            return 'refuted'
        Fx = xexpand(ex, F, sn_)
        if not range_from_zero(r, w.iter):
            return 'refuted'
        L = count_range(r[1], Fx)
        if L == 'refuted':
            return 'refuted'
        o.site(f, s, f"{d} = {src(s.value)}")
        bounds.append(('last day', L, w, 'max', 'min'))
        bounds.append(('first day', Fx, s, 'min', 'max'))
        return {'d': d, 'dref': sn_}
    # --- (C') for d in [first + timedelta(days=i) for i in range(N)]
    comp = it
    if isinstance(comp, ast.Call) and isinstance(comp.func, ast.Name) and comp.func.id in ('list', 'tuple', 'iter') and len(comp.args) == 1:
        comp = comp.args[0]
    parts = facts.comp_parts(comp) if isinstance(comp, (ast.ListComp, ast.GeneratorExp)) else None
    if parts and isinstance(parts[1], ast.Name) and isinstance(w.target, ast.Name):
        elt, tgt, cit, ifs = parts
        r = range_over(cit)
        F = day_offset(elt, tgt.id)
        if r is None or F is None:
            return None
        if ifs:
            o.refute(f, w, w.iter, f"the days of the table are filtered (`{src(it)[:80]}`): some days get no line")
            return 'refuted'
        if not range_from_zero(r, cit):
            return 'refuted'
        L = count_range(r[1], F)
        if L == 'refuted':
            return 'refuted'
        o.site(f, w, f"days = {src(elt)} for {tgt.id} in {src(cit)[:60]}")
        bounds.append(('last day', L, w, 'max', 'min'))
        bounds.append(('first day', F, w, 'min', 'max'))
        return {'d': w.target.id, 'dref': wn}
    return None


# ======================================================================================================== field texts
_STR_METHODS = ('strftime', 'join', 'upper', 'lower', 'format', 'ljust', 'rjust', 'strip', 'title', 'replace', 'center', 'isoformat')


def _str_valued(ctx, f, e, at, depth=0):
    """True: the expression is a str on every evaluation; False: recognised non-str shape (raw attribute value, None);
    None: unknown"""
    prog = ctx.prog
    if isinstance(e, ast.Constant):
        return isinstance(e.value, str)
    if isinstance(e, ast.JoinedStr):
        return True
    if isinstance(e, ast.IfExp):
        a, b = _str_valued(ctx, f, e.body, at, depth), _str_valued(ctx, f, e.orelse, at, depth)
        return False if (a is False or b is False) else (True if a and b else None)
    if isinstance(e, ast.BinOp) and isinstance(e.op, ast.Add):
        a, b = _str_valued(ctx, f, e.left, at, depth), _str_valued(ctx, f, e.right, at, depth)
        # str + x is a str or raises TypeError: it never hands a non-str value on
        return True if (a is True or b is True) else (None if a is None or b is None else False)
    if isinstance(e, ast.BinOp) and isinstance(e.op, (ast.Mult, ast.Mod)):
        return True if (_str_valued(ctx, f, e.left, at, depth) or _str_valued(ctx, f, e.right, at, depth)) else None
    if isinstance(e, ast.Call):
        fn = e.func
        if isinstance(fn, ast.Name) and fn.id in ('str', 'repr', 'format'):
            return True
        if isinstance(fn, ast.Attribute) and fn.attr in _STR_METHODS:
            return True
        if isinstance(fn, ast.Attribute) and fn.attr in ('__getattribute__', 'get') or (isinstance(fn, ast.Name) and fn.id == 'getattr'):
            return False
        tgt = None
        for ci in ctx.cg.calls_in(f):
            if ci.node is e and ci.resolved and len(ci.targets) == 1:
                tgt = ci.targets[0]
        if tgt is None and isinstance(fn, ast.Attribute) and isinstance(fn.value, ast.Name) and fn.value.id in prog.classes:
            # Cls.helper(..) written outside a function body the call graph knows (a lambda in a class-level table)
            tgt = prog.find_method(fn.value.id, unmangle(fn.attr)) or prog.find_method(fn.value.id, fn.attr)
        if tgt is not None and depth < 3:
            rets = [n for n in walk_no_nested(tgt.node) if isinstance(n, ast.Return)]
            vals = [_str_valued(ctx, tgt, r.value, cfg_of(tgt).node_of(r), depth + 1) if r.value is not None else False for r in rets]
            if vals and all(v is True for v in vals):
                return True
            if any(v is False for v in vals):
                return False
        return None
    if isinstance(e, ast.Name) and at is not None:
        vs = value_set(f, e, at)
        if len(vs) == 1 and vs[0][0] is e:
            return None
        vals = [_str_valued(ctx, f, v, vat, depth) for v, vat in vs]
        return True if all(v is True for v in vals) else (False if any(v is False for v in vals) else None)
    if isinstance(e, ast.Attribute):
        if isinstance(e.value, ast.Name) and e.value.id in prog.classes:
            # a class-level constant (`_Repr.__INDENT_STEP = '   '`)
            for st in prog.classes[e.value.id].node.body:
                tg = st.targets if isinstance(st, ast.Assign) else ([st.target] if isinstance(st, ast.AnnAssign) and st.value is not None else [])
                if any(isinstance(t_, ast.Name) and t_.id in (e.attr, unmangle(e.attr)) for t_ in tg):
                    return True if const_str(st.value) is not None else None
        return False if depth == 0 else None
    return None


def _field_texts(ctx):
    prog = ctx.prog
    o = ctx.ob('fields_every_cell_is_text', 'R7',
               "__get_field_value returns a str on every path (the table measures and concatenates cell texts) and answers an "
               "unknown field with '' instead of raising", floor=6)

    def run(o):
        f = prog.func(FIELD_VALUE)
        t, fld = f.params[0], f.params[1]
        cfg = cfg_of(f)
        rets = [n for n in walk_no_nested(f.node) if isinstance(n, ast.Return)]
        exf = Expander(prog, f, ctx.typer, inline=False)
        for r, rvalue, rn in _virtual_returns(f):
            if not cfg.is_reachable(rn):
                continue
            v = _str_valued(ctx, f, rvalue, rn) if rvalue is not None else False
            tab = [x for x in _dispatch_table_returns(prog, f, fld) if x[3] is r]
            if v is None and tab:
                # `return TABLE[field](t)`: a str when every getter of the table yields one
                vs_ = [_str_valued(ctx, f, subst(lam.body, {lam.args.args[0].arg: arg}), rn, 0) if len(lam.args.args) == 1 else None
                       for _k, lam, arg, _r, _n in tab]
                v = True if all(x is True for x in vs_) else (False if any(x is False for x in vs_) else None)
            xv = exf.expand(rvalue, rn) if rvalue is not None else None
            coloured = [x for x in ast.walk(xv) if (isinstance(x, ast.Call) and isinstance(x.func, ast.Name) and x.func.id in ('colored', 'colored_text'))
                        or (isinstance(x, ast.Constant) and isinstance(x.value, str) and '\x1b' in x.value)] if xv is not None else []
            if coloured:
                o.refute(f, r, coloured[0], f"the cell text carries colour codes (`{src(coloured[0])[:60]}`): the table measures and pads cells with "
                                            f"len(text), which counts the invisible escape characters - the column is sized and this cell "
                                            f"padded for a text longer than what is seen, so the lines no longer have the same visible width")
                continue
            if v is True:
                o.site(f, r, src(rvalue)[:70])
            elif v is False:
                o.refute(f, r, r, f"`{src(r)[:80]}` hands the raw value to the table: a non-str cell text breaks len() / concatenation "
                                  f"(or prints None)")
            else:
                o.undecided(f, r, r, f"cannot tell whether `{src(r)[:80]}` is a str")
        if cfg.exit.pred and any(p.kind != 'stmt' or not isinstance(p.ast, ast.Return) for p in cfg.exit.pred):
            o.refute(f, f.node, 'falls off the end', "__get_field_value can end without a return: the cell text is None")
        raw = [c for c in walk_no_nested(f.node) if isinstance(c, ast.Call) and (
            (isinstance(c.func, ast.Attribute) and c.func.attr == '__getattribute__') or
            (isinstance(c.func, ast.Name) and c.func.id == 'getattr' and len(c.args) in (2, 3) and match(t, c.args[0])))]
        guard = by_hasattr = None
        for r in rets:
            if r.value is not None and const_str(r.value) == '':
                for tt, p in cfg.conditions(cfg.node_of(r)):
                    for a, ap in facts.split_conj(tt, p):
                        if (match(f"{fld} not in {t}.__dict__", a) and ap) or (match(f"{fld} in {t}.__dict__", a) and not ap) or \
                                (match(f"{fld} not in vars({t})", a) and ap) or (match(f"{fld} in vars({t})", a) and not ap):
                            guard = r
                        elif match(f"hasattr({t}, {fld})", a) and not ap:
                            by_hasattr = a
        if raw and by_hasattr is not None and guard is None:
            o.refute(f, by_hasattr, 'hasattr lookup', _HASATTR_MSG.format(test=src(by_hasattr), t=t))
            return
        if raw and guard is not None:
            o.site(f, guard, "unknown field -> ''")
            return
        if not raw:
            return
        # the looked-up name is a resolved local (`attribute = field if field in t.__dict__ else ... else None`):
        # every alternative of the name is either known to be an attribute, or None and answered before the read
        ex = Expander(prog, f, ctx.typer)
        all_ok = True
        for c in raw:
            cn = cfg.node_containing(c)
            a = c.args[0] if isinstance(c.func, ast.Attribute) else c.args[1]
            if isinstance(a, ast.Name) and _must_be_attribute(f, cfg, ex, t, a.id, cn):
                o.site(f, c, f"unknown field -> '': on every path to the read `{a.id} in {t}.__dict__` was established last")
                continue
            why = _lookup_guarded(ex, cfg, f, t, a, cn)
            if isinstance(c.func, ast.Name) and len(c.args) == 3 and not (why and why[0] == 'ok'):
                # getattr with a default never raises, but it resolves class attributes as well
                o.refute(f, c, 'hasattr lookup', _HASATTR_MSG.format(test=src(c), t=t))
                return
            if why is None:
                all_ok = False
            elif why[0] == 'hasattr':
                o.refute(f, c, 'hasattr lookup', why[1])
                return
            elif why[0] == 'bad' and not (isinstance(a, ast.Name) and a.id == fld):
                o.refute(f, c, 'unknown field', f"{why[1]}: an unknown field raises instead of printing an empty column")
                return
            elif why[0] == 'bad':
                all_ok = False
            else:
                o.site(f, c, f"unknown field -> '': {why[1]}")
        if all_ok:
            return
        # closed world: nothing in the function asks whether the task has the attribute
        asks = False
        for n in walk_no_nested(f.node):
            if isinstance(n, ast.Try):
                asks = True
            elif isinstance(n, ast.Compare) and any(isinstance(op, (ast.In, ast.NotIn)) for op in n.ops):
                # `field [not] in t.__dict__` on the parameter itself is the understood form (it guards no `return ''` here)
                if not (match(f"{fld} in {t}.__dict__", n) or match(f"{fld} not in {t}.__dict__", n)):
                    asks = True
            elif isinstance(n, ast.Call) and isinstance(n.func, ast.Name) and n.func.id in ('hasattr', 'dir', 'vars') \
                    or (isinstance(n, ast.Call) and isinstance(n.func, ast.Name) and n.func.id == 'getattr' and len(n.args) == 3):
                asks = True
            elif isinstance(n, ast.Call) and ctx_target(ctx, f, n) is not None:
                asks = True          # a package helper may do the asking
        if asks:
            o.undecided(f, raw[0], 'unknown field', f"the attribute named by `{src(raw[0])[:60]}` is read; the rule cannot see that names the "
                                                    f"task does not have are answered with '' before")
        else:
            o.refute(f, raw[0], 'unknown field', f"the attribute named by `{fld}` is read without a `return ''` for names the task does not "
                                                 f"have: an unknown field raises AttributeError instead of printing an empty column")
    ctx.guarded(o, run)


_HASATTR_MSG = ("the field name is resolved with `{test}`: besides the attributes stored on the task ({t}.__dict__) this finds the "
                "properties and methods of Task (wbs, children, all_children, clone, ...), whose str() is a nested multi-line sheet or a "
                "bound-method repr - such a column is no longer empty and its lines break the table")


def ctx_target(ctx, f, call):
    """the package function a call resolves to (None for builtins / methods of foreign objects)"""
    for ci in ctx.cg.calls_in(f):
        if ci.node is call and ci.kind == 'call':
            tg = [x for x in ci.targets if x is not None]
            if ci.resolved and len(tg) == 1 and tg[0].qual not in (LINK_ONE, LINK_MANY):
                return tg[0]
    return None


def _must_be_attribute(f, cfg, ex, t, name, at):
    """forward must-analysis of the fact `<name> in t.__dict__`: generated by a branch on `name [not] in t.__dict__` /
    `vars(t)` (the container may be a local alias), killed by every new definition of the name; True when the fact holds on
    every path that reaches cfg node `at` (`if n not in D: n = n.lower(); if n not in D: return ''` ... read n)"""
    fl = flow_of(f)

    def gen(n):
        if n.kind != 'branch' or n.test is None or isinstance(n.test, (ast.For, ast.AsyncFor, ast.While)):
            return False
        for a, ap in facts.split_conj(n.test, bool(n.polarity)):
            while isinstance(a, ast.UnaryOp) and isinstance(a.op, ast.Not):
                a, ap = a.operand, not ap
            if isinstance(a, ast.Compare) and len(a.ops) == 1 and isinstance(a.ops[0], (ast.In, ast.NotIn)) \
                    and isinstance(a.left, ast.Name) and a.left.id == name:
                holds = ap if isinstance(a.ops[0], ast.In) else not ap
                cont = a.comparators[0]
                try:
                    contx = ex.expand(cont, cfg.node_containing(n.test) or n)
                except Exception:
                    contx = cont
                if holds and any(match(f"{t}.__dict__", c_) or match(f"vars({t})", c_) for c_ in (cont, contx)):
                    return True
        return False

    def kill(n):
        return any(d.var == name for d in fl.node_defs.get(n.id, []))

    out = {n.id: True for n in cfg.nodes}
    out[cfg.entry.id] = False
    changed = True
    rounds = 0
    while changed and rounds < 50:
        changed = False
        rounds += 1
        for n in cfg.nodes:
            if n is cfg.entry:
                continue
            inn = all(out[p.id] for p in n.pred) if n.pred else False
            val = True if gen(n) else (inn and not kill(n))
            if val != out[n.id]:
                out[n.id] = val
                changed = True
    return bool(at.pred) and all(out[p.id] for p in at.pred)


def _lookup_guarded(ex, cfg, f, t, name_expr, cn):
    """does `t.__getattribute__(name_expr)` at cfg node cn only see names the task has?
    ('ok', why): every alternative of the (expanded) name is under `<alt> in t.__dict__` / `hasattr(t, <alt>)`, or is None
    while the read is only reached under `name is not None`; ('bad', why): an alternative is read although every condition
    on the way was understood and none of them establishes it; None: not understood"""
    path = []
    for tt, p in cfg.conditions(cn):
        path += facts.split_conj(tt, p)
    path_x = []
    for tt, p in cfg.conditions(cn):
        path_x += facts.split_conj(ex.expand(tt, cfg.node_containing(tt)), p)
    # `attributes = t.__dict__ ... if name not in attributes`: the container is an alias, the tested name stays as written
    path_c = []
    for a_, p_ in path:
        b_ = a_
        while isinstance(b_, ast.UnaryOp) and isinstance(b_.op, ast.Not):
            b_ = b_.operand
        if isinstance(b_, ast.Compare) and len(b_.ops) == 1 and isinstance(b_.ops[0], (ast.In, ast.NotIn)):
            nb = ast.Compare(left=b_.left, ops=b_.ops, comparators=[ex.expand(b_.comparators[0], cfg.node_containing(b_))])
            neg = 0
            c_ = a_
            while isinstance(c_, ast.UnaryOp) and isinstance(c_.op, ast.Not):
                neg += 1
                c_ = c_.operand
            path_c.append((nb, p_ if neg % 2 == 0 else not p_))
        else:
            path_c.append((a_, p_))
    e = ex.expand(name_expr, cn)

    def membership(a, ap):
        """(name expression, holds) for `<n> [not] in t.__dict__` / hasattr(t, <n>)"""
        while isinstance(a, ast.UnaryOp) and isinstance(a.op, ast.Not):
            a, ap = a.operand, not ap
        if isinstance(a, ast.Compare) and len(a.ops) == 1 and isinstance(a.ops[0], (ast.In, ast.NotIn)) \
                and (match(f"{t}.__dict__", a.comparators[0]) or match(f"vars({t})", a.comparators[0])):
            return a.left, ap if isinstance(a.ops[0], ast.In) else not ap, 'dict'
        m = match(f"hasattr({t}, $n)", a)
        if m:
            return m['n'], ap, a
        return None

    via_hasattr = []

    def has(conds, alt):
        hits = [mb for mb in (membership(a, ap) for a, ap in conds) if mb is not None and mb[1] and same(mb[0], alt)]
        if hits and not any(mb[2] == 'dict' for mb in hits):
            via_hasattr.append(hits[0][2])
        return bool(hits)

    def is_none_test(a, ap):
        c = cmp_norm(a, ap)
        return bool(c and c[1] in ('is', 'isnot', '==', '!=') and any(isinstance(x, ast.Constant) and x.value is None for x in (c[0], c[2])))

    def none_excluded():
        for a, ap in path:
            c = cmp_oriented(a, ap, lambda x: same(x, name_expr))
            if c and c[1] in ('isnot', '!=') and isinstance(c[2], ast.Constant) and c[2].value is None:
                return True
        return False

    def understood(conds):
        for a, ap in conds:
            if membership(a, ap) is None and not is_none_test(a, ap) and eq_const(a, ap) is None \
                    and not (isinstance(a, ast.Call) and isinstance(a.func, ast.Name) and a.func.id == 'isinstance'):
                return False
        return True

    if has(path_c, name_expr):
        if via_hasattr:
            return 'hasattr', _HASATTR_MSG.format(test=src(via_hasattr[0]), t=t)
        return 'ok', f"read under `{src(name_expr)} in {t}.__dict__`"
    alts = 0
    for (cs, leaf), _ in _ifexp_cases(e):
        conds = list(path_x)
        for tt, p in cs:
            conds += facts.split_conj(tt, p)
        if isinstance(leaf, ast.Constant) and leaf.value is None:
            if not none_excluded():
                if understood(conds + path):
                    return 'bad', f"the looked-up name `{src(name_expr)}` = `{src(e)[:90]}` can be None when the attribute is read"
                return None
            continue
        if not has(conds, leaf):
            if understood(conds + path):
                return 'bad', (f"the alternative `{src(leaf)}` of the looked-up name `{src(name_expr)}` = `{src(e)[:90]}` is read without "
                               f"`{src(leaf)} in {t}.__dict__` on the way")
            return None
        alts += 1
    if not alts:
        return None
    if via_hasattr:
        return 'hasattr', _HASATTR_MSG.format(test=src(via_hasattr[0]), t=t)
    return 'ok', f"`{src(name_expr)}` = {src(e)[:90]}"
