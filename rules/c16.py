"""C16 - accepted mutations have exactly their documented effect and touch nothing else.   (DESIGN.md section 5, C16)

Decided structurally (clauses that are necessary for the behaviour; the spec side of every comparison is the property
text / the docstrings' documented primitive, written down in the tables of this module).  Obligations (floor):

  wiring (9)                   list facades hold their owner and the owner's raw list by reference (a copy is refuted); the
                               publish callback stores what it is given; WBS.roots is the sentinel's children facade
  delegation.children_list (2) append(t) = `t.parent = owner`, unconditional; remove(t) = `owner.children = [x .. if x != t]`
                               for members (True), nothing for non-members (False); filter by identity, never by id
  delegation.link_lists (4)    append = `owner.rel = [old ..] + [t]` (old first, old read from the OWNER - the facade's own
                               `_list` is a snapshot), remove = filtered owner list; each facade edits its own relation
  delegation.operators (7)     Task //,<<,>> = `self.rel += other`, return other; list + = `_list + _to_list(other)`;
                               list <<,>> over every element; WBS // x = sentinel // x
  delegation.wbs (3)           roots setter = `sentinel.children = v`; remove = search from the sentinel; the search removes
                               from `current.children` and recurses into every child with (task, child)
  delegation.remove_all (2)    query with key AND **kwargs, single-task removal per match, returns the matches
  setters_exact.children (4)   in-place clear (rebinding / selective removal refuted), old children released before it,
                               `v.parent = self` for every element of the value in the value's order after it, detach only
                               of left-out old children
  setters_exact.dependencies (6) store a copy of exactly the value; unlink self from the mirror of every OLD element, append
                               self to the mirror of every NEW element; conditions on ids refuted
  append_last (4)              parent setter: leave the old parent first (on every path, before __parent is overwritten),
                               store, APPEND to the new parent; parent None: sentinel append / __parent = None
  subtree_follows (4)          re-parenting never writes children / links of the moved task; _attach/_detach (followed
                               through private helpers) write only __wbs inside self's subtree
  move_index (2)               per task in argument order: remove, then insert at index(before) / index(after) + 1, index
                               taken after the removal; both anchors served
  sort (2)                     ONE stable sort (sorted(..) stored, or list.sort) with key = attribute getter of `key` and
                               reverse=reverse; reversal as a second step / reversed() / [::-1] refuted; a rebinding store
                               must be published
  reorder (3)                  picks = first match per id in ids order, rest = copy minus picks in old order, `picks +
                               rest`; live-list edits refuted; loop and comprehension spellings
  insert_index (3)             anchor = element `index` of the list WITHOUT the task (None when index >= len), looked up
                               before attaching; attach; move(task, before=anchor) under `anchor is not None` only
  frame (29)                   per mutator: raw relation writes only on self / argument elements / old elements / old
                               parent / new parent and only the field documented for that receiver; relation-changing
                               callees stay inside the mutator set
  shared_list_stays_shared (8) no mutator rebinds Task.__children or a children facade's `_list` (contents change in place);
                               the publish callback only ever receives the shared object

Not decided: the resulting list for all states; sort on missing / incomparable attributes; duplicate ids handed to reorder and
dict-based pick idioms (C01/C15, UNDECIDED here); whether validation precedes mutation (C15); what _attach/_detach must
record (C11: events touching only __wbs are never counted as `extra effect`); the stale `_list` snapshot of the link-list
facades is only guarded on the write side (append/remove must re-read the owner).

Engine limitations worked around in this module: (1) Effects gives roots, not the provenance of loop variables -> own
classification (`classify_list` / `elem_class`: argument / old list live / old list copy, with the cfg node that evaluated it);
(2) Expander treats attribute paths without an entry definition as uniquely defined by a conditional store and keeps locals
that are mutated through methods opaque -> object identity is followed by `resolve` / `deref` instead; in-place edits through
a local alias are re-attributed to the relation field in `events`; (3) loops written as comprehensions / any() have no cfg
node -> `binding_of`; (4) path coverage ("effect on every accepted path, except the documented no-op exit") is computed here
(`covered`, `escaping_path`, `guard_anchor`), with validation guards (other side only raises) removed from path conditions
and implied negated conjunctions dropped; (5) a required effect that is not found while the function hands work to a helper
the rule cannot follow ends UNDECIDED (`A.absent`), never REFUTED.

Round 3 generalisations: insert_index judges the anchor on the Expander-folded expression (if/else arms, fill loops, spliced
helpers, a local for the normalised index), accepts `if i < len(L): move(t, before=L[i])` and the `L = copy; L.remove(t)` idiom,
and times the lookup by the statements that READ the facade list (`_facade_read_nodes`), not by where the subscript stands;
move_index splits the insert position into cases (`_index_variants`: per-branch locals incl. `a, k = x, 0` pairs hoisted out of
the loop, conditional expressions); sort accepts a key function held in a local assigned per branch or built by a helper from
`key` (`_helper_key_kinds`) and list.sort arguments made positional by the normaliser; delegation.wbs follows an entry point that
only guards and forwards to a private recursive worker (`_trampoline`), frame follows private helpers called on self; receivers /
loop sources of unknown provenance end UNDECIDED (a filtered comprehension as loop source is read as loop + condition:
`elem_class_filtered`).  New obligation clause in append_last: an exit of the parent setter that does nothing when the given
parent already is the task's parent is refuted (re-appending a member must move it last).

Round 4: the recursive WBS search is DISCOVERED (`_find_search`: WBS.__remove, or the self-recursive function WBS.remove calls
with its argument and the sentinel; parameter roles taken from that call), so it may be renamed / moved to module level / made
static / take its parameters in another order - the mutator set `ALLM` is rebuilt per run; remove() may hand back the membership
test or a result flag (`found = task in list ... return found`); link-list append through a local grown in straight-line code
(`_grown_local`); sort: one sorted() per branch held in a local, nested `def` key functions, `clear(); extend(x)` == `[:] = x`
(`_fold_clear_extend`, also reorder); `_attach/_detach` as one flat loop over `[self] + <descendants>`; dependency setters accept
`_unique_tasks(<argument>)` as the given tasks (F37).  New clauses: shared_list_stays_shared (4) `_to_list` builds a new list on
every path (returning a facade's backing list / the facade itself is refuted: setters would clear the list they iterate);
remove() returning the negated membership; link operators reading the other relation; a stored dependency list in another order.
Not followed: work handed on as a callable (`helper(query, lambda t: self.remove(t))`) ends UNDECIDED (`A.deferred_work`).

Round 5: the subtree search may be ITERATIVE (`_worklist_walk`: `W = [cur]; while W: x = W.pop(); ...; W.extend(x.children)` with
deque / pop(0) / `+=` / per-child append / reversed, list, tuple wrappers; a sliced or filtered push is refuted) and static;
`setattr(x, 'children', v)` / `getattr(x, 'children')` with a literal name - or a class-level constant of the analysed class - are
the property store / load (`events`, `_fold_getattr`); facade methods moved into a shared base class are found through the MRO and
analysed once per documented class (`A.fn`, `A.cur_cls`, `A.class_const`); an accumulator filled by one loop is a copy of the
loop's iterable (`classify_list`), a conditionally filled one a filtered loop (`elem_class_filtered`); `list(filter(lambda ..))`;
method calls on local builtin containers are not relation events (`_plain_container`); insert: two-step clamp of a negative index
(`i += len(L)` then `i = 0` / `max(i, 0)`).  New refutations: a negative index shifted but not clamped / clamped to a non-zero
constant / clamped without the shift (insert_index); `L[i], L[j] = L[j], L[i]` on the children list (reorder).  Made UNDECIDED
because not positive: attach only for non-members with the list edited directly (insert); mirror update through the other task's
own list facade (dependency setters).  Left undecided: element-wise stores through a temporary in reorder; dict-based picks.

Round 6: a mirror-facade call / mirror property store (`v.predecessors.remove(self)`) made for every element of the LIVE own list is
refuted when the callee (transitively) edits that very field in place - the re-entrant setter shrinks the list under the loop; over
a copy or over the argument it stays UNDECIDED.  A mirror list rebuilt by an id comparison is refuted.  remove_all: `q if q else
<empty>` is the matches; a filtered subset of the query, or a value returned on a path without any removal, is refuted; other
unrecognised return expressions are UNDECIDED.  `A if c else A` left by element-wise tuple splices is simplified; `tuple(x)` as a
loop source is x; WBS.__floordiv__ may hold the delegation result in a local.

Round 7: the subtree search may also be FLAT (`_flat_walk`: one loop over `[cur] + cur.all_children`, also built with `+=` /
extend / `[cur, *..]`; direct children only, the start task missing, or a filtered list are refuted); an index held in a local
(`i = L.index(x)` ... `L.insert(i + 1, t)`) is looked up where the local is assigned; the children setter may have a separate path
for an EMPTY value (release + clear [+ detach] + return) - releasing there without the `_detach()` step that the general path
performs is refuted; `_to_list` written out (`[p] if isinstance(p, Task) else [t for t in p if t is not None]`) is the argument;
remove_all may loop over a copy of the matches.  New clauses: move iterating its un-materialised argument more than once
(one-shot iterables) is refuted; shared_list_stays_shared (5): the list query `__call__` never hands out the live list
(`return self` / `_ImmutableTaskList(self._list)`), because remove_all walks the result while removing.  remove_all with the match
test inside a loop over something else than the query is UNDECIDED (was a wrong `some matches are not removed`).

Round 8: WBS `//` may be written out (`self.roots = self.roots + other` / `sentinel.children += other`; return other; replacing
instead of adding / wrong return refuted); `_attach` / `_detach` as a worklist seeded with self (`_worklist_walk`; a walk that
continues with parents is outside the subtree); remove_all may build its query per branch of a test on the key (each branch is
checked: a branch that drops **kwargs - unless kwargs is known empty there - or the key - unless key is None there - is refuted).
Children setter: a value de-duplicated with `_unique_tasks` before the re-parent loop is refuted (a task named again must end at
its LAST position); selective removals that are followed by the complete clear are a pre-step (UNDECIDED, was a wrong `does not
end up in the given order`).  Not decided: remove_all rewritten as one recursive pass that tests each task when it is visited
(C16-r82) - whether that differs from `query first, then remove` depends on predicates that look at tree state.

Round 9: relation events on paths that can only end in a raise (rollback in `except ..: ..; raise`) are not effects of a call that
returns and are dropped (`events`); the publish callback may also write non-relation fields (caches); template-method hooks of a
shared facade base class are followed for the analysed subclass (`A.hook_store`: `self._assign(v)` == `owner.prop = v`,
`A.hook_value`: `self._current()` == its return expression).  sort: when no sort compares the attribute value itself although a
`type(key) is str` path reaches a sort, the single-attribute case is refuted (sorted through the joined str() form).

Round 10: constant tests left by a helper spliced with a constant flag (`if False:`, `a if False else b`) are dead code / no
condition (`_dead_branch`, `_cf`); hook stores may carry any value expression over self and the hook's parameters
(`_remove_existing(task)`); `self._holds(task)` (validation + `task in self._list`) is the membership test; the children facade's
remove may be inherited; an unconditional `_detach()` of all old children is UNDECIDED when `_detach` itself tests the parent.
Not decided: reorder through an id->task dict (C16-r102): its defect needs a repeated id in the argument (C01's subject).

Round 11: parent setter: the sentinel hand-over may be written as the assignment the sentinel's append performs
(`self.parent = self.__wbs._root()`, under `parent is None` only; any other value of a recursive own-parent store is left over).
move may prepare the new order in a working copy (`W = self._list.copy()`; W.remove / W.insert(W.index(anchor) + k, t);
`self._list[:] = W` once, outside every loop, on every accepted path - `_working_copy`; an index looked up in the not yet edited
`self._list` is refuted).  move as one splice `rest[:pos] + tasks + rest[pos:]` with `rest = [t for t in list if t not in tasks]`
and `tasks` the argument sequence as given is refuted (`_splice_repeats`: a task named twice is listed twice); other slice-store
shapes stay UNDECIDED.  remove_all: the searchable list may be hoisted into a local (`q = self.tasks; q(key, **kwargs)`).
"""
from __future__ import annotations

import ast

from sa import facts
from sa.cfg import cfg_of
from sa.effects import Effects
from sa.flow import flow_of, Expander
from sa.model import walk_no_nested, src, unmangle, AnalysisError
from sa.pat import match, same
from typing import Dict, List, Optional, Set, Tuple
from sa.cfg import Node
from sa.model import Func

REL_FIELDS = {'_Task__parent', '_Task__children', '_Task__predecessors', '_Task__successors', '_Task__wbs', '_list'}
REL_PROPS = {'parent', 'children', 'predecessors', 'successors', 'roots'}


# ---------------------------------------------------------------------------------------------------------------------
# events
class Ev:
    """something in a function that changes (or may change) relation state"""
    __slots__ = ('kind', 'node', 'cn', 'name', 'w', 'ci', 'stmt', 'used')

    def __init__(self, kind, node, cn, name, w=None, ci=None, stmt=None):
        self.kind = kind      # write | setter | call | publish
        self.node = node      # ast node (statement of a write, target Attribute of a setter store, Call of a call)
        self.cn = cn          # cfg node
        self.name = name      # field (write) / property (setter) / callee name (call)
        self.w = w
        self.ci = ci
        self.stmt = stmt      # for setter stores: the Assign / AugAssign statement
        self.used = False

    def __repr__(self):
        return f"<Ev {self.kind} {self.name} {src(self.node)[:50]}>"


def stmt_of_target(f: Func, target: ast.AST):
    for n in walk_no_nested(f.node):
        if isinstance(n, ast.Assign):
            for t in n.targets:
                for x in ([t] if not isinstance(t, (ast.Tuple, ast.List)) else t.elts):
                    if x is target:
                        return n
        elif isinstance(n, (ast.AugAssign, ast.AnnAssign)) and n.target is target:
            return n
    return None


def _plain_container(f: Func, recv) -> bool:
    """recv is a local name that is only ever bound to a builtin container built on the spot ([..], list(..), deque(..), set(..),
    a comprehension): method calls on it (append / remove / pop ...) edit that container, never a task list facade"""
    if not isinstance(recv, ast.Name) or recv.id in f.params:
        return False
    ds = flow_of(f).defs_of(recv.id)
    if not ds:
        return False
    for d in ds:
        if d.kind == 'aug':
            continue
        v = d.value if d.kind == 'assign' else None
        if v is None:
            return False
        if isinstance(v, (ast.List, ast.ListComp, ast.Set, ast.SetComp, ast.Dict, ast.DictComp, ast.Tuple)):
            continue
        if isinstance(v, ast.Call) and ((isinstance(v.func, ast.Name) and v.func.id in ('list', 'deque', 'set', 'dict', 'sorted')) or
                                        (isinstance(v.func, ast.Attribute) and v.func.attr == 'deque')):
            continue
        if isinstance(v, ast.Call) and isinstance(v.func, ast.Attribute) and v.func.attr == 'copy' and not v.args and \
                isinstance(v.func.value, ast.Attribute) and v.func.value.attr in ('_list', '_Task__children', '_Task__predecessors',
                                                                                  '_Task__successors'):
            continue        # a copy of a raw list is a plain list
        return False
    return True


def events(A, f: Func) -> List[Ev]:
    """relation events of f: raw writes to relation fields, property-setter stores of relation properties, calls of
    package functions that (transitively) write relation fields, calls of the facade's publish callback"""
    cfg = cfg_of(f)
    out: List[Ev] = []
    for w in A.eff.direct_writes(f):
        if w.field not in REL_FIELDS and isinstance(w.recv, ast.Name) and w.kind != 'store':
            # in-place edit through a local alias of a relation list (`lst = self._list; lst.remove(x)`)
            cn0 = cfg.node_containing(w.node) or cfg.node_of(w.node)
            d = deref(f, w.recv, cn0)
            if isinstance(d, ast.Attribute) and d.attr in REL_FIELDS:
                from sa.effects import Write
                w = Write(d.attr, A.eff.root_of(d.value, f), w.node, f, w.kind, d.value, A.typer.expr_type(d.value, f))
        if w.root == 'fresh' and w.field not in REL_FIELDS:
            continue
        if w.field in REL_FIELDS:
            out.append(Ev('write', w.node, cfg.node_containing(w.node) or cfg.node_of(w.node), w.field, w=w))
    for ci in A.cg.calls_in(f):
        if ci.kind == 'setter' and ci.name in REL_PROPS:
            st = stmt_of_target(f, ci.node)
            out.append(Ev('setter', ci.node, cfg.node_containing(ci.node), ci.name, ci=ci, stmt=st))
        elif ci.kind in ('call', 'operator', 'ctor') and isinstance(ci.node, (ast.Call, ast.BinOp)):
            if isinstance(ci.node, ast.Call) and isinstance(ci.node.func, ast.Attribute) and \
                    ci.node.func.attr.endswith('__setter'):
                out.append(Ev('publish', ci.node, cfg.node_containing(ci.node), ci.name, ci=ci))
                continue
            hit = False
            if ci.kind == 'ctor' and ci.name in ('_ImmutableTaskList', '_ChildrenList', '_PredecessorsList', '_SuccessorsList'):
                continue     # a new facade object: its own `_list` field is not relation state of any task
            if isinstance(ci.node, ast.Call) and isinstance(ci.node.func, ast.Attribute) and _plain_container(f, ci.node.func.value):
                continue     # `work.append(x)` on a local list / deque / set: matched by method name only, no task relation
            for t in ci.targets:
                if t is None:
                    continue
                if any(fld in REL_FIELDS for fld, _ in A.eff.writes_star(t)):
                    hit = True
            if hit:
                out.append(Ev('call', ci.node, cfg.node_containing(ci.node), ci.name, ci=ci))
    from sa.types import CallInfo
    # `self._assign(v)` where the analysed class implements the hook as `owner.<property> = v`: the property store itself
    for n in walk_no_nested(f.node):
        if isinstance(n, ast.Expr) and isinstance(n.value, ast.Call):
            hs = A.hook_store(f, n.value)
            if hs is None:
                continue
            recv, prop, val = hs
            q = f"wbs.WBS.{prop}.setter" if prop == 'roots' else f"task.Task.{prop}.setter"
            if not A.prog.has_func(q):
                continue
            tgt = ast.copy_location(ast.Attribute(value=recv, attr=prop, ctx=ast.Store()), n.value)
            st = ast.copy_location(ast.Assign(targets=[tgt], value=val), n)
            ast.fix_missing_locations(st)
            out = [e for e in out if e.node is not n.value]
            out.append(Ev('setter', tgt, cfg.node_of(n) or cfg.node_containing(n.value), prop,
                          ci=CallInfo(tgt, [A.prog.func(q)], 'setter', True, 'Task', prop), stmt=st))
    # `setattr(x, 'children', v)` with a literal relation property name is the property store `x.children = v`
    for n in walk_no_nested(f.node):
        if isinstance(n, ast.Expr) and isinstance(n.value, ast.Call) and isinstance(n.value.func, ast.Name) and \
                n.value.func.id == 'setattr' and len(n.value.args) == 3 and not n.value.keywords:
            c = n.value
            nm = c.args[1] if isinstance(c.args[1], ast.Constant) else A.class_const(f, c.args[1])
            if nm is None or nm.value not in REL_PROPS:
                continue
            prop = nm.value
            ty = A.typer.expr_type(c.args[0], f)
            q = f"wbs.WBS.{prop}.setter" if (prop == 'roots' or ty == 'WBS') else f"task.Task.{prop}.setter"
            if ty not in (None, 'Task', 'WBS') or not A.prog.has_func(q):
                continue
            tgt = ast.copy_location(ast.Attribute(value=c.args[0], attr=prop, ctx=ast.Store()), c)
            st = ast.copy_location(ast.Assign(targets=[tgt], value=c.args[2]), n)
            ast.fix_missing_locations(st)
            ci = CallInfo(tgt, [A.prog.func(q)], 'setter', True, ty or 'Task', prop)
            out.append(Ev('setter', tgt, cfg.node_of(n) or cfg.node_containing(c), prop, ci=ci, stmt=st))
    # the property speaks about calls that RETURN: what happens on a path that can only end in a raise (a rollback in an
    # `except ...: ...; raise` handler, clean-up before an error) is the subject of C15, not an effect of an accepted call
    out = [e for e in out if e.cn is None or e.cn is cfg.exit or cfg.can_reach(e.cn, cfg.exit)]
    out = [e for e in out if not _in_dead_code(cfg, e.cn)]     # `if False: ...` of a helper spliced with a constant flag
    return out


# ---------------------------------------------------------------------------------------------------------------------
# paths
def _dead_branch(n) -> bool:
    """branch node of a test that is a literal constant with the other truth value (`if False:` body, left behind when a shared
    helper is spliced with a constant flag): never taken"""
    return n is not None and n.kind == 'branch' and isinstance(n.test, ast.Constant) and bool(n.test.value) != bool(n.polarity)


def _in_dead_code(cfg, cn) -> bool:
    if cn is None:
        return False
    dom = cfg.dominators().get(cn.id, set())
    return any(_dead_branch(cfg.nodes[i]) for i in dom)


def _cf(e):
    """`A if <constant> else B` is A or B"""
    while isinstance(e, ast.IfExp) and isinstance(e.test, ast.Constant):
        e = e.body if e.test.value else e.orelse
    return e


def opposite_branch(cfg, test: ast.AST, pol: bool) -> Optional[Node]:
    for n in cfg.nodes:
        if n.kind == 'branch' and n.test is test and n.polarity == (not pol):
            return n
    return None


def is_rejection(cfg, test: ast.AST, pol: bool) -> bool:
    """the other outcome of the test never reaches a normal exit (it only raises): the test is a validation guard"""
    b = opposite_branch(cfg, test, pol)
    if b is None:
        return False
    return not cfg.can_reach(b, cfg.exit)


def path_atoms(A, f: Func, cn: Node, since: Optional[Node] = None) -> List[Tuple[ast.AST, bool, ast.AST]]:
    """conditions (expanded, split into atoms) under which cfg node cn runs, without validation guards.
    `since`: only branches dominated by that node (conditions inside a loop body)"""
    cfg = cfg_of(f)
    ex = A.X(f)
    out = []
    dom = cfg.dominators().get(cn.id, set())
    for i in sorted(dom):
        b = cfg.nodes[i]
        if b.kind != 'branch' or isinstance(b.test, (ast.For, ast.AsyncFor)):
            continue
        if since is not None and not (cfg.dominates(since, b) and b is not since):
            continue
        if is_rejection(cfg, b.test, b.polarity):
            continue
        if isinstance(b.test, ast.Constant):
            continue        # `if True:` / `else` of `if False:`: no condition at all
        tn = cfg.node_containing(b.test)
        t = ex.expand(b.test, tn)
        for a, p in facts.split_conj(t, b.polarity):
            a, p = strip_not(a, p)
            out.append((a, p, b.test))
    return _drop_implied(out)


def _canon(a: ast.AST, p: bool):
    """(text, polarity) with `is not` / `!=` / `not in` folded into the polarity"""
    a, p = strip_not(a, p)
    if isinstance(a, ast.Compare) and len(a.ops) == 1:
        FOLD = {ast.IsNot: ast.Is, ast.NotEq: ast.Eq, ast.NotIn: ast.In}
        if type(a.ops[0]) in FOLD:
            a = ast.Compare(left=a.left, ops=[FOLD[type(a.ops[0])]()], comparators=a.comparators)
            p = not p
    return src(a), p


def _drop_implied(atoms):
    """`not (A and B)` says nothing new once `not A` is known; `A or B` nothing once `A` is known"""
    plain = {_canon(a, p) for a, p, _ in atoms if not isinstance(strip_not(a, p)[0], ast.BoolOp)}
    out = []
    for a, p, t in atoms:
        a0, p0 = strip_not(a, p)
        if isinstance(a0, ast.BoolOp):
            if isinstance(a0.op, ast.And) and not p0 and any((lambda c: (c[0], not c[1]))(_canon(v, True)) in plain for v in a0.values):
                continue
            if isinstance(a0.op, ast.Or) and p0 and any(_canon(v, True) in plain for v in a0.values):
                continue
        out.append((a, p, t))
    return out


def strip_not(a: ast.AST, p: bool) -> Tuple[ast.AST, bool]:
    while isinstance(a, ast.UnaryOp) and isinstance(a.op, ast.Not):
        a, p = a.operand, not p
    return a, p


def covered(cfg, event_nodes: List[Node]) -> Set[int]:
    """ids of nodes through which a path certainly meets an event: the events themselves and the headers of for
    loops whose every iteration meets one (a loop over an empty sequence has nothing to do)"""
    ids = {n.id for n in event_nodes if n is not None}
    changed = True
    while changed:
        changed = False
        for h in cfg.nodes:
            if h.kind != 'for' or h.id in ids:
                continue
            bt = next((s for s in h.succ if s.kind == 'branch' and s.polarity), None)
            if bt is None:
                continue
            # every walk from the element branch meets a covered node before leaving the body or coming back
            seen, todo, ok = set(), [bt], True
            while todo and ok:
                n = todo.pop()
                for s in n.succ:
                    if s.id in ids or s.id in seen:
                        continue
                    if s is h or not cfg.dominates(bt, s):
                        if s is cfg.raise_exit:
                            continue
                        ok = False
                        break
                    seen.add(s.id)
                    todo.append(s)
            if ok:
                ids.add(h.id)
                changed = True
    return ids


def guard_anchor(cfg, cn: Node, since: Optional[Node]) -> Node:
    """the outermost test (after `since`, e.g. a loop header) that decides whether cn runs: when the conditions between
    `since` and cn have been accepted, reaching that test counts as meeting the event"""
    best = cn
    dom = cfg.dominators().get(cn.id, set())
    for i in sorted(dom):
        t = cfg.nodes[i]
        if t.kind == 'test' and t is not cn and (since is None or (cfg.dominates(since, t) and t is not since)):
            if cfg.dominates(t, best):
                best = t
    return best


def escaping_path(cfg, avoid: Set[int]) -> bool:
    """is there a path entry -> normal exit that meets no node of `avoid`"""
    seen, todo = {cfg.entry.id}, [cfg.entry]
    while todo:
        n = todo.pop()
        for s in n.succ:
            if s.id in seen or s.id in avoid or _dead_branch(s):
                continue
            if s is cfg.exit:
                return True
            seen.add(s.id)
            todo.append(s)
    return False


def returns_of(f: Func) -> List[ast.Return]:
    return [n for n in walk_no_nested(f.node) if isinstance(n, ast.Return)]


def enclosing_for_binding(f: Func, cn: Node, name: str) -> Optional[ast.For]:
    """innermost enclosing for statement whose target is the plain name"""
    cfg = cfg_of(f)
    best = None
    for fo in cfg.enclosing_fors(cn):
        if isinstance(fo.target, ast.Name) and fo.target.id == name:
            best = fo
    return best


# ---------------------------------------------------------------------------------------------------------------------
# values
def binding_of(f: Func, node: ast.AST, cn: Node, name: str):
    """the loop that binds `name` around `node`: (target-iter carrier, header cfg node, kind).
    A comprehension / generator expression around the node (any(...), [.. for ..]) counts as a loop whose body is its element
    and filters; the carrier is then a synthetic ast.For and the header is the statement's own cfg node."""
    best = None
    stmt = cn.ast if cn is not None else None
    if stmt is not None:
        roots = [stmt.iter, stmt.target] if isinstance(stmt, (ast.For, ast.AsyncFor)) else [stmt]
        for r in roots:
            for comp in ast.walk(r):
                if isinstance(comp, (ast.ListComp, ast.GeneratorExp, ast.SetComp, ast.DictComp)):
                    inside = [x for g in comp.generators for c in g.ifs for x in ast.walk(c)]
                    for fld in ('elt', 'key', 'value'):
                        if getattr(comp, fld, None) is not None:
                            inside += list(ast.walk(getattr(comp, fld)))
                    if any(x is node for x in inside):
                        for g in comp.generators:
                            if isinstance(g.target, ast.Name) and g.target.id == name:
                                fo = ast.For(target=g.target, iter=g.iter, body=[], orelse=[])
                                fo._comp = comp
                                fo._gen = g
                                best = (fo, cn, 'comp')
    if best is not None:
        return best
    fo = enclosing_for_binding(f, cn, name)
    if fo is not None:
        return fo, cfg_of(f).node_of(fo), 'for'
    return None, None, None


def comp_skips(fo, node) -> List[ast.AST]:
    """filters of a comprehension loop that stand between the generator and `node` (node is evaluated only when they hold)"""
    g, comp = fo._gen, fo._comp
    out = []
    for c in g.ifs:
        if any(x is node for x in ast.walk(c)):
            break
        out.append(c)
    return out


def resolve(f: Func, e: ast.AST, at: Optional[Node]) -> Tuple[ast.AST, Optional[Node], int]:
    """follow plain local names to their unique plain assignment: (expression, cfg node that evaluated it, hops)"""
    fl = flow_of(f)
    hops = 0
    e = _cf(e)
    while isinstance(e, ast.Name) and at is not None and hops < 8:
        d = fl.unique_def(e.id, at)
        if d is None or d.kind != 'assign' or d.value is None or d.node is at:
            break
        e, at = _cf(d.value), d.node
        hops += 1
    return e, at, hops


def deref(f: Func, e: ast.AST, at: Optional[Node], depth: int = 0) -> ast.AST:
    """which OBJECT an expression denotes: local aliases are followed to their (unique) definition, also when the object is
    later mutated through the alias (`lst = self._list; lst.remove(x)` edits self._list). Identity only - contents may differ."""
    if depth > 8 or e is None:
        return e
    if isinstance(e, ast.Name):
        r, rn, hops = resolve(f, e, at)
        if hops and isinstance(r, (ast.Name, ast.Attribute)):
            return deref(f, r, rn, depth + 1)
        return e
    if isinstance(e, ast.Attribute):
        v = deref(f, e.value, at, depth + 1)
        if v is not e.value:
            new = ast.Attribute(value=v, attr=e.attr, ctx=ast.Load())
            return ast.copy_location(new, e)
    return e


def norm_list(e: ast.AST):
    """abstract list term:
        ('filter', source, var, [conds])   [v for v in source if ..] / list(source) / source.copy() / source[:]
        ('concat', [terms])                a + b / a.__add__(b) / [*a, *b, x]
        ('lit', [elts])                    [x, y]
        ('ref', expr)                      anything else (the object itself, no copy)
        ('mapped', comp)                   comprehension whose element is not the loop variable
    """
    if isinstance(e, ast.ListComp):
        if len(e.generators) == 1 and isinstance(e.generators[0].target, ast.Name) and not e.generators[0].is_async:
            g = e.generators[0]
            if isinstance(e.elt, ast.Name) and e.elt.id == g.target.id:
                return ('filter', g.iter, g.target.id, list(g.ifs))
        return ('mapped', e)
    if isinstance(e, ast.Call):
        fn = e.func
        if isinstance(fn, ast.Name) and fn.id == 'list' and len(e.args) == 1 and not e.keywords:
            fl_ = e.args[0]
            if isinstance(fl_, ast.Call) and isinstance(fl_.func, ast.Name) and fl_.func.id == 'filter' and len(fl_.args) == 2 and \
                    isinstance(fl_.args[0], ast.Lambda) and len(fl_.args[0].args.args) == 1:
                # list(filter(lambda v: C, X))  ==  [v for v in X if C]
                return ('filter', fl_.args[1], fl_.args[0].args.args[0].arg, [fl_.args[0].body])
            inner = norm_list(e.args[0])
            if inner[0] in ('filter', 'concat', 'lit'):
                return inner
            if isinstance(e.args[0], ast.GeneratorExp):
                g = e.args[0]
                if len(g.generators) == 1 and isinstance(g.generators[0].target, ast.Name) and \
                        isinstance(g.elt, ast.Name) and g.elt.id == g.generators[0].target.id:
                    return ('filter', g.generators[0].iter, g.elt.id, list(g.generators[0].ifs))
                return ('mapped', g)
            return ('filter', e.args[0], None, [])
        if isinstance(fn, ast.Attribute) and fn.attr == 'copy' and not e.args:
            return ('filter', fn.value, None, [])
        if isinstance(fn, ast.Attribute) and fn.attr == '__add__' and len(e.args) == 1:
            return ('concat', _parts(fn.value) + _parts(e.args[0]))
    if isinstance(e, ast.Subscript) and isinstance(e.slice, ast.Slice) and e.slice.lower is None and \
            e.slice.upper is None and e.slice.step is None:
        return ('filter', e.value, None, [])
    if isinstance(e, ast.BinOp) and isinstance(e.op, ast.Add):
        return ('concat', _parts(e.left) + _parts(e.right))
    if isinstance(e, ast.List):
        if any(isinstance(x, ast.Starred) for x in e.elts):
            parts = []
            for x in e.elts:
                if isinstance(x, ast.Starred):
                    parts.append(('filter', x.value, None, []))
                else:
                    if parts and parts[-1][0] == 'lit':
                        parts[-1][1].append(x)
                    else:
                        parts.append(('lit', [x]))
            return ('concat', parts)
        return ('lit', list(e.elts))
    return ('ref', e)


def _parts(e):
    t = norm_list(e)
    if t[0] == 'concat':
        return t[1]
    return [t]


def is_plain_copy(t) -> bool:
    return t[0] == 'filter' and not t[3]


def list_source(t) -> Optional[ast.AST]:
    """expression whose elements make up the term, for copies and the object itself"""
    if t[0] == 'ref':
        return t[1]
    if t[0] == 'filter':
        # a copy of a copy is a copy
        inner = norm_list(t[1])
        if inner[0] == 'filter' and not inner[3]:
            return list_source(inner)
        return t[1]
    return None


def cmp_kind(cond: ast.AST, var: str, other: ast.AST) -> str:
    """how a filter condition relates the loop variable to `other` (a task expression):
        'ne'   var != other / var is not other / not var == other       (keeps everything but the task)
        'eq'   var == other / var is other                              (keeps only the task)
        'id-ne' / 'id-eq'   the same comparisons made on .id
        '?'    anything else"""
    c, pol = strip_not(cond, True)
    if not (isinstance(c, ast.Compare) and len(c.ops) == 1):
        return '?'
    l, op, r = c.left, c.ops[0], c.comparators[0]

    def is_var(x):
        return isinstance(x, ast.Name) and x.id == var

    def is_var_id(x):
        return isinstance(x, ast.Attribute) and x.attr == 'id' and is_var(x.value)

    def is_other_id(x):
        return isinstance(x, ast.Attribute) and x.attr == 'id' and same(x.value, other)

    if isinstance(op, (ast.NotEq, ast.IsNot)):
        neg = True
    elif isinstance(op, (ast.Eq, ast.Is)):
        neg = False
    else:
        return '?'
    if not pol:
        neg = not neg
    if (is_var(l) and same(r, other)) or (is_var(r) and same(l, other)):
        return 'ne' if neg else 'eq'
    if (is_var_id(l) and is_other_id(r)) or (is_var_id(r) and is_other_id(l)):
        return 'id-ne' if neg else 'id-eq'
    return '?'


def mentions_id(e: ast.AST) -> bool:
    for n in ast.walk(e):
        if isinstance(n, ast.Attribute) and n.attr in ('id', '_Task__id'):
            return True
        if isinstance(n, ast.Call) and isinstance(n.func, ast.Name) and n.func.id in ('hash',):
            return True
    return False


def const_of(e: ast.AST):
    if isinstance(e, ast.Constant):
        return e.value
    return '<non-constant>'


def names_in(e: ast.AST) -> Set[str]:
    return {n.id for n in ast.walk(e) if isinstance(n, ast.Name)}


# ---------------------------------------------------------------------------------------------------------------------
LIST = '_list'
# documented relation edited by each facade class / operator (property text, docstrings)
LINK_FACADES = {'_PredecessorsList': 'predecessors', '_SuccessorsList': 'successors'}
TASK_OPERATORS = {'__floordiv__': 'children', '__lshift__': 'predecessors', '__rshift__': 'successors'}
LIST_OPERATORS = {'__lshift__': 'predecessors', '__rshift__': 'successors'}
DEP = {'predecessors': ('_Task__predecessors', '_Task__successors'),
       'successors': ('_Task__successors', '_Task__predecessors')}
ROOT = '_WBS__root'

# the mutators of the property (anchors) - the closed set inside which relation-changing calls may stay
MUTATORS_TASK = ['task.Task.parent.setter', 'task.Task.children.setter', 'task.Task.predecessors.setter',
                 'task.Task.successors.setter', 'task.Task._attach', 'task.Task._detach', 'task.Task.__set_children',
                 'task.Task.__floordiv__', 'task.Task.__lshift__', 'task.Task.__rshift__']
MUTATORS_FACADE = ['task._ChildrenList.append', 'task._ChildrenList.remove', 'task._ChildrenList.insert',
                   'task._ChildrenList.move', 'task._ChildrenList.sort', 'task._ChildrenList.reorder',
                   'task._PredecessorsList.append', 'task._PredecessorsList.remove', 'task._SuccessorsList.append',
                   'task._SuccessorsList.remove', 'task._TaskList.remove_all', 'task._ImmutableTaskList.__add__',
                   'task._ImmutableTaskList.__lshift__', 'task._ImmutableTaskList.__rshift__']
MUTATORS_WBS = ['wbs.WBS.roots.setter', 'wbs.WBS.remove', 'wbs.WBS.__remove', 'wbs.WBS.remove_all', 'wbs.WBS.__floordiv__']
ALLM = MUTATORS_TASK + MUTATORS_FACADE + MUTATORS_WBS
SEARCH_DEFAULT = 'wbs.WBS.__remove'


def _find_search(a):
    """the search behind WBS.remove and which of its parameters is the searched task / the visited task:
    (function, task parameter, visited parameter).  Normally the private method WBS.__remove(task, current); a refactoring may
    have moved it (module level, static, other name, other parameter order, iterative instead of recursive): it is the
    relation-changing function WBS.remove calls with its own argument and the sentinel root"""
    prog = a.prog
    if prog.has_func('wbs.WBS.remove'):
        f = prog.func('wbs.WBS.remove')
        for ci in a.cg.calls_in(f):
            if ci.kind != 'call' or not isinstance(ci.node, ast.Call):
                continue
            tg = [t for t in ci.targets if t is not None]
            if len(tg) != 1 or (tg[0].qual in ALLM and tg[0].qual != SEARCH_DEFAULT) or tg[0].module.name not in ('wbs', 'task'):
                continue
            g = tg[0]
            if g.qual != SEARCH_DEFAULT and not any(g in x.targets for x in a.cg.calls_in(g)) and \
                    not any(fld in REL_FIELDS for fld, _ in a.eff.writes_star(g)):
                continue
            ps = g.params[1:] if g.kind in ('method', 'getter', 'setter') else list(g.params)
            args = facts.bound_args(ci.node, g)
            if len(ps) != 2 or len(args) != 2 or any(x is None for x in args):
                continue
            tp = cur = None
            for prm, arg in zip(ps, args):
                x = Expander(prog, f, a.typer).expand(arg, cfg_of(f).node_containing(arg))
                if isinstance(x, ast.Name) and len(f.params) > 1 and x.id == f.params[1]:
                    tp = prm
                elif isinstance(x, ast.Attribute) and x.attr == ROOT and isinstance(x.value, ast.Name) and x.value.id == f.self_name:
                    cur = prm
            if tp and cur:
                return g, tp, cur
    if prog.has_func(SEARCH_DEFAULT):
        g = prog.func(SEARCH_DEFAULT)
        ps = g.params[1:] if g.kind in ('method', 'getter', 'setter') else list(g.params)
        if len(ps) == 2:
            return g, ps[0], ps[1]
    return None


class _GetattrFold(ast.NodeTransformer):
    def __init__(self, a=None, f=None):
        self.a, self.f = a, f

    def visit_Call(self, n):
        n = self.generic_visit(n)
        if self.a is not None and self.f is not None and self.a.cur_cls.get(self.f.qual):
            hv = self.a.hook_value(self.f, n)
            if hv is not None:
                return ast.copy_location(hv, n)
        if isinstance(n.func, ast.Name) and n.func.id == 'getattr' and len(n.args) == 2 and not n.keywords:
            nm = n.args[1] if isinstance(n.args[1], ast.Constant) else (
                self.a.class_const(self.f, n.args[1]) if self.a is not None else None)
            if nm is not None and isinstance(nm.value, str) and nm.value.isidentifier():
                return ast.copy_location(ast.Attribute(value=n.args[0], attr=nm.value, ctx=ast.Load()), n)
        return n

    def visit_IfExp(self, n):
        n = self.generic_visit(n)
        if isinstance(n.test, ast.Constant):
            return n.body if n.test.value else n.orelse
        if same(n.body, n.orelse):
            return n.body       # `(A, x) if c else (A, y)` taken apart element-wise leaves `A if c else A`
        return n


def _fold_getattr(e, a=None, f=None):
    """`getattr(x, 'name')` with a literal name (or a class-level constant of the analysed class) reads `x.name`"""
    hooks = a is not None and f is not None and bool(a.cur_cls.get(f.qual))
    if e is None or not any((isinstance(n, ast.Call) and isinstance(n.func, ast.Name) and n.func.id == 'getattr') or
                            (hooks and isinstance(n, ast.Call) and isinstance(n.func, ast.Attribute) and not n.args) or
                            (isinstance(n, ast.IfExp) and (same(n.body, n.orelse) or isinstance(n.test, ast.Constant)))
                            for n in ast.walk(e)):
        return e
    import copy
    return _GetattrFold(a, f).visit(copy.deepcopy(e))


class A:
    """per run analysis state"""

    def __init__(self, ctx):
        self.ctx = ctx
        self.prog = ctx.prog
        self.cg = ctx.cg
        self.typer = ctx.typer
        self.eff = Effects(ctx.prog, ctx.typer, ctx.cg)
        self._x = {}
        self._ev = {}
        self.cur_cls = {}           # qual of an inherited facade method -> concrete class it is currently analysed for
        self.owner_attr = {}
        self.uniq_ok = False
        ALLM[:] = MUTATORS_TASK + MUTATORS_FACADE + MUTATORS_WBS
        self.search = _find_search(self)        # (function, task parameter, visited parameter) or None
        if self.search is not None and self.search[0].qual != SEARCH_DEFAULT:
            ALLM[:] = [self.search[0].qual if q == SEARCH_DEFAULT else q for q in ALLM]

    def search_args(self, call):
        """(argument for the searched task, argument for the visited task) of a call of the search function"""
        g, tp, cur = self.search
        ps = g.params[1:] if g.kind in ('method', 'getter', 'setter') else list(g.params)
        args = facts.bound_args(call, g)
        m = dict(zip(ps, args))
        return m.get(tp), m.get(cur)

    def X(self, f) -> Expander:
        if f.qual not in self._x:
            self._x[f.qual] = Expander(self.prog, f, self.typer)
        return self._x[f.qual]

    def xp(self, f, e, at=None):
        if isinstance(e, (ast.Name, ast.Attribute)):
            at0 = at if at is not None else flow_of(f).node_of_expr(e)
            d = deref(f, e, at0)
            if d is not e:
                return _fold_getattr(self.X(f).expand(d, at0), self, f)
        return _fold_getattr(self.X(f).expand(e, at), self, f)

    def events(self, f):
        k = (f.qual, self.cur_cls.get(f.qual))
        if k not in self._ev:
            self._ev[k] = events(self, f)
        return self._ev[k]

    def fn(self, q):
        """anchor by qualified name; a facade method that a refactoring moved into a shared base class is found through the
        MRO of the documented class and analysed FOR that class (class-level constants such as `_link_property` are read from it)"""
        if self.prog.has_func(q) or q.count('.') != 2:
            return self.prog.func(q)
        mod, cls, name = q.split('.')
        if cls in self.prog.classes and not name.endswith('.setter'):
            m = self.prog.find_method(cls, name)
            if m is not None and m.cls != cls:
                self.cur_cls[m.qual] = cls
                self._x.pop(m.qual, None)
                return m
        return self.prog.func(q)

    def hook_method(self, f, call):
        """`self.M(..)` inside a method analysed for a concrete subclass (A.cur_cls): the implementation of M in THAT class
        (template-method pattern: base class calls hooks its subclasses implement); None when f has no class context"""
        cls = self.cur_cls.get(f.qual)
        if cls is None or not (isinstance(call, ast.Call) and isinstance(call.func, ast.Attribute) and self.is_self(f, call.func.value)):
            return None
        m = self.prog.find_method(cls, unmangle(call.func.attr))
        if m is None or m is f or m.kind != 'method' or not isinstance(m.node, ast.FunctionDef):
            return None
        return m

    @staticmethod
    def hook_body(m):
        return [st for st in m.node.body if not (isinstance(st, ast.Expr) and isinstance(st.value, ast.Constant))]

    def hook_store(self, f, call):
        """hook `def M(self, v): <self-expr>.<relation property> = v` called as `self.M(X)`:  (receiver expression in terms of
        the caller's self, property, X)  or None"""
        m = self.hook_method(f, call)
        if m is None or call.keywords or len(call.args) != len(m.params) - 1 or any(isinstance(x, ast.Starred) for x in call.args):
            return None
        body = self.hook_body(m)
        if len(body) != 1 or not isinstance(body[0], ast.Assign) or len(body[0].targets) != 1:
            return None
        tg, v = body[0].targets[0], body[0].value
        if not (isinstance(tg, ast.Attribute) and tg.attr in REL_PROPS):
            return None
        if any(isinstance(n, ast.Name) and n.id not in (m.self_name,) for n in ast.walk(tg.value)):
            return None
        bound = set()
        for n in ast.walk(v):
            if isinstance(n, ast.comprehension):
                bound |= names_in(n.target)
        if any(isinstance(n, ast.Name) and isinstance(n.ctx, ast.Load) and n.id not in m.params and n.id not in bound
               for n in ast.walk(v)):
            return None         # the value reads something else than self and the hook's parameters
        if any(not isinstance(x, (ast.Name, ast.Constant)) for x in call.args) and \
                any(sum(1 for n in ast.walk(v) if isinstance(n, ast.Name) and n.id == prm) > 1 for prm in m.params[1:]):
            pass                # a compound argument used several times: substituted textually all the same (pure expressions)
        import copy
        sub = {m.self_name: ast.Name(id=f.self_name, ctx=ast.Load())}
        sub.update({prm: arg for prm, arg in zip(m.params[1:], call.args) if prm not in bound})
        recv = _Subst({m.self_name: sub[m.self_name]}).visit(copy.deepcopy(tg.value))
        val = _Subst(sub).visit(copy.deepcopy(v))
        ast.copy_location(val, call)
        ast.fix_missing_locations(val)
        return recv, tg.attr, val

    def hook_value(self, f, call):
        """hook `def M(self): return <expr over self>` called as `self.M()`: the expression in terms of the caller's self"""
        m = self.hook_method(f, call)
        if m is None or len(m.params) != 1 or call.args or call.keywords:
            return None
        body = self.hook_body(m)
        if len(body) != 1 or not isinstance(body[0], ast.Return) or body[0].value is None:
            return None
        bound = set()
        for n in ast.walk(body[0].value):
            if isinstance(n, ast.comprehension):
                bound |= names_in(n.target)
        if any(isinstance(n, ast.Name) and isinstance(n.ctx, ast.Load) and n.id != m.self_name and n.id not in bound
               for n in ast.walk(body[0].value)):
            return None
        import copy
        return _Subst({m.self_name: ast.Name(id=f.self_name, ctx=ast.Load())}).visit(copy.deepcopy(body[0].value))

    def class_const(self, f, e):
        """value of `self.NAME` / `Cls.NAME` when NAME is a constant assigned in the body of the class f is analysed for (or of
        one of its bases): the ast.Constant, else None"""
        if not (isinstance(e, ast.Attribute) and isinstance(e.value, ast.Name) and (e.value.id == f.self_name or e.value.id in self.prog.classes)):
            return None
        cls = self.cur_cls.get(f.qual) or f.cls
        if e.value.id in self.prog.classes and e.value.id != f.self_name:
            cls = e.value.id
        if cls is None:
            return None
        for ci in self.prog.mro(cls):
            for st in ci.node.body:
                tg = st.targets if isinstance(st, ast.Assign) else [st.target] if isinstance(st, ast.AnnAssign) else []
                if any(isinstance(t, ast.Name) and t.id == e.attr for t in tg):
                    v = st.value
                    return v if isinstance(v, ast.Constant) and v.value is not None else None
        return None

    # ------------------------------------------------------------ small recognisers
    def is_self(self, f, e):
        return isinstance(e, ast.Name) and e.id == f.self_name

    def is_self_attr(self, f, e, attr):
        return isinstance(e, ast.Attribute) and e.attr == attr and self.is_self(f, e.value)

    def is_owner(self, f, e):
        """`self.<owner field>` inside a facade class"""
        oa = self.owner_attr.get(self.cur_cls.get(f.qual) or f.cls) or self.owner_attr.get(f.cls)
        if oa is None:
            raise AnalysisError(f"owner field of facade class {f.cls} is unknown (constructor shape not recognised by C16.wiring)")
        return self.is_self_attr(f, e, oa)

    def is_param(self, f, e, i):
        return isinstance(e, ast.Name) and len(f.params) > i and e.id == f.params[i]

    def leftovers(self, o, f, what):
        """every relation event of f that no clause recognised contradicts `touches nothing else`"""
        n = 0
        if any(x.func == f.qual for x in o.refuted + o.unknown):
            return 0        # the function is already reported: events its clauses did not get to are not `extra`
        known = set(ALLM) | {'task._TaskList.remove'}
        for ev in self.events(f):
            if not ev.used and self.wbs_only(ev):
                continue        # WBS membership bookkeeping (__wbs) is C11's subject
            if not ev.used and ev.kind == 'call' and any(t is not None and t.qual not in known for t in ev.ci.targets):
                n += 1
                o.undecided(f, ev.node, ev.node, f"{what}: `{src(ev.node)[:80]}` changes relations through a helper this rule does "
                                                 f"not follow")
            elif not ev.used:
                n += 1
                o.refute(f, ev.node, ev.node, f"{what}: additional relation effect `{src(ev.node)[:80]}` next to the "
                                              f"documented one")
        return n

    def wbs_only(self, ev) -> bool:
        """the event touches nothing but Task.__wbs"""
        if ev.kind == 'write':
            return ev.w.field == '_Task__wbs'
        if ev.kind == 'call':
            flds = {fld for t in ev.ci.targets if t is not None for fld, _ in self.eff.writes_star(t) if fld in REL_FIELDS}
            return bool(flds) and flds <= {'_Task__wbs'}
        return False

    def opaque_helpers(self, f):
        """relation-changing callees of f that are not documented primitives: helpers whose body the clauses do not follow"""
        known = set(ALLM) | {'task._TaskList.remove'}
        out = []
        for ev in self.events(f):
            if ev.kind == 'call':
                for t in ev.ci.targets:
                    if t is not None and t.qual not in known and t.name != '__init__' and \
                            any(fld in REL_FIELDS for fld, _ in self.eff.writes_star(t)):
                        out.append(t.qual)
        return sorted(set(out))

    def absent(self, o, f, node, construct, msg):
        """a required effect was not found in f: a violation - unless f hands work to a helper the rule does not follow"""
        h = self.opaque_helpers(f)
        d = self.deferred_work(f)
        if h:
            o.undecided(f, node, construct, msg + f" - but part of the work is done by {', '.join(h)}, which this rule does not follow")
        elif d:
            o.undecided(f, node, construct, msg + f" - but the function passes `{src(d[0])[:60]}` on as a callable; what the callee does "
                                                  f"with it is not followed")
        elif self.dynamic_stores(f):
            o.undecided(f, node, construct, msg + f" - but the function stores an attribute by name (`{src(self.dynamic_stores(f)[0])[:70]}`), "
                                                  f"which this rule cannot tie to a relation property")
        else:
            o.refute(f, node, construct, msg)

    def dynamic_stores(self, f):
        """setattr(obj, name, value) / obj.__setattr__(name, value) calls of f"""
        out = []
        for n in walk_no_nested(f.node):
            if isinstance(n, ast.Call) and ((isinstance(n.func, ast.Name) and n.func.id == 'setattr' and len(n.args) == 3) or
                                            (isinstance(n.func, ast.Attribute) and n.func.attr == '__setattr__' and len(n.args) == 2)):
                out.append(n)
        return out

    def deferred_work(self, f):
        """callables that f hands to somebody else (a lambda / nested def containing calls, or a bound method of the package passed
        as an argument): relation effects may happen when the receiver calls them"""
        out = []
        for n in ast.walk(f.node):
            if n is f.node:
                continue
            if isinstance(n, (ast.Lambda, ast.FunctionDef)) and any(isinstance(x, ast.Call) for x in ast.walk(n)):
                fn = self.prog.func_of_node(n)
                try:
                    changes = fn is None or bool(self.events(fn))
                except Exception:
                    changes = True
                if changes:     # a key function that only reads attributes is not deferred work
                    out.append(n)
            elif isinstance(n, ast.Call):
                for x in list(n.args) + [k.value for k in n.keywords]:
                    if isinstance(x, ast.Attribute) and isinstance(x.value, ast.Name) and x.value.id == f.self_name and \
                            self.prog.find_method(f.cls, unmangle(x.attr)) is not None if f.cls else False:
                        out.append(x)
        return out

    def must_pass(self, o, f, evs, noop_nodes, what):
        """every accepted path (entry to a normal exit) meets one of the events, except the documented no-op exits"""
        cfg = cfg_of(f)
        cov = covered(cfg, [e.cn if isinstance(e, Ev) else e for e in evs])
        cov |= {n.id for n in noop_nodes if n is not None}
        if escaping_path(cfg, cov):
            self.absent(o, f, f.node, what, f"{what}: some accepted path returns without performing the documented effect "
                                      f"(the effect is conditional or skipped)")
            return False
        return True


def check(ctx):
    a = A(ctx)
    ctx.assume("Task defines no __eq__/__hash__: == and `in` on tasks decide object identity")
    ctx.assume("term expansion assumes no aliasing writes between a definition and its use inside one function")
    for p in PARTS:
        p(a, ctx)


PARTS = []


def part(fn):
    PARTS.append(fn)
    return fn


# ====================================================================================================== wiring
@part
def wiring(a: A, ctx):
    o = ctx.ob('wiring', 'R4',
               "list facades are built over their owner and the owner's raw list by reference (children: plus the "
               "publish callback that stores the list back); WBS.roots is the sentinel's children facade", floor=9)

    def run(o):
        prog = a.prog
        # constructors: which facade attribute keeps the owner / the list
        base_init = a.fn('task._ImmutableTaskList.__init__')
        st = [(s, t, v) for s, t, v in facts.attr_stores(base_init, LIST)]
        if len(st) == 1 and a.is_self(base_init, st[0][1].value) and a.is_param(base_init, st[0][2], 1):
            o.site(base_init, st[0][0], 'self._list = _list (no copy)')
        else:
            o.refute(base_init, base_init.node, '_list', "the list facade does not keep the list object it is given "
                                                         "(expected `self._list = _list`, by reference)")
        for cls in ('_ChildrenList', '_PredecessorsList', '_SuccessorsList'):
            init = a.fn(f'task.{cls}.__init__')
            own = [(s, t, v) for s, t, v in facts.attr_stores(init) if a.is_self(init, t.value) and a.is_param(init, v, 1)]
            sup = [c for c in facts.calls_named(init, '__init__') if len(c.args) == 1 and a.is_param(init, c.args[0], 2)]
            if len(own) == 1 and sup:
                a.owner_attr[cls] = own[0][1].attr
                a.owner_attr.setdefault(init.cls, own[0][1].attr)       # constructor inherited from a shared base class
                o.site(init, own[0][0], f"owner kept in {unmangle(own[0][1].attr)}, list handed to the base class")
            else:
                o.undecided(init, init.node, f'{cls}.__init__', "constructor does not store its first argument as the owner "
                                                                "and pass its second one to the base class")
        # getters
        for prop, cls, fld in (('children', '_ChildrenList', '_Task__children'),
                               ('predecessors', '_PredecessorsList', '_Task__predecessors'),
                               ('successors', '_SuccessorsList', '_Task__successors')):
            g = a.fn(f'task.Task.{prop}')
            rets = returns_of(g)
            if len(rets) != 1:
                o.undecided(g, g.node, prop, "getter with several returns")
                continue
            v = a.xp(g, rets[0].value)
            if not (isinstance(v, ast.Call) and isinstance(v.func, ast.Name) and v.func.id == cls and len(v.args) >= 2):
                o.undecided(g, rets[0], rets[0], f"getter does not return {cls}(owner, list ...)")
                continue
            if not a.is_self(g, v.args[0]):
                o.refute(g, rets[0], v.args[0], f"the {prop} facade is built for `{src(v.args[0])}` instead of the task itself")
                continue
            if not a.is_self_attr(g, v.args[1], fld):
                t = norm_list(v.args[1])
                if t[0] == 'filter' and list_source(t) is not None and a.is_self_attr(g, list_source(t), fld):
                    o.refute(g, rets[0], v.args[1], f"the {prop} facade receives a copy of {unmangle(fld)}: it must share the "
                                                    f"task's list object (a facade kept by the caller goes stale)")
                else:
                    o.refute(g, rets[0], v.args[1], f"the {prop} facade is built over `{src(v.args[1])}` instead of "
                                                    f"self.{unmangle(fld)}")
                continue
            if prop == 'children':
                cb = v.args[2] if len(v.args) > 2 else None
                cbf = prog.find_method('Task', unmangle(cb.attr)) if isinstance(cb, ast.Attribute) and a.is_self(g, cb.value) else None
                if cbf is None:
                    o.undecided(g, rets[0], rets[0], "publish callback of the children facade is not a method of the task")
                    continue
                sts = [x for x in facts.attr_stores(cbf) if x[1].attr in REL_FIELDS]     # other fields (caches) are not relations
                cws = [w for w in a.eff.direct_writes(cbf) if w.field in REL_FIELDS]
                if len(sts) == 1 and len(cws) == 1 and a.is_self_attr(cbf, sts[0][1], fld) and a.is_param(cbf, sts[0][2], 1):
                    o.site(cbf, sts[0][0], 'publish callback stores the list it is given')
                elif not sts and len(cws) == 1 and cws[0].field == fld and a.is_self(cbf, cws[0].recv) and \
                        _full_slice_store(a, cbf, cws[0]) and a.is_param(cbf, cws[0].node.value, 1):
                    o.site(cbf, cws[0].node, 'publish callback copies the given contents into the shared list in place')
                elif not sts and not cws:
                    o.site(cbf, cbf.node, 'publish callback does nothing (the list object is shared, see shared_list_stays_shared)')
                else:
                    o.refute(cbf, cbf.node, cbf.name, f"the publish callback does not store the given list into self.{unmangle(fld)}")
                    continue
            o.site(g, rets[0], src(v)[:90])
        # WBS.roots
        g = a.fn('wbs.WBS.roots')
        rets = returns_of(g)
        v = a.xp(g, rets[0].value) if len(rets) == 1 else None
        if v is not None and isinstance(v, ast.Attribute) and v.attr == 'children' and a.is_self_attr(g, v.value, ROOT):
            o.site(g, rets[0], 'roots -> sentinel.children')
        else:
            o.refute(g, g.node, 'roots', "WBS.roots is not the children facade of the sentinel root task")
    ctx.guarded(o, run)


# ====================================================================================================== delegation
def _single_store(a: A, o, f, prop, what):
    """the one property store `X.<prop> = V` / `X.<prop> += V` of a facade method (other stores to relation
    properties are left to leftovers())"""
    evs = [e for e in a.events(f) if e.kind == 'setter' and e.name == prop and e.stmt is not None]
    if not evs:
        others = [e for e in a.events(f)]
        if others:
            # a helper that itself performs the documented assignment is a spelling the rule does not follow; one that edits the
            # relation fields directly (or anything else) is not the documented primitive
            via = [t.qual for e in others if e.kind == 'call' for t in e.ci.targets if t is not None and t.qual not in ALLM
                   and any(x.kind == 'setter' and x.name == prop for x in a.events(t))]
            if via:
                o.undecided(f, others[0].node, others[0].node,
                            f"{what}: the assignment of `{prop}` is made inside {', '.join(sorted(set(via)))}, which this rule does not follow")
            else:
                o.refute(f, others[0].node, others[0].node,
                         f"{what}: the documented primitive (assignment of `{prop}`) is not used; found `{src(others[0].node)[:70]}`")
            for e in others:
                e.used = True
        else:
            a.absent(o, f, f.node, what, f"{what}: no assignment of `{prop}`: the call has no effect")
        return None
    if len(evs) > 1:
        o.undecided(f, evs[1].node, evs[1].node, f"{what}: several assignments of `{prop}`")
        for e in evs:
            e.used = True
        return None
    evs[0].used = True
    return evs[0]


def _store_value(a: A, f, ev):
    """(is_aug, expanded right-hand side) of a setter store event"""
    st = ev.stmt
    aug = isinstance(st, ast.AugAssign)
    return aug, a.xp(f, st.value, ev.cn), st


def _membership_atom(a: A, f, atom, task_param: str, owner_rel=None):
    """`task in <this facade's list>`: self._list, self, or the owner's relation"""
    if isinstance(atom, ast.Call) and isinstance(atom.func, ast.Attribute) and a.is_self(f, atom.func.value) and \
            len(atom.args) == 1 and not atom.keywords and isinstance(atom.args[0], ast.Name) and atom.args[0].id == task_param:
        # `self._holds(task)`: a helper of the list classes that validates its argument and answers `task in self._list`
        m = a.prog.find_method(a.cur_cls.get(f.qual) or f.cls, unmangle(atom.func.attr)) if f.cls else None
        if m is not None and len(m.params) == 2 and isinstance(m.node, ast.FunctionDef):
            body = A.hook_body(m)
            if body and isinstance(body[-1], ast.Return) and body[-1].value is not None and \
                    all(isinstance(st, ast.Expr) and isinstance(st.value, ast.Call) and isinstance(st.value.func, ast.Name) and
                        st.value.func.id.startswith('_check') for st in body[:-1]):
                return _membership_atom(a, m, body[-1].value, m.params[1])
        return None
    if isinstance(atom, ast.Compare) and len(atom.ops) == 1 and isinstance(atom.ops[0], (ast.In, ast.NotIn)):
        l, r = atom.left, atom.comparators[0]
        if isinstance(l, ast.Name) and l.id == task_param:
            if a.is_self_attr(f, r, LIST) or a.is_self(f, r) or (owner_rel is not None and owner_rel(r)):
                return isinstance(atom.ops[0], ast.In)
    return None


def _check_remove_shape(a: A, o, f, owner_prop, live_ok: bool):
    """shared by _ChildrenList.remove and the link lists' remove:  owner.<prop> = [x for x in <list> if x != task],
    only when the task is a member (otherwise False and nothing happens), True afterwards"""
    what = f"{a.cur_cls.get(f.qual) or f.cls}.remove"
    t = f.params[1]
    ev = _single_store(a, o, f, owner_prop, what)
    if ev is None:
        return
    if not a.is_owner(f, a.xp(f, ev.node.value, ev.cn)):
        o.refute(f, ev.stmt, ev.node, f"{what}: assigns `{src(ev.node)}`; the documented primitive is the `{owner_prop}` "
                                      f"assignment of the facade's owner")
        return
    aug, v, st = _store_value(a, f, ev)
    if aug:
        o.refute(f, st, st, f"{what}: augmented assignment adds to the list instead of taking the task out")
        return
    term = norm_list(v)
    if term[0] != 'filter':
        o.undecided(f, st, st.value, f"{what}: new list is not a comprehension over the old list")
        return
    srcx = list_source(term)

    def owner_rel(e):
        return isinstance(e, ast.Attribute) and e.attr == owner_prop and a.is_owner(f, e.value)

    if owner_rel(srcx):
        pass
    elif a.is_self_attr(f, srcx, LIST) or a.is_self(f, srcx):
        if not live_ok:
            o.refute(f, st, st.value, f"{what}: the new list is built from the facade's own `_list`, a snapshot that goes stale "
                                      f"as soon as the setter rebinds the owner's list; expected the owner's current `{owner_prop}`")
            return
    else:
        o.refute(f, st, st.value, f"{what}: the new list is built from `{src(srcx)}`, not from the edited list")
        return
    kinds = [cmp_kind(c, term[2], ast.Name(id=t, ctx=ast.Load())) for c in term[3]] if term[2] else []
    if not kinds:
        o.refute(f, st, st.value, f"{what}: the new list is an unfiltered copy: the task is not taken out")
        return
    if len(kinds) > 1 or kinds[0] == '?':
        if any(k.startswith('id-') for k in kinds):
            o.refute(f, st, st.value, f"{what}: tasks are filtered by comparing ids; every task with an equal id is dropped, "
                                      f"expected identity of the task (`x != task`)")
        else:
            o.undecided(f, st, st.value, f"{what}: filter condition not understood")
        return
    if kinds[0] == 'eq':
        o.refute(f, st, st.value, f"{what}: filter keeps only the task (`==`) instead of everything but the task (`!=`)")
        return
    if kinds[0] in ('id-ne', 'id-eq'):
        o.refute(f, st, st.value, f"{what}: tasks are filtered by comparing ids instead of task identity; other tasks carrying "
                                  f"an equal id are dropped too")
        return
    # path: only `task in list`; no-op exit returns False, effect exit returns True
    cfg = cfg_of(f)
    bad = False
    for atom, pol, _ in path_atoms(a, f, ev.cn):
        m = _membership_atom(a, f, atom, t, owner_rel)
        if m is None:
            o.undecided(f, st, atom, f"{what}: removal depends on a condition the rule does not know")
            bad = True
        elif (m == pol) is False:
            o.refute(f, st, atom, f"{what}: the removal runs only when the task is NOT in the list")
            bad = True
    if bad:
        return
    noops = []
    for r in returns_of(f):
        rn = cfg.node_of(r)
        # `return found` with `found = task in list`: the membership test itself is handed back (True exactly after a removal)
        rv, rpol = strip_not(a.xp(f, r.value, rn), True) if r.value is not None else (None, True)
        if isinstance(rv, ast.IfExp) and isinstance(const_of(rv.body), bool) and isinstance(const_of(rv.orelse), bool) and \
                const_of(rv.body) != const_of(rv.orelse):
            # a result flag: `res = False; if task in list: ...; res = True; return res`
            tst, tpol = strip_not(rv.test, True)
            rv, rpol = tst, (tpol == const_of(rv.body)) == rpol
        elif rv is not None and match("bool($x)", rv):
            rv, rpol = strip_not(match("bool($x)", rv)['x'], rpol)
        mv = _membership_atom(a, f, rv, t, owner_rel) if rv is not None else None
        if mv is not None:
            if mv != rpol:
                o.refute(f, r, r, f"{what}: returns `{src(r.value)}`, i.e. True when the task was NOT in the list; documented: True after "
                                  f"a removal, False for a non-member")
                bad = True
            else:
                noops.append(rn)
            continue
        atoms = path_atoms(a, f, rn)
        notmember = any(_membership_atom(a, f, at, t, owner_rel) is not None and
                        (_membership_atom(a, f, at, t, owner_rel) != p) for at, p, _ in atoms)
        if notmember:
            noops.append(rn)
            if const_of(r.value) is not False:
                o.refute(f, r, r, f"{what}: returns `{src(r)}` when the task is not in the list; documented: False")
                bad = True
        elif cfg.can_reach(ev.cn, rn) and const_of(r.value) is not True:
            if r.value is None or isinstance(r.value, ast.Constant):
                o.refute(f, r, r, f"{what}: returns `{src(r)}` after removing the task; documented: True (WBS.remove relies on it)")
            else:
                o.undecided(f, r, r, f"{what}: cannot tell that `{src(r)}` is True after the removal (WBS.remove relies on it)")
            bad = True
    if bad or not a.must_pass(o, f, [ev], noops, what):
        return
    o.site(f, st, f"{src(ev.node)} = {src(v)[:70]}")


@part
def delegation_children(a: A, ctx):
    o = ctx.ob('delegation.children_list', 'R4',
               "_ChildrenList.append(t) is `t.parent = owner`; remove(t) is `owner.children = [x for x in list if x != t]` "
               "for members (True) and nothing for non-members (False); no other relation effect", floor=2)

    def run(o):
        f = a.fn('task._ChildrenList.append')
        ev = _single_store(a, o, f, 'parent', '_ChildrenList.append')
        if ev is not None:
            aug, v, st = _store_value(a, f, ev)
            if not a.is_param(f, a.xp(f, ev.node.value, ev.cn), 1):
                o.refute(f, st, ev.node, f"append: re-parents `{src(ev.node.value)}` instead of the appended task")
            elif aug or not a.is_owner(f, v):
                o.refute(f, st, st, f"append: the task's parent becomes `{src(v)}`; documented: the owner of the list")
            else:
                extra = path_atoms(a, f, ev.cn)
                if extra:
                    o.refute(f, st, extra[0][0], "append: the re-parenting is conditional (`" + src(extra[0][0]) +
                             "`): for the other case the task is not put last")
                elif a.must_pass(o, f, [ev], [], 'append'):
                    o.site(f, st, src(st))
        a.leftovers(o, f, 'append')
        f = a.fn('task._ChildrenList.remove')
        _check_remove_shape(a, o, f, 'children', live_ok=True)
        a.leftovers(o, f, 'remove')
    ctx.guarded(o, run)


@part
def delegation_links(a: A, ctx):
    o = ctx.ob('delegation.link_lists', 'R11',
               "predecessor / successor facades: append(t) is `owner.rel = [old ...] + [t]` (old items first, read from the "
               "owner), remove(t) is the owner's list filtered by `x != t`; each facade edits its own relation", floor=4)

    def run(o):
        for cls, rel in LINK_FACADES.items():
            f = a.fn(f'task.{cls}.append')
            what = f'{cls}.append'
            t = f.params[1]
            ev = _single_store(a, o, f, rel, what)
            if ev is None:
                a.leftovers(o, f, what)
            else:
                _link_append(a, o, f, ev, rel, t, what)
                a.leftovers(o, f, what)
            f = a.fn(f'task.{cls}.remove')
            _check_remove_shape(a, o, f, rel, live_ok=False)
            a.leftovers(o, f, f'{cls}.remove')
    ctx.guarded(o, run)


def _link_append(a: A, o, f, ev, rel, t, what):
    aug, v, st = _store_value(a, f, ev)
    if not a.is_owner(f, a.xp(f, ev.node.value, ev.cn)):
        o.refute(f, st, ev.node, f"{what}: assigns `{src(ev.node)}` instead of the owner's `{rel}`")
        return

    def is_task(e):
        return isinstance(e, ast.Name) and e.id == t

    def owner_rel(e):
        return isinstance(e, ast.Attribute) and e.attr == rel and a.is_owner(f, e.value)

    if aug:
        # owner.rel += [t]  ==  owner.rel = owner.rel.__add__([t])  (old first, by _ImmutableTaskList.__add__)
        term = norm_list(v)
        if isinstance(st.op, ast.Add) and (is_task(v) or (term[0] == 'lit' and len(term[1]) == 1 and is_task(term[1][0]))):
            if not path_atoms(a, f, ev.cn) and a.must_pass(o, f, [ev], [], what):
                o.site(f, st, src(st))
            else:
                o.refute(f, st, st, f"{what}: the assignment is conditional")
        else:
            o.undecided(f, st, st, f"{what}: augmented assignment of an unexpected value")
        return
    term = norm_list(v)
    if isinstance(v, ast.Name):
        lt = _grown_local(a, f, v.id, ev.cn)
        if lt is not None:
            term = lt
    if term[0] != 'concat' or len(term[1]) != 2:
        if term[0] == 'lit' or (term[0] == 'filter' and not any(is_task(x) for x in ast.walk(v))):
            o.refute(f, st, st.value, f"{what}: the new list `{src(v)[:60]}` is not old items + [task]")
        else:
            o.undecided(f, st, st.value, f"{what}: new list is not a concatenation of the old items and [task]")
        return
    p0, p1 = term[1]

    def is_new(p):
        return p[0] == 'lit' and len(p[1]) == 1 and is_task(p[1][0])

    def old_src(p):
        return list_source(p) if p[0] in ('filter', 'ref') and (p[0] == 'ref' or not p[3]) else None

    if is_new(p0) and old_src(p1) is not None:
        o.refute(f, st, st.value, f"{what}: the new task is put FIRST (`[task] + old`); documented: appended after the old items")
        return
    if not (is_new(p1) and old_src(p0) is not None):
        o.undecided(f, st, st.value, f"{what}: new list is not `old items + [task]`")
        return
    s0 = old_src(p0)
    if a.is_self_attr(f, s0, LIST) or a.is_self(f, s0):
        o.refute(f, st, st.value, f"{what}: old items are read from the facade's own `_list`, a snapshot that is stale after the "
                                  f"first edit through this facade (the setter rebinds the owner's list); expected the "
                                  f"owner's current `{rel}`")
        return
    if not owner_rel(s0):
        o.refute(f, st, st.value, f"{what}: old items are read from `{src(s0)}` instead of the owner's `{rel}`")
        return
    extra = path_atoms(a, f, ev.cn)
    if extra:
        o.refute(f, st, extra[0][0], f"{what}: the assignment is conditional (`{src(extra[0][0])}`)")
        return
    if a.must_pass(o, f, [ev], [], what):
        o.site(f, st, f"{src(ev.node)} = {src(v)[:70]}")


def _grown_local(a: A, f, name, at):
    """abstract list term of a local list built in straight-line code before cfg node `at`:
        L = <init>; L.append(x) | L.insert(0, x) | L.extend(y) | L += y   ->   ('concat', [..])
    None when the local is edited in any other way, inside a loop, or under other conditions than its definition"""
    fl, cfg = flow_of(f), cfg_of(f)
    d = fl.unique_def(name, at)
    if d is None or d.kind != 'assign' or d.value is None or d.node is None or len(fl.defs_of(name)) != 1:
        return None
    base = cfg.conditions(d.node)
    parts = _parts(a.xp(f, d.value, d.node))
    steps = []
    for n in walk_no_nested(f.node):
        c = None
        if isinstance(n, ast.Call) and isinstance(n.func, ast.Attribute) and isinstance(n.func.value, ast.Name) and \
                n.func.value.id == name and n.func.attr in LIST_MUT:
            c = n
        elif isinstance(n, ast.AugAssign) and isinstance(n.target, ast.Name) and n.target.id == name:
            return None         # an augmented assignment is a second definition: defs_of() already said no
        if c is None:
            continue
        cn = cfg.node_containing(c)
        if cn is None or cfg.enclosing_fors(cn) or cfg.can_reach(cn, cn):
            return None
        if not cfg.can_reach(cn, at):
            if cfg.can_reach(at, cn):
                continue        # after the use
            return None
        if not cfg.dominates(d.node, cn) or not cfg.dominates(cn, at) or cfg.conditions(cn) != base:
            return None
        steps.append((cn.id, c, cn))
    if not steps:
        return None
    for _, c, cn in sorted(steps, key=lambda z: z[0]):
        m = c.func.attr
        if m == 'append' and len(c.args) == 1:
            parts = parts + [('lit', [a.xp(f, c.args[0], cn)])]
        elif m == 'insert' and len(c.args) == 2 and facts.const_num(c.args[0]) == 0:
            parts = [('lit', [a.xp(f, c.args[1], cn)])] + parts
        elif m == 'extend' and len(c.args) == 1:
            parts = parts + _parts(a.xp(f, c.args[0], cn))
        else:
            return None
    # adjacent literals merge
    out = []
    for p0 in parts:
        if out and out[-1][0] == 'lit' and p0[0] == 'lit':
            out[-1] = ('lit', out[-1][1] + p0[1])
        else:
            out.append(p0)
    return ('concat', out)


def _returns_param(a: A, o, f, i, what):
    """every return yields parameter i (operators hand back their right operand)"""
    rets = returns_of(f)
    ok = bool(rets)
    for r in rets:
        v = a.xp(f, r.value) if r.value is not None else None
        if not (v is not None and a.is_param(f, v, i)):
            ok = False
    cfg = cfg_of(f)
    # falling off the end returns None
    if ok and any(p.ast is not None and not isinstance(p.ast, ast.Return) or p.kind == 'branch' for p in cfg.exit.pred):
        ok = False
    if not ok:
        a.absent(o, f, f.node, f'{what} return', f"{what}: does not return its right operand `{f.params[i]}` on every path "
                                              f"(chains like `a >> b >> c` depend on it)")
    return ok


def _rel_plus_other(a: A, o, f, ev, recv_ok, rel, other_i, what):
    """`R.rel += other`  or  `R.rel = R.rel + other` / `R.rel.__add__(other)`  (old items first)"""
    aug, v, st = _store_value(a, f, ev)
    if not recv_ok(a.xp(f, ev.node.value, ev.cn)):
        o.refute(f, st, ev.node, f"{what}: assigns `{src(ev.node)}`; documented receiver differs")
        return False
    if aug:
        if isinstance(st.op, ast.Add) and a.is_param(f, v, other_i):
            return True
        if not isinstance(st.op, ast.Add):
            o.refute(f, st, st, f"{what}: `{src(st)}` is not an addition to the list")
        else:
            o.refute(f, st, st, f"{what}: adds `{src(v)}` instead of the right operand `{f.params[other_i]}`")
        return False
    term = norm_list(v)
    if term[0] == 'concat' and len(term[1]) == 2:
        p0, p1 = term[1]
        s0, s1 = list_source(p0) if p0[0] in ('ref', 'filter') else None, list_source(p1) if p1[0] in ('ref', 'filter') else None

        def is_rel(e):
            return e is not None and isinstance(e, ast.Attribute) and e.attr == rel and recv_ok(e.value)

        def is_other(e):
            return e is not None and (a.is_param(f, e, other_i) or
                                      (match("_to_list($x)", e) and a.is_param(f, match("_to_list($x)", e)['x'], other_i)))
        if is_rel(s0) and is_other(s1):
            return True
        if is_other(s0) and is_rel(s1):
            o.refute(f, st, st.value, f"{what}: new items are put before the old ones")
            return False
        if is_other(s1) and isinstance(s0, ast.Attribute) and s0.attr in REL_PROPS and s0.attr != rel and recv_ok(s0.value) and \
                same(s0.value, a.xp(f, ev.node.value, ev.cn)):
            o.refute(f, st, st.value, f"{what}: the new `{rel}` are built from the task's `{s0.attr}` instead of its old `{rel}`")
            return False
    if a.is_param(f, v, other_i) or (match("_to_list($x)", v) and a.is_param(f, match("_to_list($x)", v)['x'], other_i)):
        o.refute(f, st, st.value, f"{what}: REPLACES `{rel}` by the operand instead of adding to it")
        return False
    o.undecided(f, st, st.value, f"{what}: right-hand side is not `{rel} + other`")
    return False


@part
def delegation_operators(a: A, ctx):
    o = ctx.ob('delegation.operators', 'R10',
               "Task //, <<, >> are `self.children|predecessors|successors += other` returning other; list + is "
               "`self._list + _to_list(other)` (old first, new list); list <<, >> apply the task operator's assignment to "
               "every element; WBS // x is `sentinel // x`", floor=7)

    def run(o):
        for dunder, rel in TASK_OPERATORS.items():
            f = a.fn(f'task.Task.{dunder}')
            what = f'Task.{dunder}'
            stores = [e for e in a.events(f) if e.kind == 'setter' and e.stmt is not None]
            wrong = [e for e in stores if e.name != rel]
            if wrong and not [e for e in stores if e.name == rel]:
                for e in wrong:
                    e.used = True
                o.refute(f, wrong[0].stmt, wrong[0].node, f"{what}: edits `{wrong[0].name}`; documented: `{rel}`")
                a.leftovers(o, f, what)
                continue
            ev = _single_store(a, o, f, rel, what)
            if ev is not None:
                if _rel_plus_other(a, o, f, ev, lambda e: a.is_self(f, e), rel, 1, what):
                    extra = path_atoms(a, f, ev.cn)
                    if extra:
                        o.refute(f, ev.stmt, extra[0][0], f"{what}: the assignment is conditional (`{src(extra[0][0])}`)")
                    elif a.must_pass(o, f, [ev], [], what) and _returns_param(a, o, f, 1, what):
                        o.site(f, ev.stmt, src(ev.stmt))
            a.leftovers(o, f, what)
        # list + other
        f = a.fn('task._ImmutableTaskList.__add__')
        what = '_ImmutableTaskList.__add__'
        if a.leftovers(o, f, what) == 0:
            rets = returns_of(f)
            if len(rets) != 1:
                o.undecided(f, f.node, what, "several returns")
            else:
                v = a.xp(f, rets[0].value)
                term = norm_list(v)
                okshape = term[0] == 'concat' and len(term[1]) == 2
                if okshape:
                    s0 = list_source(term[1][0]) if term[1][0][0] in ('ref', 'filter') else None
                    s1 = list_source(term[1][1]) if term[1][1][0] in ('ref', 'filter') else None

                    def is_mine(e):
                        return e is not None and (a.is_self_attr(f, e, LIST) or a.is_self(f, e))

                    def is_other(e):
                        m = match("_to_list($x)", e) if e is not None else None
                        return m is not None and a.is_param(f, m['x'], 1)
                    if is_mine(s0) and is_other(s1):
                        o.site(f, rets[0], src(v))
                    elif is_other(s0) and is_mine(s1):
                        o.refute(f, rets[0], rets[0].value, f"{what}: the operand's tasks are put before the list's own tasks; "
                                                           f"`rel += x` must keep the old items first")
                    elif is_mine(s0) and s1 is not None and a.is_param(f, s1, 1):
                        o.undecided(f, rets[0], rets[0].value, f"{what}: operand is not normalised with _to_list (single task operand?)")
                    else:
                        o.undecided(f, rets[0], rets[0].value, f"{what}: not `self._list + _to_list(other)`")
                else:
                    o.undecided(f, rets[0], rets[0].value, f"{what}: not a concatenation")
        # list << other, list >> other
        for dunder, rel in LIST_OPERATORS.items():
            f = a.fn(f'task._ImmutableTaskList.{dunder}')
            what = f'_ImmutableTaskList.{dunder}'
            stores = [e for e in a.events(f) if e.kind == 'setter' and e.stmt is not None]
            wrong = [e for e in stores if e.name != rel]
            if wrong and not [e for e in stores if e.name == rel]:
                for e in wrong:
                    e.used = True
                o.refute(f, wrong[0].stmt, wrong[0].node, f"{what}: edits `{wrong[0].name}` of the elements; documented: `{rel}`")
                a.leftovers(o, f, what)
                continue
            ev = _single_store(a, o, f, rel, what)
            if ev is not None:
                recv = ev.node.value
                fo = enclosing_for_binding(f, ev.cn, recv.id) if isinstance(recv, ast.Name) else None
                it = a.xp(f, fo.iter, cfg_of(f).node_of(fo)) if fo is not None else None
                if fo is None:
                    o.refute(f, ev.stmt, ev.node, f"{what}: `{src(ev.node)}` is not applied to the elements of the list")
                elif not (a.is_self(f, it) or a.is_self_attr(f, it, LIST) or
                          (is_plain_copy(norm_list(it)) and (a.is_self(f, list_source(norm_list(it))) or
                                                             a.is_self_attr(f, list_source(norm_list(it)), LIST)))):
                    o.refute(f, fo, fo.iter, f"{what}: iterates `{src(it)}` instead of the tasks of this list")
                elif _rel_plus_other(a, o, f, ev, lambda e: True, rel, 1, what):
                    inner = path_atoms(a, f, ev.cn)
                    if inner:
                        o.refute(f, ev.stmt, inner[0][0], f"{what}: some elements are skipped (`{src(inner[0][0])}`)")
                    elif a.must_pass(o, f, [ev], [], what) and _returns_param(a, o, f, 1, what):
                        o.site(f, ev.stmt, f"for {src(fo.target)} in {src(it)}: {src(ev.stmt)}")
            a.leftovers(o, f, what)
        # WBS // other
        f = a.fn('wbs.WBS.__floordiv__')
        what = 'WBS.__floordiv__'
        rets = returns_of(f)
        evs = a.events(f)
        hit = None
        for r in rets:
            v = a.xp(f, r.value) if r.value is not None else None
            m = (match("$r // $x", v) or match("$r.__floordiv__($x)", v)) if v is not None else None
            if m:
                hit = (r, v, m)
        if hit is None or len(rets) != 1:
            # `//` of the sentinel written out: `self.roots = self.roots + other` / `sentinel.children += other`; return other
            stores = [e for e in evs if e.kind == 'setter' and e.stmt is not None and e.name in ('roots', 'children')]
            if len(stores) == 1 and len(evs) >= 1:
                ev = stores[0]
                recv = a.xp(f, ev.node.value, ev.cn)
                on_self, on_root = ev.name == 'roots' and a.is_self(f, recv), ev.name == 'children' and a.is_self_attr(f, recv, ROOT)

                def top_level(e):
                    """the WBS's own roots list / the sentinel's children: the same list under both names"""
                    return a.is_self(f, e) or a.is_self_attr(f, e, ROOT)
                if not (on_self or on_root):
                    o.refute(f, ev.stmt, ev.node, f"{what}: assigns `{src(ev.node)}` instead of the top-level tasks of the WBS")
                else:
                    ev.used = True
                    aug, v, st = _store_value(a, f, ev)
                    okv = False
                    if aug:
                        okv = isinstance(st.op, ast.Add) and a.is_param(f, v, 1)
                    else:
                        term = norm_list(v)
                        if term[0] == 'concat' and len(term[1]) == 2:
                            s0 = list_source(term[1][0]) if term[1][0][0] in ('ref', 'filter') else None
                            s1 = list_source(term[1][1]) if term[1][1][0] in ('ref', 'filter') else None
                            old_ok = isinstance(s0, ast.Attribute) and s0.attr in ('roots', 'children') and top_level(s0.value) and \
                                (s0.attr == 'roots') == a.is_self(f, s0.value)
                            new_ok = s1 is not None and (a.is_param(f, s1, 1) or (match("_to_list($x)", s1) and
                                                                                   a.is_param(f, match("_to_list($x)", s1)['x'], 1)))
                            okv = old_ok and new_ok
                            if not okv and s1 is not None and isinstance(s1, ast.Attribute) and s1.attr in ('roots', 'children') and \
                                    top_level(s1.value) and (a.is_param(f, s0, 1) if s0 is not None else False):
                                o.refute(f, st, st.value, f"{what}: new items are put before the old top-level tasks")
                                a.leftovers(o, f, what)
                                return
                    if not okv and not aug and (a.is_param(f, v, 1) or (match("_to_list($x)", v) and
                                                                         a.is_param(f, match("_to_list($x)", v)['x'], 1))):
                        o.refute(f, st, st.value, f"{what}: REPLACES the top-level tasks by the operand instead of adding to them")
                    elif not okv:
                        o.undecided(f, st, st.value, f"{what}: right-hand side is not `top-level tasks + other`")
                    elif path_atoms(a, f, ev.cn):
                        o.refute(f, st, st, f"{what}: the assignment is conditional")
                    elif a.must_pass(o, f, [ev], [], what) and _returns_param(a, o, f, 1, what) and a.leftovers(o, f, what) == 0:
                        o.site(f, st, src(st))
            elif any(e.kind == 'setter' and e.name in ('children', 'roots') for e in evs) or not evs:
                o.undecided(f, f.node, what, "not written as `return sentinel // other`")
            else:
                o.refute(f, evs[0].node, evs[0].node, f"{what}: does not delegate to the sentinel's `//`")
        else:
            r, v, m = hit
            held = resolve(f, r.value, cfg_of(f).node_of(r))[0] if r.value is not None else None
            for e in evs:
                if any(x is e.node for x in ast.walk(r)) or (held is not None and any(x is e.node for x in ast.walk(held))):
                    e.used = True
            if not a.is_self_attr(f, m['r'], ROOT):
                o.refute(f, r, r.value, f"{what}: delegates to `{src(m['r'])}` instead of the sentinel root")
            elif not a.is_param(f, m['x'], 1):
                o.refute(f, r, r.value, f"{what}: passes `{src(m['x'])}` instead of the operand")
            elif path_atoms(a, f, cfg_of(f).node_of(r)):
                o.refute(f, r, r, f"{what}: delegation is conditional")
            elif a.leftovers(o, f, what) == 0:
                o.site(f, r, src(v))
    ctx.guarded(o, run)


def _worklist_walk(a: A, f, cur):
    """iterative form of the subtree search:
            W = [cur]                          (list literal / deque / list(..) holding only the start task)
            while W:                            (W | len(W) | len(W) > 0 | W != [])
                X = W.pop() | W.pop(0) | W.popleft()
                ...
                W.extend(<X.children>) | W += <X.children> | for ch in <X.children>: W.append(ch)
       where <X.children> may be wrapped in list() / reversed() / tuple() / an unfiltered comprehension / [::-1].
    Every task below `cur` is then visited exactly once (a task has one parent), in some order.
    ('ok', X, W) | ('refute', node, message) | None (not this idiom)"""
    loops = [n for n in walk_no_nested(f.node) if isinstance(n, ast.While)]
    if len(loops) != 1 or loops[0].orelse:
        return None
    wl = loops[0]
    t = wl.test
    m = match("len($w) > 0", t) or match("len($w)", t) or match("$w != []", t) or match("len($w) != 0", t) or match("0 < len($w)", t)
    wname = m['w'] if m else t
    if not isinstance(wname, ast.Name):
        return None
    W = wname.id
    ds = [d for d in flow_of(f).defs_of(W) if d.kind != 'aug']
    if len(ds) != 1 or ds[0].kind != 'assign' or ds[0].value is None:
        return None
    if any(d.kind == 'aug' and not any(d.stmt is st for st in wl.body) for d in flow_of(f).defs_of(W)):
        return None         # `W += ..` somewhere else than directly in the loop body
    init = ds[0].value
    mi = match("deque($x)", init) or match("list($x)", init) or match("collections.deque($x)", init)
    if mi:
        init = mi['x']
    if not (isinstance(init, (ast.List, ast.Tuple)) and len(init.elts) == 1 and isinstance(init.elts[0], ast.Name) and init.elts[0].id == cur):
        return None
    if any(d.kind != 'param' for d in flow_of(f).defs_of(cur)):
        return None
    if not wl.body:
        return None
    first = wl.body[0]
    X = None
    if isinstance(first, ast.Assign) and len(first.targets) == 1 and isinstance(first.targets[0], ast.Name):
        v = first.value
        if isinstance(v, ast.Call) and isinstance(v.func, ast.Attribute) and isinstance(v.func.value, ast.Name) and v.func.value.id == W \
                and ((v.func.attr == 'pop' and (not v.args or (len(v.args) == 1 and facts.const_num(v.args[0]) in (0, -1)))) or
                     (v.func.attr == 'popleft' and not v.args)):
            X = first.targets[0].id
    if X is None or len(flow_of(f).defs_of(X)) != 1:
        return None

    def children_of_x(e):
        """strip order / copy wrappers; -> True, False, or ('refute', msg)"""
        for _ in range(6):
            mm = match("reversed($x)", e) or match("list($x)", e) or match("tuple($x)", e)
            if mm:
                e = mm['x']
                continue
            if isinstance(e, ast.Subscript) and isinstance(e.slice, ast.Slice):
                if e.slice.lower is None and e.slice.upper is None:
                    e = e.value
                    continue
                return ('refute', f"only the slice `{src(e)}` of the children is searched")
            if isinstance(e, (ast.ListComp, ast.GeneratorExp)) and len(e.generators) == 1 and isinstance(e.generators[0].target, ast.Name) \
                    and isinstance(e.elt, ast.Name) and e.elt.id == e.generators[0].target.id:
                if e.generators[0].ifs:
                    return ('refute', f"some children are not searched (`{src(e.generators[0].ifs[0])}`)")
                e = e.generators[0].iter
                continue
            break
        if isinstance(e, ast.Attribute) and isinstance(e.value, ast.Name) and e.value.id == X and \
                e.attr in ('all_parents', 'parent', 'predecessors', 'successors', 'all_predecessors', 'all_successors'):
            return ('refute', f"the walk continues with `{src(e)}` instead of the children of the visited task")
        return isinstance(e, ast.Attribute) and e.attr in ('children', '_Task__children') and isinstance(e.value, ast.Name) and e.value.id == X

    pushes = 0
    for st in wl.body[1:]:
        for n in ast.walk(st):
            # any other use of the worklist inside the loop
            if isinstance(n, ast.Name) and n.id == W:
                pass
        push_src = None
        if isinstance(st, ast.Expr) and isinstance(st.value, ast.Call) and isinstance(st.value.func, ast.Attribute) and \
                isinstance(st.value.func.value, ast.Name) and st.value.func.value.id == W:
            c = st.value
            if c.func.attr in ('extend', 'extendleft') and len(c.args) == 1:
                push_src = c.args[0]
            else:
                return None
        elif isinstance(st, ast.AugAssign) and isinstance(st.target, ast.Name) and st.target.id == W and isinstance(st.op, ast.Add):
            push_src = st.value
        elif isinstance(st, ast.For) and isinstance(st.target, ast.Name) and len(st.body) == 1 and not st.orelse and \
                isinstance(st.body[0], ast.Expr) and (match(f"{W}.append({st.target.id})", st.body[0].value) or
                                                       match(f"{W}.appendleft({st.target.id})", st.body[0].value)):
            push_src = st.iter
        elif any(isinstance(n, ast.Name) and n.id == W for n in ast.walk(st)):
            return None         # the worklist is used in a way the idiom does not cover (conditional push, reassignment ...)
        if push_src is not None:
            r = children_of_x(push_src)
            if isinstance(r, tuple):
                return ('refute', st, r[1])
            if not r:
                return None
            pushes += 1
    if pushes != 1:
        return None
    return ('ok', X, W)


def _flat_walk(a: A, f, cur, direct):
    """flat form of the subtree search: ONE loop over the start task and all of its descendants, listed up front
            for X in [cur] + list(cur.all_children):        (also via a local: `c = [cur]; c += cur.all_children`)
                if X.children.remove(task): return True
    ('ok', X, None) | ('refute', node, message) | None"""
    cfg = cfg_of(f)
    loops = [n for n in walk_no_nested(f.node) if isinstance(n, ast.For)]
    if len(loops) != 1 or any(isinstance(n, ast.While) for n in walk_no_nested(f.node)) or not isinstance(loops[0].target, ast.Name):
        return None
    fo = loops[0]
    if fo.orelse or not direct or any(fo not in cfg.enclosing_fors(e.cn) for e in direct):
        return None
    hn = cfg.node_of(fo)
    it = fo.iter
    parts = None
    if isinstance(it, ast.Name):
        ds = flow_of(f).defs_of(it.id)
        base = [d for d in ds if d.kind == 'assign']
        augs = [d for d in ds if d.kind == 'aug']
        if len(base) == 1 and len(base) + len(augs) == len(ds) and augs and base[0].value is not None and base[0].node is not None:
            # `c = [cur]` followed by straight-line `c += <more>` before the loop
            ok = cfg.dominates(base[0].node, hn) and not _local_mutations(f, it.id)
            parts = _parts(a.xp(f, base[0].value, base[0].node))
            for d in sorted(augs, key=lambda d0: d0.node.id if d0.node is not None else 0):
                if d.node is None or not isinstance(d.stmt, ast.AugAssign) or not isinstance(d.stmt.op, ast.Add) or \
                        not cfg.dominates(d.node, hn) or cfg.conditions(d.node) != cfg.conditions(base[0].node) or cfg.enclosing_fors(d.node):
                    ok = False
                    break
                parts = parts + _parts(a.xp(f, d.stmt.value, d.node))
            if not ok:
                return None
    if parts is None:
        t = norm_list(a.xp(f, it, hn))
        if isinstance(it, ast.Name) and t[0] == 'ref':
            g = _grown_local(a, f, it.id, hn)
            t = g if g is not None else t
        parts = t[1] if t[0] == 'concat' else [t]
    has_cur = has_desc = False
    for p0 in parts:
        if p0[0] == 'lit':
            if not all(isinstance(x, ast.Name) and x.id == cur for x in p0[1]):
                return None
            has_cur = has_cur or bool(p0[1])
            continue
        if p0[0] == 'filter' and p0[3]:
            return ('refute', fo, f"some tasks of the subtree are not searched (`{src(p0[3][0])}`)")
        s0 = list_source(p0) if p0[0] in ('ref', 'filter') else None
        if isinstance(s0, ast.Call) and not s0.args and isinstance(s0.func, ast.Attribute):
            s0 = s0.func if s0.func.attr in _descendant_methods(a) else s0
        if not (isinstance(s0, ast.Attribute) and isinstance(s0.value, ast.Name) and s0.value.id == cur):
            return None
        if s0.attr in ('all_children',) or s0.attr in _descendant_methods(a):
            has_desc = True
        elif s0.attr in ('children', '_Task__children'):
            return ('refute', fo, f"only `{cur}` and its DIRECT children are searched (`{src(fo.iter)}`): a task deeper in the tree is "
                                  f"never removed")
        else:
            return None
    if not has_desc:
        return None
    if not has_cur:
        return ('refute', fo, f"the children of `{cur}` itself are never tried: the loop covers only its descendants (`{src(fo.iter)}`)")
    if any(d.kind != 'param' for d in flow_of(f).defs_of(cur)):
        return None
    return ('ok', fo.target.id, None)


def _trampoline(a: A, f):
    """f does nothing to relations itself but calls ONE private method g of its own class with its own two parameters, and g
    is self-recursive (the real worker):  (call event, g, arguments swapped?)  or None"""
    evs = a.events(f)
    calls = [e for e in evs if e.kind == 'call' and isinstance(e.node, ast.Call)]
    if len(calls) != 1 or len(evs) != 1 or len(f.params) != 3:
        return None
    e = calls[0]
    tg = [t for t in e.ci.targets if t is not None]
    if len(tg) != 1 or tg[0] is f or tg[0].cls != f.cls or tg[0].qual in ALLM or len(tg[0].params) != 3:
        return None
    g = tg[0]
    c = e.node
    if not (isinstance(c.func, ast.Attribute) and a.is_self(f, c.func.value) and not g.name.endswith('__') and g.name.startswith('_')):
        return None
    if not any(g in x.ci.targets for x in a.events(g) if x.kind == 'call'):
        return None
    args = facts.bound_args(c, g)
    if len(args) != 2 or not all(isinstance(x, ast.Name) for x in args):
        return None
    ids = [x.id for x in args]
    if ids == [f.params[1], f.params[2]]:
        return e, g, False
    if ids == [f.params[2], f.params[1]]:
        return e, g, True
    return None


@part
def delegation_wbs(a: A, ctx):
    o = ctx.ob('delegation.wbs', 'R4',
               "WBS.roots = v is `sentinel.children = v`; WBS.remove(t) is the recursive search from the sentinel; the search "
               "asks `current.children.remove(t)` and recurses into every child with the same task", floor=3)

    def run(o):
        # roots setter
        f = a.fn('wbs.WBS.roots.setter')
        what = 'WBS.roots setter'
        ev = _single_store(a, o, f, 'children', what)
        if ev is not None:
            aug, v, st = _store_value(a, f, ev)
            if not a.is_self_attr(f, a.xp(f, ev.node.value, ev.cn), ROOT):
                o.refute(f, st, ev.node, f"{what}: assigns `{src(ev.node)}` instead of the sentinel's children")
            elif aug:
                o.refute(f, st, st, f"{what}: adds to the roots instead of replacing them")
            elif not a.is_param(f, v, 1):
                t = norm_list(v)
                if t[0] == 'filter' and not t[3] and a.is_param(f, list_source(t), 1):
                    o.site(f, st, src(st))
                else:
                    o.refute(f, st, st.value, f"{what}: assigns `{src(v)[:60]}` instead of exactly the given tasks")
            elif path_atoms(a, f, ev.cn):
                o.refute(f, st, st, f"{what}: assignment is conditional")
            elif a.must_pass(o, f, [ev], [], what):
                o.site(f, st, src(st))
        a.leftovers(o, f, what)

        # remove
        f = a.fn('wbs.WBS.remove')
        what = 'WBS.remove'
        if a.search is None:
            a.fn(SEARCH_DEFAULT)       # AnchorMissing when the method is gone
            raise AnalysisError("the search function behind WBS.remove cannot be identified")
        search, tp, cur = a.search
        sname = unmangle(search.name) if search.cls else search.name
        calls = [e for e in a.events(f) if e.kind == 'call' and search in e.ci.targets]
        if not calls:
            a.absent(o, f, f.node, what, f"{what}: does not run the recursive search")
        for e in calls:
            e.used = True
            c = e.node
            ta, ra = a.search_args(c)
            if not (ta is not None and ra is not None and a.is_param(f, a.xp(f, ta), 1) and a.is_self_attr(f, a.xp(f, ra), ROOT)):
                o.refute(f, c, c, f"{what}: search called as `{src(c)}`; expected (task, sentinel root)")
            elif path_atoms(a, f, e.cn):
                o.refute(f, c, c, f"{what}: search is conditional")
            elif a.must_pass(o, f, [e], [], what):
                o.site(f, c, src(c))
        a.leftovers(o, f, what)

        # recursive search
        f = search
        what = f'WBS.{sname}' if search.cls else sname
        # the search may only be an entry point (guard on the task) that hands both arguments on to a private recursive worker
        hop = _trampoline(a, f)
        if hop is not None:
            ev0, g, swapped = hop
            ev0.used = True
            if swapped:
                o.refute(f, ev0.node, ev0.node, f"{what}: hands its arguments to {g.name} in swapped order (`{src(ev0.node)}`)")
                a.leftovers(o, f, what)
                return
            extra = [at for at, pol, _ in path_atoms(a, f, ev0.cn)
                     if not ((match(f"{tp} is None", at) and not pol) or (match(f"{tp} is not None", at) and pol))]
            if extra:
                o.undecided(f, ev0.node, extra[0], f"{what}: the search depends on a condition the rule does not know")
                a.leftovers(o, f, what)
                return
            rets0 = returns_of(f)
            if not all(any(x is ev0.node for x in ast.walk(r)) or const_of(r.value) is False for r in rets0 if r.value is not None) \
                    or not a.must_pass(o, f, [ev0], [cfg_of(f).node_of(r) for r in rets0 if const_of(r.value) is False], what):
                o.undecided(f, f.node, what, f"{what}: result of the worker {g.name} is not handed back unchanged")
                a.leftovers(o, f, what)
                return
            a.leftovers(o, f, what)
            f = g
            what = f'WBS.{g.name}'
            tp, cur = f.params[1], f.params[2]
        worker = f

        def rec_args(c):
            """(searched-task argument, visited-task argument) of a recursive call, bound by parameter name"""
            ps = worker.params[1:] if worker.kind in ('method', 'getter', 'setter') else list(worker.params)
            m = dict(zip(ps, facts.bound_args(c, worker)))
            return m.get(tp), m.get(cur)
        direct = [e for e in a.events(f) if e.kind == 'call' and isinstance(e.node, ast.Call) and e.name == 'remove'
                  and any(t.qual in ('task._ChildrenList.remove', a.fn('task._ChildrenList.remove').qual) for t in e.ci.targets)]
        rec = [e for e in a.events(f) if e.kind == 'call' and f in e.ci.targets]
        ok = True
        walk = (_worklist_walk(a, f, cur) or _flat_walk(a, f, cur, direct)) if not rec else None
        visited, wl_name = cur, None
        if walk is not None and walk[0] == 'refute':
            o.refute(f, walk[1], walk[1], f"{what}: {walk[2]}")
            a.leftovers(o, f, what)
            return
        if walk is not None:
            visited, wl_name = walk[1], walk[2]       # the task popped from the worklist is the visited one
        elif not rec and any(isinstance(n, (ast.While, ast.For)) for n in walk_no_nested(f.node)):
            o.undecided(f, f.node, 'recursion', f"{what}: no recursive call, and the loop of the function is not a walk over "
                                                f"the subtree that the rule recognises")
            for e in a.events(f):
                e.used = True
            return
        if not direct:
            a.absent(o, f, f.node, what, f"{what}: never calls children.remove on the visited task")
            ok = False
        for e in direct:
            e.used = True
            c = e.node
            recv = a.xp(f, c.func.value, e.cn) if walk is None else c.func.value
            if not (isinstance(recv, ast.Attribute) and recv.attr == 'children' and isinstance(recv.value, ast.Name)
                    and recv.value.id == visited):
                o.refute(f, c, c, f"{what}: removes from `{src(recv)}` instead of the children of the visited task `{visited}`")
                ok = False
            elif not (len(c.args) == 1 and isinstance(a.xp(f, c.args[0], e.cn), ast.Name) and a.xp(f, c.args[0], e.cn).id == tp):
                o.refute(f, c, c, f"{what}: removes `{src(c.args[0]) if c.args else ''}` instead of the searched task")
                ok = False
            else:
                for atom, pol, _ in path_atoms(a, f, e.cn):
                    if match(f"{tp} is None", atom) and not pol:
                        continue
                    if match(f"{tp} is not None", atom) and pol:
                        continue
                    if wl_name is not None and pol and (match(wl_name, atom) or match(f"len({wl_name}) > 0", atom) or
                                                        match(f"len({wl_name})", atom) or match(f"{wl_name} != []", atom)):
                        continue        # the loop test of the worklist walk
                    o.undecided(f, c, atom, f"{what}: removal depends on a condition the rule does not know")
                    ok = False
        if not rec and walk is None:
            if any(isinstance(n, (ast.While, ast.For)) for n in walk_no_nested(f.node)):
                o.undecided(f, f.node, 'recursion', f"{what}: no recursive call, and the loop(s) of the function are not a walk over the "
                                                    f"subtree the rule recognises")
            else:
                a.absent(o, f, f.node, 'recursion', f"{what}: does not descend into the children: only root tasks can be removed")
            ok = False
        for e in rec:
            e.used = True
            c = e.node
            fo = hn = None
            r_task, r_cur = rec_args(c)
            if r_task is not None and isinstance(r_cur, ast.Name):
                fo, hn, kind = binding_of(f, c, e.cn, r_cur.id)
            if fo is None or not (isinstance(r_task, ast.Name) and r_task.id == tp):
                if isinstance(r_task, ast.Name) and isinstance(r_cur, ast.Name) and (r_task.id != tp and r_cur.id == tp):
                    o.refute(f, c, c, f"{what}: recursive call `{src(c)}` has its arguments swapped; expected (searched task, child)")
                elif fo is None and r_task is not None and isinstance(r_cur, ast.Name) and r_cur.id in (cur, tp):
                    o.refute(f, c, c, f"{what}: recursive call `{src(c)}` does not descend into a child of the visited task")
                else:
                    o.undecided(f, c, c, f"{what}: recursive call `{src(c)}` is not recognised as (searched task, child of the visited task)")
                ok = False
                continue
            if kind == 'comp' and comp_skips(fo, c):
                o.refute(f, c, c, f"{what}: some children are not searched (`{src(comp_skips(fo, c)[0])}`)")
                ok = False
                continue
            it = a.xp(f, fo.iter, hn)
            src_it = list_source(norm_list(it)) if norm_list(it)[0] in ('ref', 'filter') and not (norm_list(it)[0] == 'filter' and norm_list(it)[3]) else None
            if not (src_it is not None and isinstance(src_it, ast.Attribute) and src_it.attr in ('children', '_Task__children')
                    and isinstance(src_it.value, ast.Name) and src_it.value.id == cur):
                o.refute(f, fo, fo.iter, f"{what}: recursion iterates `{src(it)}` instead of all children of the visited task")
                ok = False
        if ok:
            # result propagation: True only after a successful removal
            for r in returns_of(f):
                if const_of(r.value) is True:
                    conds = cfg_of(f).conditions(cfg_of(f).node_of(r))
                    good = any(pol and any(any(x is e.node for x in ast.walk(resolve(f, t, cfg_of(f).node_containing(t))[0]))
                                           for e in direct + rec) for t, pol in conds)
                    if not good:
                        o.refute(f, r, r, f"{what}: returns True without a successful removal")
                        ok = False
        if ok and a.leftovers(o, f, what) == 0:
            o.site(f, direct[0].node, f"{src(direct[0].node)}; " + (f"recursion over {cur}.children" if walk is None else
                                                                   f"worklist walk from {cur} over {visited}.children"))
        else:
            a.leftovers(o, f, what)
    ctx.guarded(o, run)


@part
def delegation_remove_all(a: A, ctx):
    o = ctx.ob('delegation.remove_all', 'R4',
               "remove_all queries with the caller's key and filters, removes every match through the single-task removal "
               "and returns the matches", floor=2)

    def run(o):
        for q, single in (('task._TaskList.remove_all', 'remove'), ('wbs.WBS.remove_all', None)):
            f = a.fn(q)
            what = q.split('.', 1)[1]
            key_p = f.params[1]
            kw = f.node.args.kwarg.arg if f.node.args.kwarg else None
            cfg = cfg_of(f)
            # the removal calls
            if single:
                rem = [e for e in a.events(f) if e.kind == 'call' and e.name == 'remove' and isinstance(e.node, ast.Call)
                       and a.is_self(f, e.node.func.value)]
            else:
                sg = a.search[0] if a.search is not None else None
                rem = [e for e in a.events(f) if e.kind == 'call' and isinstance(e.node, ast.Call) and
                       ((sg is not None and sg in e.ci.targets) or
                        (e.name == 'remove' and isinstance(e.node.func, ast.Attribute) and a.is_self(f, e.node.func.value)))]
            if not rem:
                a.absent(o, f, f.node, what, f"{what}: never removes a task through the single-task removal")
                a.leftovers(o, f, what)
                continue
            good = True
            query = None
            for e in rem:
                e.used = True
                c = e.node
                is_search = a.search is not None and a.search[0] in e.ci.targets
                arg0, root_arg = a.search_args(c) if is_search else (c.args[0] if c.args else None, None)

                def from_root():
                    return root_arg is not None and a.is_self_attr(f, a.xp(f, root_arg, e.cn), ROOT)
                fo = enclosing_for_binding(f, e.cn, arg0.id) if isinstance(arg0, ast.Name) else None
                if fo is None and isinstance(arg0, ast.Name):
                    # the removal sits inside a comprehension over the matches
                    stmt = e.cn.ast
                    for comp in [n for n in ast.walk(stmt) if isinstance(n, (ast.ListComp, ast.GeneratorExp, ast.SetComp))] if stmt is not None else []:
                        g = comp.generators[0]
                        if len(comp.generators) == 1 and isinstance(g.target, ast.Name) and g.target.id == arg0.id and \
                                any(x is c for x in ast.walk(comp)):
                            fo = ast.For(target=g.target, iter=g.iter, body=[], orelse=[])
                            in_elt_or_first_if = any(x is c for x in ast.walk(comp.elt)) or (g.ifs and any(x is c for x in ast.walk(g.ifs[0])))
                            if is_search and not from_root():
                                fo = None
                            elif not in_elt_or_first_if:
                                o.refute(f, c, comp, f"{what}: some matches are not removed (the removal sits behind another filter)")
                                good = False
                                fo = 'done'
                            else:
                                it, itn, _ = resolve(f, g.iter, e.cn)
                                query = (it, itn, fo)
                                fo = 'done'
                            break
                    if fo == 'done':
                        continue
                if fo is None:
                    if arg0 is not None and isinstance(resolve(f, arg0, e.cn)[0], ast.Call) and \
                            not isinstance(arg0, ast.Subscript):
                        o.refute(f, c, c, f"{what}: `{src(c)}` hands the whole query result to the single-task removal instead of "
                                          f"removing the matched tasks one by one")
                    else:
                        o.undecided(f, c, c, f"{what}: `{src(c)}` is not inside a loop over the matched tasks the rule can follow")
                    good = False
                    continue
                if is_search and not from_root():
                    o.refute(f, c, c, f"{what}: the search for a match does not start at the sentinel root")
                    good = False
                    continue
                it, itn, _ = resolve(f, fo.iter, cfg.node_of(fo))
                tq = norm_list(it)
                if is_plain_copy(tq) and list_source(tq) is not None and not isinstance(it, ast.Call) or \
                        (is_plain_copy(tq) and isinstance(it, ast.Call) and isinstance(it.func, ast.Name) and it.func.id == 'list'):
                    it, itn, _ = resolve(f, list_source(tq), itn)       # a copy of the matches: the same tasks
                query = (it, itn, fo)
                inner = path_atoms(a, f, e.cn, since=cfg.node_of(fo))
                if inner:
                    over_query = isinstance(it, ast.Call) and (a.is_self(f, it.func) if single else
                                                               (isinstance(it.func, ast.Attribute) and it.func.attr == 'tasks' and
                                                                a.is_self(f, it.func.value)))
                    if over_query:
                        o.refute(f, c, inner[0][0], f"{what}: some matches are not removed (`{src(inner[0][0])}`)")
                    else:       # a loop over something else with the match test inside: another way of selecting, not followed
                        o.undecided(f, c, inner[0][0], f"{what}: the loop does not range over the query result and removes under "
                                                       f"`{src(inner[0][0])[:60]}`: which tasks are removed is not followed")
                    good = False
            if not good or query is None:
                a.leftovers(o, f, what)
                continue
            it, itn, fo = query
            # the query: self(key, **kwargs) / self.tasks(key, **kwargs)
            def query_form(x, at=None):
                if not isinstance(x, ast.Call):
                    return False
                fn_ = x.func
                if isinstance(fn_, ast.Name) and not a.is_self(f, fn_):
                    # the searchable list hoisted into a local first: `all_tasks = self.tasks; all_tasks(key, **kwargs)`
                    fn_ = resolve(f, fn_, at if at is not None else itn)[0]
                return a.is_self(f, fn_) if single else (isinstance(fn_, ast.Attribute) and fn_.attr == 'tasks' and a.is_self(f, fn_.value))
            okq = query_form(it)
            qname = None
            if not okq and isinstance(it, ast.Name) and itn is not None:
                # one query per branch of a test on the key (`if key is None: q = self(**kw) elif callable(key): q = self(key, **kw)`)
                vs = _value_variants(f, it, itn)
                if len(vs) > 1 and all(n0 is not None and query_form(v0, n0) for v0, n0 in vs):
                    verdicts = []
                    for v0, n0 in vs:
                        conds = [(strip_not(t0, p0)) for t0, p0, _ in _raw_atoms(f, n0)]
                        k_ok = (len(v0.args) >= 1 and isinstance(v0.args[0], ast.Name) and v0.args[0].id == key_p) or \
                            any(k.arg == 'key' and isinstance(k.value, ast.Name) and k.value.id == key_p for k in v0.keywords)
                        kw_ok = any(k.arg is None and isinstance(k.value, ast.Name) and k.value.id == kw for k in v0.keywords)
                        key_none = any((match(f"{key_p} is None", t0) and p0) or (match(f"{key_p} is not None", t0) and not p0) or
                                       (match(f"{key_p}", t0) and not p0) for t0, p0 in conds)
                        kw_none = kw is not None and any((match(f"{kw}", t0) and not p0) or (match(f"len({kw}) == 0", t0) and p0)
                                                          for t0, p0 in conds)
                        if not kw_ok and not kw_none:
                            verdicts.append(('refute', v0, 'keyword filters'))
                        elif not k_ok and not key_none:
                            other_use = any(isinstance(n1, ast.Name) and n1.id == key_p for n1 in ast.walk(v0))
                            verdicts.append(('undecided' if other_use else 'refute', v0, 'key'))
                    bad_v = [x for x in verdicts if x[0] == 'refute']
                    if bad_v:
                        o.refute(f, rem[0].node, bad_v[0][1], f"{what}: on one branch the query `{src(bad_v[0][1])}` drops the caller's "
                                                              f"{bad_v[0][2]}: more tasks than the matching ones are removed")
                        a.leftovers(o, f, what)
                        continue
                    if verdicts:
                        o.undecided(f, rem[0].node, verdicts[0][1], f"{what}: the query `{src(verdicts[0][1])}` passes the key in another "
                                                                   f"way than `{'self' if single else 'self.tasks'}(key, **kwargs)`")
                        a.leftovers(o, f, what)
                        continue
                    okq, qname = True, it.id
                    it = vs[0][0]
            if not okq:
                o.undecided(f, rem[0].node, fo.iter, f"{what}: the removed tasks are not the result of the list query `{'self' if single else 'self.tasks'}(key, **kwargs)`")
                a.leftovers(o, f, what)
                continue
            has_key = (len(it.args) >= 1 and isinstance(it.args[0], ast.Name) and it.args[0].id == key_p) or \
                any(k.arg == 'key' and isinstance(k.value, ast.Name) and k.value.id == key_p for k in it.keywords)
            has_kw = any(k.arg is None and isinstance(k.value, ast.Name) and k.value.id == kw for k in it.keywords)
            if qname is None and (not has_key or not has_kw):
                o.refute(f, rem[0].node, it, f"{what}: the query `{src(it)}` drops the caller's " + ('key' if not has_key else 'keyword filters') +
                         ": more tasks than the matching ones are removed")
                a.leftovers(o, f, what)
                continue
            # returns: the matches (or an empty list when the query is empty)
            bad = False
            noops = []

            def is_query(x, at_node):
                if qname is not None:       # the per-branch query local itself (never rebound after the branches)
                    return isinstance(x, ast.Name) and x.id == qname and at_node is not None and \
                        {id(d) for d in flow_of(f).reaching(qname, at_node)} == {id(d) for d in flow_of(f).reaching(qname, itn)}
                r0 = resolve(f, x, at_node)[0]
                return isinstance(r0, ast.Call) and same(r0, it)

            def says_empty(at, pol, tst):
                n0 = cfg.node_containing(tst)
                if is_query(at, n0):
                    return not pol
                m = match("len($q)", at)
                if m and is_query(m['q'], n0):
                    return not pol
                for pat, when in (("len($q) == 0", True), ("len($q) != 0", False), ("len($q) > 0", False), ("len($q) >= 1", False),
                                  ("len($q) < 1", True), ("0 == len($q)", True), ("0 < len($q)", False)):
                    m = match(pat, at)
                    if m and is_query(m['q'], n0):
                        return pol == when
                return False
            for r in returns_of(f):
                rn = cfg.node_of(r)
                v, vn, _ = resolve(f, r.value, rn) if r.value is not None else (None, None, 0)
                if v is not None and vn is itn and same(v, it):
                    continue
                if qname is not None and r.value is not None and is_query(r.value, rn):
                    continue
                if v is not None and (match("_ImmutableTaskList([])", v) or match("[]", v) or match("_ImmutableTaskList(list())", v)):
                    if any(says_empty(at, pol, tst) for at, pol, tst in _raw_atoms(f, rn)):
                        noops.append(rn)
                        continue
                    if any(cfg.can_reach(e.cn, rn) for e in rem):
                        o.refute(f, r, r, f"{what}: returns an empty list after removing the matches; documented: the removed tasks")
                    else:
                        o.undecided(f, r, r, f"{what}: returns an empty list on a path the rule cannot tie to an empty query result")
                    bad = True
                    continue
                if isinstance(v, ast.IfExp):
                    def empty(x):
                        return bool(match("_ImmutableTaskList([])", x) or match("[]", x) or match("_ImmutableTaskList(list())", x))

                    def the_query(x):
                        x0, xn, _ = resolve(f, x, rn)
                        return x0 is not None and xn is itn and same(x0, it)
                    tst, tp_ = strip_not(v.test, True)
                    q_arm, e_arm = (v.body, v.orelse) if tp_ else (v.orelse, v.body)
                    if the_query(q_arm) and empty(e_arm) and not says_empty(tst, True, v.test) and \
                            (is_query(tst, rn) or says_empty(tst, False, v.test)):
                        continue        # `matches if matches else <empty list>`: the matches, or an empty list when there are none
                inner_v = v
                mw = match("_ImmutableTaskList($x)", v) if v is not None else None
                if mw:
                    inner_v = mw['x']
                tv = norm_list(inner_v) if inner_v is not None else ('ref', None)
                if tv[0] == 'filter' and tv[3] and is_query(tv[1], rn):
                    o.refute(f, r, r, f"{what}: returns only the matches that satisfy `{src(tv[3][0])[:60]}`; documented: the removed tasks "
                                      f"= ALL matches of the query")
                elif not any(e.cn is rn or cfg.can_reach(e.cn, rn) for e in rem) and \
                        not any(says_empty(at, pol, tst) for at, pol, tst in _raw_atoms(f, rn)):
                    o.refute(f, r, r, f"{what}: returns `{src(r.value)[:60] if r.value is not None else None}` on a path on which no task was "
                                      f"removed through the single-task removal (and the query is not known to be empty there)")
                elif r.value is None or isinstance(v, (ast.Constant, ast.List, ast.Tuple, ast.Dict)) or \
                        (isinstance(v, ast.Name) and v.id in f.params):
                    o.refute(f, r, r, f"{what}: returns `{src(r.value) if r.value is not None else None}` instead of the removed tasks "
                                      f"(all matches of the query)")
                else:
                    o.undecided(f, r, r, f"{what}: cannot tell that `{src(r.value)[:60]}` is the list of removed tasks")
                bad = True
            if not bad and a.must_pass(o, f, rem, noops, what) and a.leftovers(o, f, what) == 0:
                o.site(f, rem[0].node, f"for {src(fo.target)} in {src(it)}: {src(rem[0].node)}")
            else:
                a.leftovers(o, f, what)
    ctx.guarded(o, run)


def _raw_atoms(f, cn):
    """unexpanded (atom, polarity, test) of the non-loop branches dominating cn"""
    cfg = cfg_of(f)
    out = []
    for t, pol in cfg.conditions(cn):
        for at, p in facts.split_conj(t, pol):
            at, p = strip_not(at, p)
            out.append((at, p, t))
    return out


# ====================================================================================================== provenance
ORDER_BREAKERS = ('reversed', 'sorted', 'set', 'frozenset')


def is_arg(a: A, f, e, at, i=1, depth=0):
    """e denotes the tasks of parameter i in the given order: the parameter, _to_list(parameter), a plain copy"""
    if depth > 6 or e is None:
        return False
    e, at, _ = resolve(f, e, at)
    if isinstance(e, ast.Name):
        return e.id == f.params[i] and not any(d.kind != 'param' for d in flow_of(f).reaching(e.id, at)) if at is not None \
            else e.id == f.params[i]
    m = match("_to_list($x)", e)
    if m:
        return is_arg(a, f, m['x'], at, i, depth + 1)
    m = match("_unique_tasks($x)", e) if getattr(a, 'uniq_ok', False) else None
    if m:
        return is_arg(a, f, m['x'], at, i, depth + 1)      # links: the given tasks, each once, in the order of first occurrence
    t = norm_list(e)
    if t[0] == 'filter' and not t[3]:
        return is_arg(a, f, t[1], at, i, depth + 1)
    if t[0] == 'filter' and t[2] and all(match(f"{t[2]} is not None", c0) for c0 in t[3]):
        return is_arg(a, f, t[1], at, i, depth + 1)      # what _to_list does: the given tasks without None entries
    if isinstance(e, ast.IfExp) and (match("isinstance($p, Task)", e.test) or match("type($p) is Task", e.test)):
        # `[p] if isinstance(p, Task) else <the tasks of p>`: _to_list written out
        single = isinstance(e.body, (ast.List, ast.Tuple)) and len(e.body.elts) == 1 and is_arg(a, f, e.body.elts[0], at, i, depth + 1)
        return single and is_arg(a, f, e.orelse, at, i, depth + 1)
    return False


def classify_list(a: A, f, e, at, i=1):
    """('arg',) | ('arg-reordered', how) | ('live', field, at) | ('copy', field, at) | ('other', expr)
    of a list expression evaluated at cfg node `at` in a Task method"""
    name0 = e.id if isinstance(e, ast.Name) else None
    e, at, _ = resolve(f, e, at)
    if name0 is None and isinstance(e, ast.Name):
        name0 = e.id
    if isinstance(e, ast.Name):
        name0 = e.id
    if name0 is not None and ((isinstance(e, ast.List) and not e.elts) or match("list()", e) or isinstance(e, ast.Name)):
        # `acc = []; for v in X: acc.append(v)` (nothing skipped): a copy of X taken when the loop runs
        cs = [c for c in facts.collects(f) if c.kind == 'loop' and c.acc == name0]
        if len(cs) == 1 and facts.accumulated_list(f, name0) is not None and not cs[0].conds and \
                isinstance(cs[0].elt, ast.Name) and isinstance(cs[0].target, ast.Name) and cs[0].elt.id == cs[0].target.id:
            hn = cfg_of(f).node_of(cs[0].node)
            if hn is not None:
                inner = classify_list(a, f, cs[0].iter, hn, i)
                if inner[0] == 'live':
                    return ('copy', inner[1], hn)
                if inner[0] in ('copy', 'arg', 'arg-reordered'):
                    return inner
    if is_arg(a, f, e, at, i):
        return ('arg',)
    mt = match("tuple($x)", e)
    if mt:
        inner = classify_list(a, f, mt['x'], at, i)     # the same elements in the same order (only read by the loop)
        return ('copy', inner[1], at) if inner[0] == 'live' else inner
    if isinstance(e, ast.Call) and isinstance(e.func, ast.Name) and e.func.id in ORDER_BREAKERS and e.args and \
            is_arg(a, f, e.args[0], at, i):
        return ('arg-reordered', e.func.id)
    if isinstance(e, ast.Subscript) and isinstance(e.slice, ast.Slice) and e.slice.step is not None and is_arg(a, f, e.value, at, i):
        return ('arg-reordered', 'slice with a step')
    if isinstance(e, ast.Attribute) and a.is_self(f, e.value) and e.attr in REL_FIELDS:
        return ('live', e.attr, at)
    t = norm_list(e)
    if t[0] == 'filter' and not t[3]:
        inner = classify_list(a, f, t[1], at, i)
        if inner[0] == 'live':
            return ('copy', inner[1], at)
        if inner[0] in ('copy', 'arg', 'arg-reordered'):
            return inner
    return ('other', e)


def elem_class(a: A, f, recv, cn, i=1):
    """provenance of a loop variable used as the receiver of a write at cfg node cn: (class tuple, for statement)"""
    if not isinstance(recv, ast.Name):
        return None, None
    fo = enclosing_for_binding(f, cn, recv.id)
    if fo is None:
        return None, None
    hn = cfg_of(f).node_of(fo)
    return classify_list(a, f, fo.iter, hn, i), fo


def elem_class_filtered(a: A, f, recv, cn, i=1):
    """like elem_class, but a loop over `[v for v in L if C(v)]` (directly or through a local) is read as a loop over L whose
    body runs under C(loop variable):  (class of L, for statement, [conditions with the loop variable substituted])"""
    k, fo = elem_class(a, f, recv, cn, i)
    if k is None or k[0] != 'other' or fo is None:
        return k, fo, []
    t = norm_list(k[1])
    if isinstance(fo.iter, ast.Name):
        # `acc = []; for v in L: if C(v): acc.append(v)` ... `for x in acc:`  ==  a loop over [v for v in L if C(v)]
        acc = facts.accumulated_list(f, fo.iter.id)
        ta = norm_list(acc) if acc is not None else None
        if ta is not None and ta[0] == 'concat' and len(ta[1]) == 2 and ta[1][0][0] == 'lit' and not ta[1][0][1] and ta[1][1][0] == 'filter':
            t = ta[1][1]
        elif ta is not None and ta[0] == 'filter':
            t = ta
    if t[0] == 'filter' and t[3] and t[2]:
        hn = cfg_of(f).node_of(fo)
        at = resolve(f, fo.iter, hn)[1]
        inner = classify_list(a, f, t[1], at, i)
        if inner[0] != 'other':
            sub = {t[2]: ast.Name(id=recv.id, ctx=ast.Load())}
            import copy
            return inner, fo, [_Subst(sub).visit(copy.deepcopy(c)) for c in t[3]]
    return k, fo, []


def _write_arg_is_self(f, w):
    c = w.node
    return isinstance(c, ast.Call) and len(c.args) >= 1 and isinstance(c.args[-1], ast.Name) and c.args[-1].id == f.self_name


# ====================================================================================================== setters exact
@part
def children_setter(a: A, ctx):
    o = ctx.ob('setters_exact.children', 'R4',
               "Task.children = v: the shared list object is emptied in place (never rebound), every old child loses its "
               "parent, and the elements of v are re-parented one by one in the order of v; tasks left out are released", floor=4)

    def run(o):
        f = a.fn('task.Task.children.setter')
        cfg = cfg_of(f)
        FLD = '_Task__children'
        evs = a.events(f)
        writes = [e for e in evs if e.kind == 'write']
        # (a) in-place clear, no rebinding
        clears, bad = [], False
        for e in writes:
            w = e.w
            if w.field != FLD:
                continue
            if not a.is_self(f, w.recv):
                continue        # judged by frame / subtree_follows
            e.used = True
            if w.kind == 'store':
                o.refute(f, w.node, w.node, "children setter rebinds self.__children to another list object: facades handed out "
                                            "earlier (x.children, wbs.roots) keep the old object and go stale; the list must be "
                                            "emptied in place (`.clear()`)")
                bad = True
            elif w.kind == 'mutate:clear':
                clears.append(e)
            elif w.kind == 'subscript-store' and isinstance(w.node, ast.Delete):
                clears.append(e)
            elif w.kind == 'subscript-store' and isinstance(w.node, ast.Assign) and isinstance(w.node.value, ast.List) \
                    and not w.node.value.elts:
                clears.append(e)
            elif w.kind == 'mutate:remove':
                # taking the old children out one by one: the same as emptying the list only when nobody is spared
                k, fo = elem_class(a, f, w.node.args[0] if w.node.args else None, e.cn)
                spared = path_atoms(a, f, e.cn, since=cfg.node_of(fo)) if fo is not None else [None]
                later_clear = [e2 for e2 in writes if e2.w.field == FLD and a.is_self(f, e2.w.recv) and e2.w.kind == 'mutate:clear'
                               and cfg.can_reach(e.cn, e2.cn) and not cfg.can_reach(e2.cn, e.cn) and not path_atoms(a, f, e2.cn)]
                if k is not None and k[0] == 'copy' and k[1] == FLD and not spared:
                    o.undecided(f, w.node, w.node, "children setter empties its list by removing the old children one by one")
                elif later_clear:
                    # a pre-step: the list is still emptied completely afterwards, the order is rebuilt from the given value
                    o.undecided(f, w.node, w.node, f"children setter takes some old children out (`{src(w.node)}`) before the list is "
                                                   f"emptied and refilled anyway; the effect of this extra step is not followed")
                else:
                    o.refute(f, w.node, w.node, "children setter does not empty the old list: old children are taken out selectively "
                                                f"(`{src(w.node)}`" + (f" only when `{src(spared[0][0])}`" if spared and spared[0] else '') +
                             "), the ones that stay keep their OLD position, so the list does not end up in the given order")
                bad = True
            else:
                o.undecided(f, w.node, w.node, "children setter edits its own list in a way the rule does not know")
                bad = True
        if not clears and not bad:
            a.absent(o, f, f.node, 'clear', "children setter never empties the old list: the given tasks are added to the old children "
                                         "instead of replacing them")
            bad = True
        fast, fast_tests = [], []
        if len(clears) > 1 and not bad:
            # a separate path for an EMPTY value (`if not value: release; clear; return`) next to the general one
            psets = [e for e in evs if e.kind == 'setter' and e.name == 'parent']
            main = [c0 for c0 in clears if any(cfg.can_reach(c0.cn, e.cn) for e in psets)]
            rest = [c0 for c0 in clears if c0 not in main]

            def value_empty(at, pol, cn0):
                m0 = match("len($v) == 0", at) or match("$v == []", at)
                if m0 and pol and is_arg(a, f, m0['v'], cn0):
                    return True
                m0 = match("len($v)", at) or match("len($v) > 0", at) or match("len($v) != 0", at)
                if m0 and not pol and is_arg(a, f, m0['v'], cn0):
                    return True
                return isinstance(at, ast.Name) and not pol and is_arg(a, f, at, cn0)
            okf = len(main) == 1
            for c0 in rest:
                atoms0 = _raw_atoms(f, c0.cn)
                if not (okf and atoms0 and not cfg.can_reach(c0.cn, main[0].cn) and not cfg.can_reach(main[0].cn, c0.cn) and
                        all(value_empty(at, pol, cfg.node_containing(tst)) or is_rejection(cfg, tst, pol) for at, pol, tst in atoms0)):
                    okf = False
                    break
                fast_tests += [tst for at, pol, tst in atoms0 if value_empty(at, pol, cfg.node_containing(tst))]
            if okf:
                fast, clears = rest, main
                dets = [e for e in evs if e.kind == 'call' and e.name == '_detach']
                for c0 in fast:
                    c0.used = True
                    heads = {cfg.node_of(fo0).id for e in dets for fo0 in cfg.enclosing_fors(e.cn) if cfg.node_of(fo0) is not None} | \
                            {e.cn.id for e in dets}
                    if dets and _reaches_exit_avoiding(cfg, c0.cn, heads):
                        o.refute(f, c0.node, c0.node, "on the path for an empty value the old children are unlinked and the list is emptied "
                                                      "(`" + src(c0.node) + "`) but the function returns without the `_detach()` step that "
                                                      "the general path performs for released tasks: assigning [] releases the children "
                                                      "differently from assigning a list that leaves them out")
                        bad = True
        if len(clears) > 1 and not bad:
            o.undecided(f, clears[1].node, clears[1].node, "several clears")
            bad = True
        if bad:
            a.leftovers(o, f, 'children setter')
            return
        clear = clears[0]
        if [x for x in path_atoms(a, f, clear.cn) if not any(x[2] is t0 for t0 in fast_tests)]:
            o.refute(f, clear.node, clear.node, "the old list is emptied only conditionally")
            return
        o.site(f, clear.node, 'in-place: ' + src(clear.node))

        # (b) old children released: X.__parent = None for X over the old list, before it is emptied
        rel = []
        for e in writes:
            w = e.w
            if w.field != '_Task__parent' or a.is_self(f, w.recv):
                continue
            e.used = True
            k, fo, filt = elem_class_filtered(a, f, w.recv, e.cn)
            if not (w.kind == 'store' and const_of(w.node.value) is None):
                o.refute(f, w.node, w.node, f"children setter writes `{src(w.node)}`: elements are re-parented through "
                                            f"their parent setter only; old children get parent None")
                bad = True
                continue
            if k is None or k[0] == 'other':
                o.undecided(f, w.node, w.node, f"`{src(w.node)}`: cannot tell which tasks are released")
                bad = True
                continue
            if k[0] not in ('live', 'copy') or k[1] != FLD:
                o.refute(f, w.node, w.node, f"`{src(w.node)}` is applied to tasks that are not the old children")
                bad = True
                continue
            hn = cfg.node_of(fo)
            src_node = hn if k[0] == 'live' else k[2]
            if cfg.can_reach(clear.cn, src_node) and not cfg.can_reach(src_node, clear.cn):
                o.refute(f, fo, fo, "the old children are read after the list has been emptied: nobody is released")
                bad = True
                continue
            inner = path_atoms(a, f, e.cn, since=hn) + [(c0, True, c0) for c0 in filt]
            if inner:
                o.undecided(f, w.node, inner[0][0], "release of an old child depends on a condition the rule does not know")
                bad = True
                continue
            rel.append(e)
        if not rel and not bad:
            a.absent(o, f, f.node, 'release', "old children keep `self` as their parent although they are taken out of the list")
            bad = True
        if bad:
            a.leftovers(o, f, 'children setter')
            return
        o.site(f, rel[0].node, 'old children released: ' + src(rel[0].node))

        # (c) re-parent the given tasks in the given order, after the clear
        sets = [e for e in evs if e.kind == 'setter' and e.name == 'parent' and e.stmt is not None]
        good = []
        for e in sets:
            e.used = True
            st = e.stmt
            k, fo = elem_class(a, f, e.node.value, e.cn)
            if isinstance(st, ast.AugAssign) or not a.is_self(f, a.xp(f, st.value, e.cn)):
                o.refute(f, st, st, f"`{src(st)}`: the given tasks must get `self` as parent")
                bad = True
            elif k is None or k[0] == 'other':
                a.uniq_ok = True
                try:
                    k_u, _fo = elem_class(a, f, e.node.value, e.cn)
                finally:
                    a.uniq_ok = False
                if k_u is not None and k_u[0] == 'arg':
                    o.refute(f, fo or st, (fo.iter if fo is not None else st),
                             "the assigned sequence is de-duplicated (`_unique_tasks`, first occurrence wins) before the tasks are attached "
                             "one by one: a task named again later in the value - `p // t` / `p.children += t` for a task that already is a "
                             "child, `children = [a, b, a]` - is no longer taken out and appended at its LAST named position")
                else:
                    o.undecided(f, st, st, "re-parented tasks are not drawn from a loop over the assigned value")
                bad = True
            elif k[0] == 'arg-reordered':
                o.refute(f, fo, fo.iter, f"the given tasks are attached in the order of `{k[1]}(...)`, not in the given order: "
                                         f"append-at-end then yields a different children order")
                bad = True
            elif k[0] != 'arg':
                o.refute(f, fo, fo.iter, "the tasks re-parented are the old children, not the assigned ones")
                bad = True
            else:
                hn = cfg.node_of(fo)
                inner = path_atoms(a, f, e.cn, since=hn)
                if inner:
                    o.refute(f, st, inner[0][0], f"some of the given tasks are not attached (`{src(inner[0][0])}`)")
                    bad = True
                elif not cfg.dominates(clear.cn, hn):
                    o.refute(f, fo, fo, "the given tasks are attached before the old list is emptied: the clear drops them again")
                    bad = True
                else:
                    good.append(e)
        if not sets:
            a.absent(o, f, f.node, 're-parent', "children setter never assigns `v.parent = self` to the given tasks")
            bad = True
        if bad:
            a.leftovers(o, f, 'children setter')
            return
        if not a.must_pass(o, f, good, [c0.cn for c0 in fast], 'children setter'):
            return
        o.site(f, good[0].stmt, f"for v in value: {src(good[0].stmt)}")

        # (d) tasks left out are detached - only those
        det = [e for e in evs if e.kind == 'call' and e.name == '_detach']
        okd = True
        for e in det:
            e.used = True
            c = e.node
            recv = c.func.value
            k, fo, filt = elem_class_filtered(a, f, recv, e.cn)
            if k is None or k[0] == 'other':
                o.undecided(f, c, c, "`_detach()`: cannot tell which tasks are detached")
                okd = False
                continue
            if k[0] not in ('copy', 'live') or k[1] != FLD:
                o.refute(f, c, c, "`_detach()` is applied to tasks that are not the old children")
                okd = False
                continue
            hn = cfg.node_of(fo)
            # the clear of the path this detach loop stands on (the general path, or the separate path for an empty value)
            on_fast = [c0 for c0 in fast if (cfg.can_reach(c0.cn, e.cn) or cfg.can_reach(e.cn, c0.cn)) and
                       not cfg.can_reach(clear.cn, e.cn) and not cfg.can_reach(e.cn, clear.cn)]
            clear_d = on_fast[0] if on_fast else clear
            if k[0] == 'live' and cfg.can_reach(clear_d.cn, hn):
                o.refute(f, fo, fo.iter, "the loop that detaches the released tasks iterates the live list after it was emptied" +
                         ("" if on_fast else " and refilled: it sees the NEW children"))
                okd = False
                continue
            if k[0] == 'copy' and not cfg.can_reach(k[2], clear_d.cn):
                o.refute(f, fo, fo.iter, "the copy of the old children is taken after the list was emptied")
                okd = False
                continue
            if on_fast and not path_atoms(a, f, e.cn, since=hn) and not filt:
                continue        # empty value: nobody stays, every old child is released and detached
            inner = path_atoms(a, f, e.cn, since=hn)
            for c0 in filt:
                inner = inner + [strip_not(x, q) + (c0,) for x, q in facts.split_conj(c0, True)]
            v = recv.id
            kept = [1 for at, pol, _ in inner if pol and (match(f"{v}._Task__parent is None", at) or match(f"{v}.parent is None", at))
                    or (not pol and match(f"{v}._Task__parent is not None", at))]
            notin = [1 for at, pol, _ in inner if isinstance(at, ast.Compare) and len(at.ops) == 1 and
                     isinstance(at.ops[0], ast.NotIn if pol else ast.In) and isinstance(at.left, ast.Name) and at.left.id == v
                     and is_arg(a, f, at.comparators[0], e.cn)]
            if not kept and not notin:
                dt = a.fn('task.Task._detach') if a.prog.has_func('task.Task._detach') else None
                guarded_inside = dt is not None and any(
                    isinstance(n, ast.Attribute) and n.attr in ('_Task__parent', 'parent') and a.is_self(dt, n.value)
                    for t0, _ in [(x, 0) for n0 in cfg_of(dt).nodes if n0.kind == 'branch' and not isinstance(n0.test, (ast.For, ast.AsyncFor))
                                  for x in [n0.test]] for n in ast.walk(t0))
                if guarded_inside:
                    # the `still has a parent -> stays` test moved into _detach itself: what it must do is C11's subject
                    o.undecided(f, c, c, "every old child is handed to _detach(); whether the ones that stay are spared is decided "
                                         "inside _detach (a test on the task's parent), which this clause does not follow")
                else:
                    o.refute(f, c, c, "every old child is detached, also the ones that stay in the new list")
                okd = False
            elif len(inner) > len(kept) + len(notin):
                o.undecided(f, c, c, "detaching depends on a condition the rule does not know")
                okd = False
        if okd and det:
            o.site(f, det[0].node, 'left-out tasks detached')
        elif okd:
            o.site(f, f.node, 'no detach call (C11 decides)')
        a.leftovers(o, f, 'children setter')
    ctx.guarded(o, run)


@part
def dependency_setters(a: A, ctx):
    o = ctx.ob('setters_exact.dependencies', 'R11',
               "Task.predecessors / successors = v: store a copy of exactly the given tasks in the given order; remove self from "
               "the mirror list of every OLD element (decided on task identity, never on ids); append self to the mirror list "
               "of every new element", floor=6)

    def run(o):
        a.uniq_ok = True        # a dependency list holds every task once: `_unique_tasks(<the argument>)` is still `the given tasks`
        try:
            run_dep(o)
        finally:
            a.uniq_ok = False

    def run_dep(o):
        for rel, (FLD, MIR) in DEP.items():
            f = a.fn(f'task.Task.{rel}.setter')
            what = f'{rel} setter'
            cfg = cfg_of(f)
            evs = a.events(f)
            writes = [e for e in evs if e.kind == 'write']
            stores = [e for e in writes if e.w.field == FLD and e.w.kind == 'store' and a.is_self(f, e.w.recv)]
            bad = False
            # (a) the stored list
            if len(stores) != 1:
                if not stores:
                    a.absent(o, f, f.node, 'store', f"{what}: never stores the new list into self.{unmangle(FLD)}")
                else:
                    o.undecided(f, stores[1].node, stores[1].node, f"{what}: several stores of the list")
                for e in stores:
                    e.used = True
                a.leftovers(o, f, what)
                continue
            store = stores[0]
            store.used = True
            st = store.node
            if isinstance(st, ast.AugAssign):
                o.refute(f, st, st, f"{what}: adds to the old list instead of replacing it")
                a.leftovers(o, f, what)
                continue
            v, vn, hops = resolve(f, st.value, store.cn)
            t = norm_list(v)
            if t[0] == 'filter' and t[3] and is_arg(a, f, t[1], vn):
                o.refute(f, st, st.value, f"{what}: stores a filtered list `{src(v)[:70]}`: not exactly the given tasks")
                bad = True
            elif t[0] == 'filter' and not t[3] and is_arg(a, f, t[1], vn):
                pass
            elif match("_to_list($x)", v) and is_arg(a, f, v, vn) and _builds_new_list(a.fn('task._to_list')):
                pass        # _to_list builds a new list on every path: storing it is storing a private copy
            elif match("_unique_tasks($x)", v) and is_arg(a, f, v, vn) and a.prog.has_func('task._unique_tasks') and \
                    _fresh_returns(a.fn('task._unique_tasks')):
                pass        # likewise: a new list of the given tasks, each once
            elif is_arg(a, f, v, vn):
                o.refute(f, st, st.value, f"{what}: stores the caller's list object itself (no copy): later edits of that list by the "
                                          f"caller change the task's {rel} behind the mirror updates")
                bad = True
            elif t[0] in ('concat',):
                o.refute(f, st, st.value, f"{what}: stores `{src(v)[:70]}`: not exactly the given tasks")
                bad = True
            elif classify_list(a, f, v, vn)[0] == 'arg-reordered':
                o.refute(f, st, st.value, f"{what}: stores `{src(v)[:70]}`: the given tasks in another order "
                                          f"({classify_list(a, f, v, vn)[1]})")
                bad = True
            elif t[0] == 'ref' and isinstance(v, ast.Call) and isinstance(v.func, ast.Name) and v.func.id in ORDER_BREAKERS + ('tuple',):
                o.refute(f, st, st.value, f"{what}: stores `{src(v)[:70]}`: order / list type of the given tasks is lost")
                bad = True
            else:
                o.undecided(f, st, st.value, f"{what}: stored value is not a copy of the given list")
                bad = True
            if path_atoms(a, f, store.cn):
                o.refute(f, st, st, f"{what}: the list is stored only conditionally")
                bad = True
            if bad:
                a.leftovers(o, f, what)
                continue
            o.site(f, st, src(st))

            # (b) / (c) mirror updates
            rem_ok, add_ok = [], []
            for e in writes:
                w = e.w
                if e is store:
                    continue
                if w.field == FLD and a.is_self(f, w.recv):
                    e.used = True
                    o.undecided(f, w.node, w.node, f"{what}: edits its own list in place next to the store")
                    bad = True
                    continue
                if w.field not in (FLD, MIR) or a.is_self(f, w.recv):
                    continue        # judged by frame
                e.used = True
                if w.field == FLD:
                    o.refute(f, w.node, w.node, f"{what}: edits `{unmangle(FLD)}` of another task; the mirror of {rel} is "
                                                f"`{unmangle(MIR)}`")
                    bad = True
                    continue
                k, fo = elem_class(a, f, w.recv, e.cn)
                if k is None or k[0] == 'other':
                    o.undecided(f, w.node, w.node, f"{what}: mirror update on a task of unknown origin")
                    bad = True
                    continue
                hn = cfg.node_of(fo)
                # whose elements: a loop over the own field sees the old list before the store and the new one after it
                if k[0] in ('arg', 'arg-reordered'):
                    side = 'new'
                elif k[1] != FLD:
                    o.refute(f, fo, fo.iter, f"{what}: mirror update ranges over `{src(fo.iter)}`, not over the old or new {rel}")
                    bad = True
                    continue
                else:
                    ref = hn if k[0] == 'live' else k[2]
                    side = 'new' if (cfg.can_reach(store.cn, ref) and not cfg.can_reach(ref, store.cn)) else 'old'
                    if k[0] == 'live' and cfg.can_reach(hn, store.cn) and cfg.can_reach(store.cn, hn):
                        o.undecided(f, fo, fo, f"{what}: the list is stored inside the loop that walks it")
                        bad = True
                        continue
                inner = path_atoms(a, f, e.cn, since=hn)
                vname = w.recv.id
                if w.kind == 'mutate:remove':
                    if side == 'new':
                        o.refute(f, w.node, w.node, f"{what}: self is removed from the mirror list of the NEW elements; the elements "
                                                    f"dropped from the old list keep self in their {unmangle(MIR)}")
                        bad = True
                        continue
                    if not _write_arg_is_self(f, w):
                        o.refute(f, w.node, w.node, f"{what}: removes `{src(w.node.args[0]) if w.node.args else ''}` from the mirror "
                                                    f"list instead of self")
                        bad = True
                        continue
                    verdict = _mirror_conditions(a, f, inner, vname, MIR, want_present=True, e=e)
                    if verdict[0] == 'refute':
                        o.refute(f, w.node, verdict[1], f"{what}: {verdict[2]}")
                        bad = True
                    elif verdict[0] == 'undecided':
                        o.undecided(f, w.node, verdict[1], f"{what}: {verdict[2]}")
                        bad = True
                    else:
                        rem_ok.append(e)
                elif w.kind == 'mutate:append':
                    if side == 'old':
                        o.refute(f, w.node, w.node, f"{what}: self is appended to the mirror list of the OLD elements")
                        bad = True
                        continue
                    if not _write_arg_is_self(f, w):
                        o.refute(f, w.node, w.node, f"{what}: appends `{src(w.node.args[0]) if w.node.args else ''}` to the mirror "
                                                    f"list instead of self")
                        bad = True
                        continue
                    verdict = _mirror_conditions(a, f, inner, vname, MIR, want_present=False, e=e)
                    if verdict[0] == 'refute':
                        o.refute(f, w.node, verdict[1], f"{what}: {verdict[2]}")
                        bad = True
                    elif verdict[0] == 'undecided':
                        o.undecided(f, w.node, verdict[1], f"{what}: {verdict[2]}")
                        bad = True
                    else:
                        add_ok.append(e)
                elif w.kind == 'mutate:insert':
                    o.refute(f, w.node, w.node, f"{what}: self is inserted into the mirror list at a position; documented (and what "
                                                f"the mirror facade's append does): appended last")
                    bad = True
                elif w.kind == 'store' and isinstance(w.node, ast.Assign) and norm_list(w.node.value)[0] == 'filter' and \
                        norm_list(w.node.value)[2] and any(cmp_kind(c0, norm_list(w.node.value)[2], ast.Name(id=f.self_name, ctx=ast.Load()))
                                                           in ('id-ne', 'id-eq') for c0 in norm_list(w.node.value)[3]):
                    o.refute(f, w.node, w.node, f"{what}: self is taken out of the mirror list by comparing ids (`{src(w.node.value)[:70]}`): "
                                                f"every task carrying an equal id (a clone, a task of another WBS) is unlinked too; decide "
                                                f"on the task object")
                    bad = True
                else:
                    o.undecided(f, w.node, w.node, f"{what}: mirror list edited with `{w.kind}`")
                    bad = True
            if bad:
                a.leftovers(o, f, what)
                continue
            # the mirror side may also be updated through the OTHER task's own list (`v.predecessors.append(self)`): a documented
            # primitive whose effect on the mirror this clause does not follow
            via_facade = [e for e in evs if not e.used and e.kind in ('setter', 'call') and
                          e.name in (MIRROR_PROP[rel], 'append', 'remove') and _recv_base(e) is not None and
                          elem_class(a, f, _recv_base(e), e.cn)[0] is not None]
            reentrant = []
            for e in via_facade:
                k, fo = elem_class(a, f, _recv_base(e), e.cn)
                tg = [t for t in (e.ci.targets if e.ci is not None else []) if t is not None]
                if k is not None and k[0] == 'live' and k[1] == FLD and fo is not None and \
                        any(fld == FLD for t in tg for fld, _ in a.eff.writes_star(t)):
                    reentrant.append((e, fo))
            if reentrant:
                e, fo = reentrant[0]
                o.refute(f, e.node, e.node, f"{what}: `{src(e.node)[:60]}` is called for every element of the LIVE list "
                                            f"`{src(fo.iter)}`; it goes through the other task's {MIRROR_PROP[rel]} setter, which edits "
                                            f"{unmangle(FLD)} of its old/new elements in place - i.e. this very list while it is being "
                                            f"iterated: every second element is skipped and stays linked on the mirror side")
                for e2 in via_facade:
                    e2.used = True
                a.leftovers(o, f, what)
                continue
            if (not rem_ok or not add_ok) and via_facade:
                o.undecided(f, via_facade[0].node, via_facade[0].node,
                            f"{what}: the mirror side is updated through `{src(via_facade[0].node)[:60]}` (the other task's own "
                            f"{MIRROR_PROP[rel]} list), which this rule does not follow")
                for e in via_facade:
                    e.used = True
                a.leftovers(o, f, what)
                continue
            if not rem_ok:
                a.absent(o, f, f.node, 'unlink', f"{what}: self is never removed from the {unmangle(MIR)} of the old elements: dropped "
                                              f"links survive on the mirror side")
            elif a.must_pass(o, f, [guard_anchor(cfg, e.cn, cfg.node_of(enclosing_for_binding(f, e.cn, e.w.recv.id))) for e in rem_ok],
                             [], what + ' (unlink old)'):
                o.site(f, rem_ok[0].node, 'old elements: ' + src(rem_ok[0].node))
            if not add_ok:
                a.absent(o, f, f.node, 'link', f"{what}: self is never appended to the {unmangle(MIR)} of the new elements")
            elif a.must_pass(o, f, [guard_anchor(cfg, e.cn, cfg.node_of(enclosing_for_binding(f, e.cn, e.w.recv.id))) for e in add_ok],
                             [], what + ' (link new)'):
                o.site(f, add_ok[0].node, 'new elements: ' + src(add_ok[0].node))
            a.leftovers(o, f, what)
    ctx.guarded(o, run)


def _fresh_returns(fn) -> bool:
    """every return of fn yields a list created inside fn: a literal / comprehension / list(..), or a local that is only ever
    bound to such a value (`res = []; ... res.append(x); return res`)"""
    rets = returns_of(fn)
    if not rets:
        return False

    def fresh(e):
        return isinstance(e, (ast.List, ast.ListComp)) or bool(match("sorted($*x)", e)) or \
            (isinstance(e, ast.Call) and isinstance(e.func, ast.Name) and e.func.id == 'list' and len(e.args) <= 1 and not e.keywords)
    for r in rets:
        v = r.value
        if v is None:
            return False
        if isinstance(v, ast.Name) and v.id not in fn.params:
            ds = flow_of(fn).defs_of(v.id)
            if ds and all(d.kind == 'assign' and d.value is not None and fresh(d.value) for d in ds):
                continue
            return False
        if not fresh(v):
            return False
    return True


MIRROR_PROP = {'predecessors': 'successors', 'successors': 'predecessors'}


def _recv_base(e):
    """the plain name an event's receiver chain starts from (`v` in `v.predecessors.append(self)` / `v.predecessors = ..`)"""
    n = e.node
    if isinstance(n, ast.Call):
        n = n.func
    while isinstance(n, ast.Attribute):
        n = n.value
    return n if isinstance(n, ast.Name) else None


def _builds_new_list(fn) -> bool:
    """every return of fn yields a list object created by that very expression (literal, comprehension, list(..))"""
    return _fresh_returns(fn)


def _mirror_conditions(a: A, f, inner, v, MIR, want_present, e):
    """conditions between the loop header and a mirror update on loop variable v.
    accepted: `self in v.MIR` (for removals) / `self not in v.MIR` (for appends); a test of v against the assigned tasks
    themselves (`v not in value`);  refuted: anything deciding on ids, or the membership test with the wrong polarity"""
    for at, pol, _ in inner:
        if isinstance(at, ast.Compare) and len(at.ops) == 1 and isinstance(at.ops[0], (ast.In, ast.NotIn)):
            present = isinstance(at.ops[0], ast.In) == pol
            l, r = at.left, at.comparators[0]
            if isinstance(r, ast.Name):
                r = deref(f, r, e.cn)        # `mirror = v.__successors; if self in mirror: mirror.remove(self)`
            if a.is_self(f, l) and isinstance(r, ast.Attribute) and r.attr == MIR and isinstance(r.value, ast.Name) and r.value.id == v:
                if present != want_present:
                    return ('refute', at, f"mirror update guarded by `{src(at)}` with the wrong polarity: it never does anything")
                continue
            if isinstance(l, ast.Name) and l.id == v and is_arg(a, f, r, e.cn) and not mentions_id(at):
                if want_present and present:
                    return ('refute', at, "self is unlinked only from the elements that STAY in the list")
                if not want_present and not present:
                    return ('refute', at, "self is linked only to elements that are not assigned")
                continue
        if mentions_id(at):
            return ('refute', at, f"the mirror update is decided by comparing ids (`{src(at)[:70]}`): a different task object with an "
                                  f"equal id (other tree / other WBS) makes the update be skipped; decide on the task objects")
        return ('undecided', at, f"mirror update depends on `{src(at)[:70]}`, which the rule does not know")
    return ('ok',)


# ====================================================================================================== parent setter
@part
def append_last(a: A, ctx):
    o = ctx.ob('append_last', 'R4',
               "Task.parent = p: self leaves the old parent's list first (old parent read before __parent is overwritten), "
               "__parent becomes p, and self is APPENDED to p's list (never inserted); with p None inside a WBS the task is "
               "appended to the sentinel's children", floor=4)

    def run(o):
        f = a.fn('task.Task.parent.setter')
        cfg = cfg_of(f)
        P = f.params[1]
        CH, PA = '_Task__children', '_Task__parent'
        evs = a.events(f)
        writes = [e for e in evs if e.kind == 'write']
        adds, rems, sets, setnone, bad = [], [], [], [], False

        def is_new_parent(e):
            return isinstance(e, ast.Name) and e.id == P

        def is_old_parent(e):
            return a.is_self_attr(f, e, PA)

        # a shortcut exit `the given parent is already my parent -> return`: the task would keep its position, but a task
        # appended / inserted again must leave its place and be put last
        for r in returns_of(f):
            rn = cfg.node_of(r)
            if rn is None or not cfg.is_reachable(rn) or any(e.cn is not None and (e.cn is rn or cfg.can_reach(e.cn, rn)) for e in evs):
                continue
            atoms = _simplify_atoms([(at, pol) for at, pol, _ in path_atoms(a, f, rn)])
            same_parent, understood = False, bool(atoms)
            for at, pol in atoms:
                k = _same_parent_atom(a, f, at, pol, P)
                if k == 'same':
                    same_parent = True
                elif k is None:
                    understood = False
            if same_parent and understood:
                o.refute(f, r, r, "parent setter returns without doing anything when the given parent already is the task's parent ("
                         + ' and '.join(('' if pol else 'not ') + src(at) for at, pol in atoms)[:160] +
                         "): children.append(t) / insert(i, t) of a task that is already a member no longer takes it out of its old "
                         "position and appends it last")
                return

        for e in writes:
            w = e.w
            if w.field == CH and not a.is_self(f, w.recv):
                e.used = True
                recv = a.xp(f, w.recv, e.cn) if not isinstance(w.recv, ast.Name) or w.recv.id != P else w.recv
                if w.kind == 'mutate:append' and is_new_parent(recv):
                    if _write_arg_is_self(f, w):
                        adds.append(e)
                    else:
                        o.refute(f, w.node, w.node, "parent setter appends something else than self to the new parent's children")
                        bad = True
                elif w.kind == 'mutate:insert' and is_new_parent(recv):
                    o.refute(f, w.node, w.node, "parent setter INSERTS self into the new parent's children at a position; documented: "
                                                "appended last (children.append, `//` and the children setter's order rely on it)")
                    bad = True
                elif w.kind == 'mutate:remove' and is_old_parent(recv):
                    if _write_arg_is_self(f, w):
                        rems.append(e)
                    else:
                        o.refute(f, w.node, w.node, "parent setter removes another task from the old parent's children")
                        bad = True
                elif w.kind == 'mutate:remove' and is_new_parent(recv):
                    o.refute(f, w.node, w.node, "parent setter removes self from the NEW parent's children")
                    bad = True
                elif w.kind.startswith('mutate:') and (is_new_parent(recv) or is_old_parent(recv)):
                    o.undecided(f, w.node, w.node, f"parent setter edits a children list with `{w.kind[7:]}`")
                    bad = True
                else:
                    e.used = False
            elif w.field == PA and a.is_self(f, w.recv) and w.kind == 'store':
                e.used = True
                v = a.xp(f, w.node.value, e.cn)
                if is_new_parent(v):
                    sets.append(e)
                elif const_of(v) is None:
                    setnone.append(e)
                else:
                    o.refute(f, w.node, w.node, f"parent setter stores `{src(v)}` as the parent instead of the given task")
                    bad = True
        if bad:
            return
        if not adds:
            a.absent(o, f, f.node, 'append', "parent setter never appends self to the new parent's children list")
            return
        if not rems:
            a.absent(o, f, f.node, 'remove', "parent setter never removes self from the old parent's children list: the task ends up "
                                          "under two parents")
            return
        if not sets:
            a.absent(o, f, f.node, 'store', "parent setter never stores the new parent")
            return
        # removal: only guarded by `old parent is not None` and `self in old.__children`; before the store and the append
        for e in rems:
            for at, pol, _ in path_atoms(a, f, e.cn):
                if (match(f"self.{PA} is not None", at) and pol) or (match(f"self.{PA} is None", at) and not pol) or \
                        (match(f"self.{PA}", at) and pol):
                    continue
                if isinstance(at, ast.Compare) and len(at.ops) == 1 and isinstance(at.ops[0], ast.In if pol else ast.NotIn) and \
                        a.is_self(f, at.left) and match(f"self.{PA}.{CH}", at.comparators[0]):
                    continue
                if match(f"{P} is None", at) or match(f"{P} is not None", at) or match(f"{P}", at) or \
                        match("self._Task__wbs is None", at) or match("self._Task__wbs is not None", at):
                    continue        # the documented mode split (no parent given / member of a WBS): coverage is checked below
                o.undecided(f, e.node, at, "leaving the old parent depends on a condition the rule does not know (a task re-appended to "
                                           "its own parent must still move to the end)")
                bad = True
            for s in sets + setnone:
                if cfg.can_reach(s.cn, e.cn):
                    o.refute(f, e.node, e.node, "self.__parent is overwritten before self is removed from `self.__parent.__children`: the "
                                                "removal hits the new parent and the old parent keeps the task")
                    bad = True
            for ad in adds:
                if cfg.can_reach(ad.cn, e.cn):
                    o.refute(f, e.node, e.node, "self is removed from the old parent's list after it was appended to the new one: "
                                                "re-appending to the same parent loses the task / does not move it last")
                    bad = True
        if bad:
            return
        # every way of joining a parent (given / sentinel / None) comes after a removal (or its `old parent` guard)
        def own_guard(e):
            best = e.cn
            for i in sorted(cfg.dominators().get(e.cn.id, set())):
                t = cfg.nodes[i]
                if t.kind == 'test' and t is not e.cn and cfg.dominates(t, best):
                    tx = a.xp(f, t.ast, t)
                    if all(f"self.{PA}" in src(x) for x, _ in facts.split_conj(tx, True)):
                        best = t
            return best
        guards = {own_guard(e).id for e in rems}
        seen, todo = {cfg.entry.id}, [cfg.entry]
        while todo:
            n = todo.pop()
            for x in n.succ:
                if x.id not in seen and x.id not in guards:
                    seen.add(x.id)
                    todo.append(x)
        for j in sets + setnone + adds:
            if j.cn.id in seen:
                o.refute(f, j.node, j.node, f"on some path `{src(j.node)[:60]}` is reached without self having left the old parent's "
                                            f"children list: the task ends up under two parents")
                return
        o.site(f, rems[0].node, 'leaves old parent first: ' + src(rems[0].node))
        # append: only under `parent is not None` / `self not in parent.__children`
        for e in adds:
            for at, pol, _ in path_atoms(a, f, e.cn):
                if (match(f"{P} is None", at) and not pol) or (match(f"{P} is not None", at) and pol) or (match(f"{P}", at) and pol):
                    continue
                if isinstance(at, ast.Compare) and len(at.ops) == 1 and isinstance(at.ops[0], ast.NotIn if pol else ast.In) and \
                        a.is_self(f, at.left) and match(f"{P}.{CH}", at.comparators[0]):
                    continue
                o.undecided(f, e.node, at, "joining the new parent depends on a condition the rule does not know")
                bad = True
        for e in sets:
            for at, pol, _ in path_atoms(a, f, e.cn):
                if (match(f"{P} is None", at) and not pol) or (match(f"{P} is not None", at) and pol) or (match(f"{P}", at) and pol):
                    continue
                o.undecided(f, e.node, at, "storing the new parent depends on a condition the rule does not know")
                bad = True
        if bad:
            return
        o.site(f, adds[0].node, 'appended: ' + src(adds[0].node))
        o.site(f, sets[0].node, src(sets[0].node))
        # p None: sentinel append (inside a WBS) or __parent = None (free task)
        roots = [e for e in evs if e.kind == 'call' and e.name == 'append' and isinstance(e.node, ast.Call)
                 and any(t.qual == 'task._ChildrenList.append' for t in e.ci.targets)]
        for e in roots:
            e.used = True
            c = e.node
            recv = a.xp(f, c.func.value, e.cn)
            if not ((match("self._Task__wbs._root().children", recv) or match("self._Task__wbs._WBS__root.children", recv))
                    and len(c.args) == 1 and a.is_self(f, c.args[0])):
                o.refute(f, c, c, "with parent None inside a WBS the task must be appended to the sentinel's children "
                                  "(`self.__wbs._root().children.append(self)`)")
                bad = True
                continue
            atoms = path_atoms(a, f, e.cn)
            if not any(match(f"{P} is None", at) and pol or match(f"{P} is not None", at) and not pol for at, pol, _ in atoms):
                o.refute(f, c, c, "the task is moved under the sentinel although a parent was given")
                bad = True
        # the same hand-over written as the assignment that the sentinel's `children.append(self)` performs:
        # `self.parent = self.__wbs._root()` (the recursive call takes the given-parent path with the sentinel as parent)
        for e in evs:
            if e.kind == 'setter' and e.name == 'parent' and isinstance(e.stmt, ast.Assign) and len(e.stmt.targets) == 1 and \
                    isinstance(e.node, ast.Attribute) and a.is_self(f, e.node.value):
                v = a.xp(f, e.stmt.value, e.cn)
                if not (match("self._Task__wbs._root()", v) or match("self._Task__wbs._WBS__root", v)):
                    continue       # any other re-assignment of the own parent is left to `leftovers`
                e.used = True
                atoms = path_atoms(a, f, e.cn)
                if not any(match(f"{P} is None", at) and pol or match(f"{P} is not None", at) and not pol for at, pol, _ in atoms):
                    o.refute(f, e.stmt, e.stmt, "the task is moved under the sentinel although a parent was given")
                    bad = True
                    continue
                roots.append(e)
        if bad:
            return
        for e in evs:      # WBS membership bookkeeping of the moved task itself (C11 decides what it must be)
            if e.kind == 'call' and e.name in ('_attach', '_detach') and isinstance(e.node, ast.Call) and \
                    isinstance(e.node.func, ast.Attribute) and a.is_self(f, e.node.func.value):
                e.used = True
        anchors = [e.cn for e in sets + setnone + roots]
        # every accepted path stores a parent (given / None) or delegates to the sentinel append
        if not a.must_pass(o, f, anchors, [], 'parent setter'):
            return
        # on the path of a given parent the append (or its `not in` guard) is always met
        add_anchor = [guard_anchor(cfg, e.cn, s.cn) for e in adds for s in sets if cfg.dominates(s.cn, e.cn)]
        if not add_anchor:
            add_anchor = [guard_anchor(cfg, e.cn, None) for e in adds]
            o.undecided(f, adds[0].node, adds[0].node, "the append is not dominated by the store of the new parent")
            return
        for s in sets:
            # from the store, can the exit be reached without meeting the append (or its accepted guard)?
            avoid = {n.id for n in add_anchor}
            seen, todo, esc = {s.cn.id}, [s.cn], False
            while todo and not esc:
                n = todo.pop()
                for x in n.succ:
                    if x.id in seen or x.id in avoid:
                        continue
                    if x is cfg.exit:
                        esc = True
                        break
                    seen.add(x.id)
                    todo.append(x)
            if esc:
                o.refute(f, s.node, 'append skipped', "after storing the new parent some path returns without appending self to the "
                                                      "parent's children")
                return
        o.site(f, (roots[0].node if roots else setnone[0].node if setnone else f.node), 'parent None: sentinel append / __parent = None')
        a.leftovers(o, f, 'parent setter')
    ctx.guarded(o, run)


def _simplify_atoms(atoms):
    """[(atom, polarity)] of one path: conjunctions split; `not (A and B)` with A known true becomes `not B`, `A or B` with A
    known false becomes B (repeated until nothing changes); duplicates dropped"""
    cur = []
    for a0, p0 in atoms:
        cur += [strip_not(x, q) for x, q in facts.split_conj(a0, p0)]
    for _ in range(8):
        known = {_canon(x, q) for x, q in cur if not isinstance(x, ast.BoolOp)}
        new, changed = [], False
        for a0, p0 in cur:
            rest = None
            if isinstance(a0, ast.BoolOp) and isinstance(a0.op, ast.And) and not p0:
                rest = [v for v in a0.values if _canon(v, True) not in known]
            elif isinstance(a0, ast.BoolOp) and isinstance(a0.op, ast.Or) and p0:
                rest = [v for v in a0.values if (lambda c: (c[0], not c[1]))(_canon(v, True)) not in known]
            if rest is not None and len(rest) == 1 and len(rest) < len(a0.values):
                new += [strip_not(x, q) for x, q in facts.split_conj(rest[0], p0)]
                changed = True
            else:
                new.append((a0, p0))
        cur = new
        if not changed:
            break
    out, seen = [], set()
    for a0, p0 in cur:
        k = _canon(a0, p0)
        if k not in seen:
            seen.add(k)
            out.append((a0, p0))
    return out


def _same_parent_atom(a: A, f, at, pol, P):
    """what an atom of a path condition says in the parent setter:
        'same'   the given parent IS the task's current parent (is / == / id() ==, on self.parent or self.__parent)
        'mode'   parent given / not given, task has / has no parent
        None     anything else"""
    def cur(e):
        return a.is_self_attr(f, e, '_Task__parent') or a.is_self_attr(f, e, 'parent')

    def new(e):
        return isinstance(e, ast.Name) and e.id == P
    if isinstance(at, ast.Name) and at.id == P:
        return 'mode'
    if cur(at):
        return 'mode'
    if isinstance(at, ast.Compare) and len(at.ops) == 1:
        l, op, r = at.left, at.ops[0], at.comparators[0]
        if isinstance(op, (ast.Is, ast.IsNot)) and const_of(r) is None and (new(l) or cur(l)):
            return 'mode'
        for pat in ("id($x)",):
            ml, mr = match(pat, l), match(pat, r)
            if ml and mr:
                l, r = ml['x'], mr['x']
        if (cur(l) and new(r)) or (new(l) and cur(r)):
            if isinstance(op, (ast.Is, ast.Eq)):
                return 'same' if pol else 'mode'
            if isinstance(op, (ast.IsNot, ast.NotEq)):
                return 'mode' if pol else 'same'
    return None


def _descendant_methods(a: A) -> Set[str]:
    """(mangled) names of the Task methods whose result the `all_children` getter wraps: `self.M()` lists the descendants"""
    out = set()
    if a.prog.has_func('task.Task.all_children'):
        g = a.fn('task.Task.all_children')
        for r in returns_of(g):
            if r.value is not None and isinstance(r.value, ast.Call) and len(r.value.args) == 1:
                inner = r.value.args[0]
                if isinstance(r.value.func, ast.Name) and r.value.func.id == '_ImmutableTaskList' and isinstance(inner, ast.Call) \
                        and not inner.args and isinstance(inner.func, ast.Attribute) and a.is_self(g, inner.func.value):
                    out.add(inner.func.attr)
    return out


def _subtree_member(a: A, f, recv, cn):
    """is the receiver self or an element of a list made of self / self.children / self.all_children: 'yes' | 'no' | '?'"""
    if a.is_self(f, recv):
        return 'yes'
    if not isinstance(recv, ast.Name):
        return 'no' if isinstance(recv, ast.Attribute) else '?'
    fo = enclosing_for_binding(f, cn, recv.id)
    if fo is None:
        if recv.id not in f.params and f.self_name:
            wk = _worklist_walk(a, f, f.self_name)
            if wk is not None and wk[0] == 'ok' and wk[1] == recv.id:
                return 'yes'        # popped from a worklist seeded with self and refilled with the children of what is popped
            if wk is not None and wk[0] == 'refute' and 'instead of the children' in wk[2]:
                return 'no'         # the walk leaves the subtree (continues with parents / linked tasks)
        return 'no' if recv.id in f.params else '?'
    it, at, _ = resolve(f, fo.iter, cfg_of(f).node_of(fo))

    def part_ok(p):
        if p[0] == 'lit':
            return all(a.is_self(f, x) for x in p[1])
        if p[0] in ('ref', 'filter') and not (p[0] == 'filter' and p[3]):
            s0 = list_source(p)
            s0 = resolve(f, s0, at)[0] if s0 is not None else None
            if isinstance(s0, ast.Call) and not s0.args and not s0.keywords and isinstance(s0.func, ast.Attribute) and \
                    a.is_self(f, s0.func.value) and s0.func.attr in _descendant_methods(a):
                return True     # the method behind the all_children getter: the descendants of self
            return s0 is not None and isinstance(s0, ast.Attribute) and a.is_self(f, s0.value) and \
                s0.attr in ('children', '_Task__children', 'all_children')
        if p[0] == 'concat':
            return all(part_ok(x) for x in p[1])
        return False
    t = norm_list(it)
    if part_ok(t):
        return 'yes'
    OUTSIDE = ('all_parents', 'parent', '_Task__parent', 'predecessors', 'successors', 'all_predecessors', 'all_successors',
               '_Task__predecessors', '_Task__successors', '_Task__get_all_parents', '_Task__get_all_predecessors',
               '_Task__get_all_successors')

    def outside(p):
        if p[0] == 'concat':
            return any(outside(x) for x in p[1])
        if p[0] in ('ref', 'filter'):
            s0 = list_source(p) if not (p[0] == 'filter' and p[3]) else p[1]
            s0 = resolve(f, s0, at)[0] if s0 is not None else None
            if isinstance(s0, ast.Call) and isinstance(s0.func, ast.Attribute) and not s0.args:
                s0 = s0.func
            return isinstance(s0, ast.Attribute) and a.is_self(f, s0.value) and s0.attr in OUTSIDE
        return False
    if outside(t):
        return 'no'         # the ancestors / linked tasks of self are positively not part of its subtree
    return '?'


def _bookkeeping_ok(a: A, o, f, top, seen) -> bool:
    """f (and the Task methods it calls, followed recursively) writes nothing but __wbs, and only on self / on tasks of
    self's subtree"""
    if f.qual in seen:
        return True
    seen.add(f.qual)
    ok = True
    for e in a.events(f):
        recv = e.w.recv if e.kind == 'write' else (
            e.node.func.value if e.kind == 'call' and isinstance(e.node, ast.Call) and isinstance(e.node.func, ast.Attribute)
            else None)
        where = _subtree_member(a, f, recv, e.cn) if recv is not None else 'no'
        if e.kind == 'write':
            if e.w.field != '_Task__wbs':
                o.refute(f, e.node, e.node, f"{top} writes `{src(e.node)[:60]}`; WBS bookkeeping may only set __wbs")
                ok = False
            elif where == 'no':
                o.refute(f, e.node, e.node, f"{top} writes __wbs of `{src(recv)}`, a task outside the subtree of the moved task")
                ok = False
            elif where == '?':
                o.undecided(f, e.node, e.node, f"{top}: cannot tell whether `{src(recv)}` belongs to the moved subtree")
                ok = False
        elif e.kind == 'setter':
            o.refute(f, e.stmt or e.node, e.node, f"{top} assigns a relation (`{src(e.node)}`)")
            ok = False
        elif e.kind == 'call':
            c = e.node
            tg = [t for t in e.ci.targets if t is not None]
            if where == 'no':
                o.refute(f, c, c, f"{top} reaches `{src(recv) if recv is not None else src(c)}`, a task outside the subtree of the moved task")
                ok = False
            elif where == '?' or not tg or any(t.cls != 'Task' for t in tg):
                o.undecided(f, c, c, f"{top}: `{src(c)[:60]}` is not a walk down the moved subtree the rule can follow")
                ok = False
            else:
                for t in tg:
                    ok = _bookkeeping_ok(a, o, t, top, seen) and ok
    return ok


@part
def subtree_follows(a: A, ctx):
    o = ctx.ob('subtree_follows', 'R9',
               "re-parenting never writes the moved task's own __children, __predecessors or __successors (the subtree and "
               "the links travel with the task); _attach / _detach write nothing but __wbs, down the subtree", floor=4)

    def run(o):
        f = a.fn('task.Task.parent.setter')
        ok = True
        for e in a.events(f):
            if e.kind == 'write' and e.w.field in ('_Task__children', '_Task__predecessors', '_Task__successors'):
                if a.is_self(f, e.w.recv):
                    o.refute(f, e.node, e.node, f"parent setter edits {unmangle(e.w.field)} of the moved task itself: its subtree / "
                                                f"links do not follow it unchanged")
                    ok = False
                elif e.w.field != '_Task__children':
                    o.refute(f, e.node, e.node, f"parent setter edits dependency links (`{src(e.node)[:60]}`)")
                    ok = False
            if e.kind == 'setter' and e.name in ('children', 'predecessors', 'successors'):
                o.refute(f, e.stmt or e.node, e.node, f"parent setter assigns `{src(e.node)}`: re-parenting must not rebuild another relation")
                ok = False
        if ok:
            o.site(f, f.node, 'no write to self.__children / links')
        f = a.fn('task.Task.children.setter')
        ok = True
        for e in a.events(f):
            if e.kind == 'write' and e.w.field in ('_Task__children', '_Task__predecessors', '_Task__successors') and \
                    not a.is_self(f, e.w.recv):
                o.refute(f, e.node, e.node, f"children setter edits {unmangle(e.w.field)} of an element (`{src(e.node)[:60]}`): "
                                            f"an attached task must bring its subtree and links unchanged")
                ok = False
            if e.kind == 'setter' and e.name in ('children', 'predecessors', 'successors'):
                o.refute(f, e.stmt or e.node, e.node, f"children setter assigns `{src(e.node)}` of another task")
                ok = False
        if ok:
            o.site(f, f.node, 'elements: only parent is assigned')
        for q in ('task.Task._attach', 'task.Task._detach'):
            if q.endswith('_detach') and not a.prog.has_func(q):
                o.site(None, None, 'no Task._detach in this tree: nothing walks a released subtree (C11 decides whether that is right)')
                continue
            f = a.fn(q)
            if _bookkeeping_ok(a, o, f, f.name, set()):
                o.site(f, f.node, 'writes only __wbs, only inside the subtree of self')
    ctx.guarded(o, run)


# ====================================================================================================== move
def _is_facade_list(a: A, f, e):
    """self._list / self (the facade delegates index / iteration to its list)"""
    return e is not None and (a.is_self_attr(f, e, LIST) or a.is_self(f, e))


def _value_variants(f, e, at):
    """the expressions a value can come from, with the cfg node that evaluates each: a local assigned once per branch
    (`if c: i = X else: i = Y`) yields one variant per assignment"""
    if isinstance(e, ast.Name) and at is not None:
        ds = flow_of(f).reaching(e.id, at)
        if ds and all(isinstance(d.stmt, ast.FunctionDef) and d.node is not None for d in ds):
            return [(d.stmt, d.node) for d in ds]        # `def k(x): ...` (one per branch): a named function value
        if len(ds) > 1 and all(d.kind == 'assign' and d.value is not None and d.node is not None for d in ds):
            out = []
            for d in ds:
                out += _value_variants(f, d.value, d.node)
            return out
    v, n, hops = resolve(f, e, at)
    if hops and isinstance(v, ast.Name):
        return _value_variants(f, v, n)
    return [(v, n)]


def _def_value(d, name):
    """right-hand side a definition gives to `name`: plain assignment, or its slot of `a, b = x, y`"""
    if d.kind == 'assign':
        return d.value
    st = d.stmt
    if d.kind == 'unpack' and isinstance(st, ast.Assign) and len(st.targets) == 1 and isinstance(st.targets[0], (ast.Tuple, ast.List)) \
            and isinstance(st.value, (ast.Tuple, ast.List)) and len(st.value.elts) == len(st.targets[0].elts) \
            and not any(isinstance(x, ast.Starred) for x in st.targets[0].elts + st.value.elts):
        for tg, v in zip(st.targets[0].elts, st.value.elts):
            if isinstance(tg, ast.Name) and tg.id == name:
                return v
    return None


class _Subst(ast.NodeTransformer):
    def __init__(self, sub):
        self.sub = sub

    def visit_Name(self, n):
        if isinstance(n.ctx, ast.Load) and n.id in self.sub:
            import copy
            return copy.deepcopy(self.sub[n.id])
        return n


def _pick_ifexp(e, choice):
    """replace every conditional expression whose test text is in `choice` by the chosen arm"""
    class P(ast.NodeTransformer):
        def visit_IfExp(self, n):
            n = self.generic_visit(n)
            k = src(n.test)
            if k in choice:
                return n.body if choice[k] else n.orelse
            return n
    import copy
    return P().visit(copy.deepcopy(e))


def _index_variants(a: A, f, e, at):
    """the values an insert position can take, one per way the code selects it:
        [(expression, [cfg nodes whose path conditions select the variant], cfg node that evaluates it, [(test, polarity)])]
    - a local with one assignment per branch (`if c: i = X else: i = Y`, also `a, k = X, 0` / `a, k = Y, 1` pairs and locals
      hoisted out of the loop) yields one variant per branch, the locals of one branch being substituted together;
    - conditional expressions (`L.index(b if c else a) + (0 if c else 1)`) yield one variant per truth value of each test.
    None when the definitions cannot be paired up."""
    fl = flow_of(f)
    cfg = cfg_of(f)
    if at is None:
        return None
    if isinstance(e, ast.Name):
        ds = fl.reaching(e.id, at)
        if len(ds) > 1 and all(_def_value(d, e.id) is not None and d.node is not None for d in ds):
            out = []
            for d in ds:
                sub = _index_variants(a, f, _def_value(d, e.id), d.node)
                if sub is None:
                    return None
                out += [(x, sel + [d.node], ev, extra) for x, sel, ev, extra in sub]
            return out
        v, n, hops = resolve(f, e, at)
        if hops:
            return _index_variants(a, f, v, n)
        return [(e, [], at, [])]
    # locals of the expression that have one definition per branch: substitute branch-wise
    multi = {}
    for n in ast.walk(e):
        if isinstance(n, ast.Name) and isinstance(n.ctx, ast.Load) and n.id not in multi:
            ds = fl.reaching(n.id, at)
            if len(ds) > 1:
                if not all(_def_value(d, n.id) is not None and d.node is not None for d in ds):
                    continue        # parameters that are overwritten etc.: left to the caller
                multi[n.id] = ds
    variants = [(e, [], [])]
    if multi:
        def sig(d):
            return tuple((id(t), p) for t, p in cfg.conditions(d.node))
        sigs = None
        for nm, ds in multi.items():
            s0 = {sig(d) for d in ds}
            if len(s0) != len(ds) or (sigs is not None and s0 != sigs):
                return None
            sigs = s0
        variants = []
        for sg in sorted(sigs, key=lambda z: [p for _, p in z]):
            sub, sel = {}, []
            for nm, ds in multi.items():
                d = next(d for d in ds if sig(d) == sg)
                sub[nm] = _def_value(d, nm)
                sel.append(d.node)
            import copy
            variants.append((_Subst(sub).visit(copy.deepcopy(e)), sel, []))
    out = []
    eval_at = {}
    for i, (x, sel, extra) in enumerate(variants):
        # locals that hold a conditional expression (`k = 0 if c else 1`) are written out so that the cases can be split
        sub = {}
        for n in ast.walk(x):
            if isinstance(n, ast.Name) and isinstance(n.ctx, ast.Load) and n.id not in sub:
                v, vn, hops = resolve(f, n, at)
                if hops and isinstance(v, ast.IfExp):
                    sub[n.id] = v
                elif hops and vn is not None and any(isinstance(c0, ast.Call) and isinstance(c0.func, ast.Attribute) and
                                                     c0.func.attr == 'index' for c0 in ast.walk(v)):
                    # `i = L.index(anchor)` ... `L.insert(i + 1, t)`: the lookup happens where the local is assigned
                    sub[n.id] = v
                    eval_at[i] = vn
        if sub:
            import copy
            x = _Subst(sub).visit(copy.deepcopy(x))
            variants[i] = (x, sel, extra)
    for i, (x, sel, extra) in enumerate(variants):
        tests = {}
        for n in ast.walk(x):
            if isinstance(n, ast.IfExp):
                tests.setdefault(src(n.test), n.test)
        if len(tests) > 2:
            return None
        combos = [{}]
        for k in tests:
            combos = [dict(c, **{k: v}) for c in combos for v in (True, False)]
        for ch in combos:
            out.append((_pick_ifexp(x, ch) if ch else x, sel, eval_at.get(i, at), extra + [(tests[k], v) for k, v in ch.items()]))
    return out


def _parse_index(e):
    """L.index(X) + k  ->  (L, X, k)"""
    k = 0
    while isinstance(e, ast.BinOp) and isinstance(e.op, (ast.Add, ast.Sub)):
        lc, rc = facts.const_num(e.left), facts.const_num(e.right)
        if rc is not None:
            k += rc if isinstance(e.op, ast.Add) else -rc
            e = e.left
        elif lc is not None and isinstance(e.op, ast.Add):
            k += lc
            e = e.right
        else:
            return None
    if isinstance(e, ast.Call) and isinstance(e.func, ast.Attribute) and e.func.attr == 'index' and len(e.args) == 1 and not e.keywords:
        return e.func.value, e.args[0], k
    return None


def _none_state(atoms, name):
    """what the path conditions say about `name`: 'set' (not None), 'none', or None"""
    st = None
    for at, pol, _ in atoms:
        if match(f"{name} is not None", at) or match(f"{name}", at):
            st = 'set' if pol else 'none'
        elif match(f"{name} is None", at):
            st = 'none' if pol else 'set'
    return st


def _full_slice_store(a: A, f, w) -> bool:
    """`self._list[:] = <expr>`: the contents of the shared list object are replaced in place"""
    n = w.node
    if w.kind != 'subscript-store' or not isinstance(n, ast.Assign) or len(n.targets) != 1:
        return False
    t = n.targets[0]
    return isinstance(t, ast.Subscript) and isinstance(t.slice, ast.Slice) and t.slice.lower is None and \
        t.slice.upper is None and t.slice.step is None


def _fold_clear_extend(a: A, f, ws):
    """`L.clear(); L.extend(X)` (both unconditional relative to each other, nothing else done to L in between) replaces the
    contents of the shared list in place exactly like `L[:] = X`: the pair is folded into one synthetic slice-store event"""
    cfg = cfg_of(f)
    clears = [e for e in ws if e.w.kind == 'mutate:clear']
    exts = [e for e in ws if e.w.kind == 'mutate:extend' and isinstance(e.w.node, ast.Call) and len(e.w.node.args) == 1]
    out = list(ws)
    for c in clears:
        for x in exts:
            if x not in out or c not in out:
                continue
            if not (cfg.dominates(c.cn, x.cn) and cfg.conditions(c.cn) == cfg.conditions(x.cn) and cfg.enclosing_fors(c.cn) ==
                    cfg.enclosing_fors(x.cn)):
                continue
            mid = cfg.between(c.cn, x.cn)
            if any(o2.cn is not None and o2.cn.id in mid for o2 in ws if o2 is not c and o2 is not x):
                continue
            from sa.effects import Write
            call = x.w.node
            tgt = ast.Subscript(value=call.func.value, slice=ast.Slice(lower=None, upper=None, step=None), ctx=ast.Store())
            node = ast.copy_location(ast.Assign(targets=[tgt], value=call.args[0]), call)
            ast.fix_missing_locations(node)
            w = Write(x.w.field, x.w.root, node, f, 'subscript-store', x.w.recv, x.w.recv_type)
            ev = Ev('write', node, x.cn, x.name, w=w)
            c.used = x.used = True
            out[out.index(x)] = ev
            out.remove(c)
    return out


def _publish_ok(a: A, o, f, e, what):
    """the publish callback receives the facade's current list"""
    c = e.node
    e.used = True
    if len(c.args) == 1:
        v, _, _ = resolve(f, c.args[0], e.cn)
        if a.is_self_attr(f, v, LIST):
            return True
        # a local that was also stored into self._list just before
        fl = flow_of(f)
        d = fl.unique_def('self._list', e.cn)
        if d is not None and d.value is not None and same(a.xp(f, d.value, d.node), a.xp(f, c.args[0], e.cn)):
            return True
    o.refute(f, c, c, f"{what}: hands `{src(c.args[0]) if c.args else ''}` to the owner instead of the facade's current list")
    return False


def _reaches_exit_avoiding(cfg, start, avoid_ids):
    seen, todo = {start.id}, [start]
    while todo:
        n = todo.pop()
        for x in n.succ:
            if x.id in seen or x.id in avoid_ids or _dead_branch(x):
                continue
            if x is cfg.exit:
                return True
            seen.add(x.id)
            todo.append(x)
    return False


def _unmaterialised_param(f, it, at):
    """the loop source is a parameter as the caller passed it - at most wrapped as `[p]` / `(p,)` on some path for the single-task
    case - never copied into a list: the parameter's name, else None"""
    if not isinstance(it, ast.Name) or it.id not in f.params or at is None:
        return None
    ds = flow_of(f).reaching(it.id, at)
    if not any(d.kind == 'param' for d in ds):
        return None
    for d in ds:
        if d.kind == 'param':
            continue
        v = d.value if d.kind == 'assign' else None
        if not (isinstance(v, (ast.List, ast.Tuple)) and len(v.elts) == 1 and isinstance(v.elts[0], ast.Name) and v.elts[0].id == it.id):
            return None
    return it.id


def _iterations_of(f, name):
    """places where the local / parameter `name` is iterated: for statements and comprehension generators over the bare name"""
    out = []
    for n in walk_no_nested(f.node):
        if isinstance(n, (ast.For, ast.comprehension)) and isinstance(n.iter, ast.Name) and n.iter.id == name:
            out.append(n)
    return out


def _working_copy(a: A, f, st):
    """`W = self._list.copy()` ... `W.remove(t)` / `W.insert(i, t)` / `W.index(x)` ... `self._list[:] = W` (store outside every
    loop, W used for nothing else): the edits of the working copy are the edits of the shared list, published in one step.
    -> (W, [synthetic write events of the remove / insert calls]) or None"""
    v = st.node.value
    if not isinstance(v, ast.Name) or v.id in f.params:
        return None
    W = v.id
    fl, cfg = flow_of(f), cfg_of(f)
    ds = fl.defs_of(W)
    if len(ds) != 1 or ds[0].kind != 'assign' or ds[0].value is None or ds[0].node is None:
        return None
    d = ds[0]
    t = norm_list(d.value)
    if not (is_plain_copy(t) and a.is_self_attr(f, list_source(t), LIST)):
        return None
    if st.cn is None or not cfg.dominates(d.node, st.cn) or cfg.enclosing_fors(d.node) or cfg.enclosing_fors(st.cn):
        return None
    par = {}
    for n in ast.walk(f.node):
        for c in ast.iter_child_nodes(n):
            par[id(c)] = n
    from sa.effects import Write
    out = []
    for n in ast.walk(f.node):
        if not (isinstance(n, ast.Name) and n.id == W):
            continue
        if not isinstance(n.ctx, ast.Load):
            if isinstance(n.ctx, ast.Store) and par.get(id(n)) is d.stmt:
                continue
            return None
        if n is v:
            continue
        p = par.get(id(n))
        c = par.get(id(p)) if p is not None else None
        if not (isinstance(p, ast.Attribute) and p.value is n and isinstance(c, ast.Call) and c.func is p and
                p.attr in ('remove', 'insert', 'index')):
            return None
        cn = cfg.node_containing(c)
        if cn is None or not cfg.dominates(d.node, cn):
            return None
        if p.attr == 'index':
            continue
        if cfg.can_reach(st.cn, cn) or not cfg.can_reach(cn, st.cn):
            return None
        out.append(Ev('write', c, cn, LIST, w=Write(LIST, 'self', c, f, 'mutate:' + p.attr, p.value, 'list')))
    return W, out


def _given_sequence(f, e, at, depth=0):
    """e denotes the elements of parameter 1 with every occurrence kept (possibly reordered): the parameter, `_to_list(p)`,
    list(p) / tuple(p) / p[:] / p[::-1] / reversed(p) / p.copy(), through locals with one or several plain assignments"""
    if depth > 8 or e is None:
        return False
    if isinstance(e, ast.Name):
        if at is None:
            return False
        ds = flow_of(f).reaching(e.id, at)
        if not ds:
            return False
        for d in ds:
            if d.kind == 'param':
                if e.id != f.params[1]:
                    return False
            elif d.kind != 'assign' or d.value is None or d.node is None or d.node is at or \
                    not _given_sequence(f, d.value, d.node, depth + 1):
                return False
        return True
    if isinstance(e, ast.Call) and isinstance(e.func, ast.Name) and e.func.id in ('_to_list', 'list', 'tuple', 'reversed') and \
            len(e.args) == 1 and not e.keywords:
        return _given_sequence(f, e.args[0], at, depth + 1)
    if isinstance(e, ast.Call) and isinstance(e.func, ast.Attribute) and e.func.attr == 'copy' and not e.args:
        return _given_sequence(f, e.func.value, at, depth + 1)
    if isinstance(e, ast.Subscript) and isinstance(e.slice, ast.Slice) and e.slice.lower is None and e.slice.upper is None:
        return _given_sequence(f, e.value, at, depth + 1)
    return False


def _splice_repeats(a: A, o, f, st, what) -> bool:
    """`rest = [t for t in self._list if t not in tasks]` ... `self._list[:] = rest[:pos] + tasks + rest[pos:]` with `tasks` the
    argument sequence as given: every OCCURRENCE of a task in the argument is spliced in, so a task named twice is listed
    twice (the documented remove-then-insert round per task lists it once). Reports and returns True for exactly that shape."""
    v, vn, _ = resolve(f, st.node.value, st.cn)
    t = norm_list(v)
    if t[0] != 'concat' or len(t[1]) != 3 or any(p[0] != 'ref' for p in t[1]):
        return False
    head, mid, tail = (p[1] for p in t[1])

    def cut(e, lower):
        if isinstance(e, ast.Subscript) and isinstance(e.slice, ast.Slice) and e.slice.step is None and isinstance(e.value, ast.Name):
            lo, up = e.slice.lower, e.slice.upper
            if lower and lo is not None and up is None:
                return e.value, lo
            if not lower and lo is None and up is not None:
                return e.value, up
        return None
    h, tl = cut(head, False), cut(tail, True)
    if h is None or tl is None or not same(h[0], tl[0]) or not same(h[1], tl[1]):
        return False
    r, rn, hops = resolve(f, h[0], vn)
    rt = norm_list(r)
    if not hops or rt[0] != 'filter' or not rt[2] or len(rt[3]) != 1 or not a.is_self_attr(f, list_source(rt), LIST):
        return False
    c = rt[3][0]
    if not (isinstance(c, ast.Compare) and len(c.ops) == 1 and isinstance(c.ops[0], ast.NotIn) and isinstance(c.left, ast.Name)
            and c.left.id == rt[2]):
        return False
    if not (_given_sequence(f, c.comparators[0], rn) and _given_sequence(f, mid, vn)):
        return False
    for n in ast.walk(f.node):      # anything that may reject or drop repeated tasks beforehand: not judged here
        if isinstance(n, ast.Call) and ((isinstance(n.func, ast.Name) and n.func.id in ('set', 'frozenset', 'Counter', 'len')) or
                                        (isinstance(n.func, ast.Attribute) and n.func.attr in ('fromkeys', 'count'))):
            return False
    o.refute(f, st.node, st.node, f"{what}: the argument sequence `{src(mid)}` is spliced into the list as it was given "
                                  f"(`{src(st.node.value)[:70]}`): a task that is named twice in the call is listed twice afterwards; "
                                  f"documented: each task is removed and re-inserted next to the anchor, so it is listed once")
    return True


@part
def move_index(a: A, ctx):
    o = ctx.ob('move_index', 'R8',
               "_ChildrenList.move: for every task in argument order: remove it, then insert it at index(before) resp. "
               "index(after) + 1, the index being taken after the removal", floor=2)

    def run(o):
        f = a.fn('task._ChildrenList.move')
        what = 'move'
        cfg = cfg_of(f)
        B, AF = f.params[2], f.params[3]
        evs = a.events(f)
        if not all([_publish_ok(a, o, f, e, what) for e in evs if e.kind == 'publish']):
            return
        ws = [e for e in evs if e.kind == 'write' and e.w.field == LIST and a.is_self(f, e.w.recv)]
        work, work_store = None, None
        if len(ws) == 1 and _full_slice_store(a, f, ws[0].w):
            wc = _working_copy(a, f, ws[0])
            if wc is not None:
                # the new order is prepared in a working copy of the list and written back in place in one step
                work, work_store = wc[0], ws[0]
                work_store.used = True
                ws = wc[1]
            elif _splice_repeats(a, o, f, ws[0], what):
                return
        rems = [e for e in ws if e.w.kind == 'mutate:remove']
        inss = [e for e in ws if e.w.kind == 'mutate:insert']
        for e in ws:
            e.used = True
            if e not in rems and e not in inss:
                o.undecided(f, e.node, e.node, f"{what}: edits the list with `{e.w.kind}`")
                return
        if not inss:
            a.absent(o, f, f.node, 'insert', f"{what}: never inserts the moved task")
            return
        seen_anchor = {}
        for e in inss:
            c = e.node
            if len(c.args) != 2:
                o.undecided(f, c, c, f"{what}: insert with unexpected arguments")
                return
            k, fo = elem_class(a, f, c.args[1], e.cn)
            if k is None and isinstance(c.args[1], ast.Name) and c.args[1].id in (B, AF):
                o.refute(f, c, c, f"{what}: inserts the anchor `{src(c.args[1])}` instead of one of the tasks to move")
                return
            if k is not None and k[0] == 'other' and fo is not None:
                raw = _unmaterialised_param(f, fo.iter, cfg.node_of(fo))
                loops = _iterations_of(f, raw) if raw else []
                if raw and len(loops) >= 2:
                    o.refute(f, fo, fo.iter, f"{what}: the argument `{raw}` is iterated {len(loops)} times (validation and move loop) without being "
                                             f"turned into a list first (`_to_list` / `list(..)`): for a one-shot iterable (generator, map, "
                                             f"iterator) the first pass consumes it and the move loop sees nothing - the call returns "
                                             f"without moving anything")
                    return
            if k is None or k[0] == 'other':
                o.undecided(f, c, c, f"{what}: cannot tell that `{src(c.args[1])}` ranges over the tasks to move")
                return
            if k[0] == 'arg-reordered':
                o.refute(f, fo, fo.iter, f"{what}: tasks are moved in the order of `{k[1]}(...)`, not in argument order")
                return
            if k[0] != 'arg':
                o.refute(f, fo, fo.iter, f"{what}: the loop moves the tasks of the list itself, not the given ones")
                return
            hn = cfg.node_of(fo)
            variants = _index_variants(a, f, c.args[0], e.cn)
            if variants is None:
                o.undecided(f, c, c.args[0], f"{what}: insert position is selected in a way the rule cannot split into cases")
                return
            for idx, sel_nodes, idn, extra in variants:
                p = _parse_index(idx)
                if p is None:
                    if facts.const_num(idx) is not None or (isinstance(idx, ast.Call) and getattr(idx.func, 'id', '') == 'len'):
                        o.refute(f, c, c.args[0], f"{what}: inserts at the fixed position `{src(idx)}` instead of next to the anchor")
                    else:
                        o.undecided(f, c, c.args[0], f"{what}: insert position is not `list.index(anchor) + k`")
                    return
                L, anchor, off = p
                if work is not None:
                    in_edited = isinstance(L, ast.Name) and L.id == work
                else:
                    in_edited = _is_facade_list(a, f, a.xp(f, L, idn))
                if not in_edited:
                    o.refute(f, c, c.args[0], f"{what}: anchor index is looked up in `{src(L)}`, not in the list being edited")
                    return
                anchor, _, _ = resolve(f, anchor, idn)
                if not (isinstance(anchor, ast.Name) and anchor.id in (B, AF)):
                    if isinstance(anchor, ast.Name) and anchor.id == c.args[1].id:
                        o.refute(f, c, c.args[0], f"{what}: position is the index of the moved task itself")
                    else:
                        o.undecided(f, c, c.args[0], f"{what}: anchor `{src(anchor)}` is neither `{B}` nor `{AF}`")
                    return
                want = 0 if anchor.id == B else 1
                if off != want:
                    o.refute(f, c, c.args[0], f"{what}: inserts at index({anchor.id}) {'+' if off >= 0 else '-'} {abs(off)}; documented: "
                                              + ("immediately BEFORE the anchor = index(before)" if want == 0 else
                                                 "immediately AFTER the anchor = index(after) + 1"))
                    return
                atoms = path_atoms(a, f, idn if idn is not None else e.cn)
                for sn in sel_nodes:
                    atoms = atoms + path_atoms(a, f, sn)
                for t0, p0 in extra:
                    atoms = atoms + [(strip_not(x, q) + (t0,)) for x, q in facts.split_conj(t0, p0)]
                other = AF if anchor.id == B else B
                s_me, s_other = _none_state(atoms, anchor.id), _none_state(atoms, other)
                if s_me == 'none' or (s_me is None and s_other == 'set'):
                    o.refute(f, c, c, f"{what}: uses `{anchor.id}` as the anchor on the path where `{anchor.id}` is None / `{other}` is given")
                    return
                if s_me is None and s_other is None:
                    o.undecided(f, c, c, f"{what}: cannot tell from the conditions which anchor is in force here")
                    return
                # removal first, in the same iteration, before the index is taken
                mine = [r for r in rems if isinstance(r.node.args[0] if r.node.args else None, ast.Name)
                        and r.node.args[0].id == c.args[1].id and enclosing_for_binding(f, r.cn, c.args[1].id) is fo]
                if not mine:
                    o.refute(f, c, c, f"{what}: the task is inserted without being removed from its old position first: it is listed twice")
                    return
                if not any(cfg.dominates(r.cn, idn) and cfg.dominates(hn, r.cn) for r in mine):
                    o.refute(f, c, c.args[0], f"{what}: the anchor index is taken BEFORE the task is removed from the list (or the removal "
                                              f"is conditional): when the task stands before the anchor the position is off by one")
                    return
                if any(path_atoms(a, f, r.cn, since=hn) for r in mine if cfg.dominates(r.cn, idn)):
                    o.undecided(f, c, c, f"{what}: the removal is conditional")
                    return
                seen_anchor.setdefault(anchor.id, []).append(e)
        for nm in (B, AF):
            if nm not in seen_anchor:
                a.absent(o, f, f.node, f'insert for {nm}', f"{what}: no insertion for `{nm}=`: move(..., {nm}=x) removes the task / does nothing")
                return
        # every iteration inserts
        anchors = [guard_anchor(cfg, e.cn, cfg.node_of(enclosing_for_binding(f, e.cn, e.node.args[1].id))) for e in inss]
        if not a.must_pass(o, f, anchors, [], what):
            return
        if work_store is not None and escaping_path(cfg, {work_store.cn.id}):
            o.refute(f, work_store.node, work_store.node, f"{what}: the new order is prepared in `{work}` but on some accepted path it is "
                                                          f"never written back into the shared list")
            return
        for e in seen_anchor[B][:1] + seen_anchor[AF][:1]:
            o.site(f, e.node, src(e.node))
        a.leftovers(o, f, what)
    ctx.guarded(o, run)


# ====================================================================================================== sort
def _attr_getter(e, xname):
    """x.__getattribute__(K) / getattr(x, K[, default])  ->  K"""
    if isinstance(e, ast.Call):
        if isinstance(e.func, ast.Attribute) and e.func.attr in ('__getattribute__', '__getattr__') and len(e.args) == 1 and \
                isinstance(e.func.value, ast.Name) and e.func.value.id == xname:
            return e.args[0]
        if isinstance(e.func, ast.Name) and e.func.id == 'getattr' and len(e.args) in (2, 3) and \
                isinstance(e.args[0], ast.Name) and e.args[0].id == xname:
            return e.args[1]
    return None


def _as_lambda(fn):
    """`def k(x): [docstring] return E`  ->  `lambda x: E`  (anything else is returned unchanged)"""
    if isinstance(fn, ast.FunctionDef) and not fn.decorator_list:
        body = [st for st in fn.body if not (isinstance(st, ast.Expr) and isinstance(st.value, ast.Constant))]
        if len(body) == 1 and isinstance(body[0], ast.Return) and body[0].value is not None and \
                not fn.args.vararg and not fn.args.kwarg and not fn.args.kwonlyargs:
            return ast.Lambda(args=fn.args, body=body[0].value)
    return fn


def _key_kind(keyfn, key_param):
    """'single' | 'multi' | 'other'"""
    keyfn = _as_lambda(keyfn)
    if not (isinstance(keyfn, ast.Lambda) and len(keyfn.args.args) == 1):
        return 'other'
    x = keyfn.args.args[0].arg
    g = _attr_getter(keyfn.body, x)
    if g is not None:
        return 'single' if isinstance(g, ast.Name) and g.id == key_param else 'other'
    for n in ast.walk(keyfn.body):
        if isinstance(n, (ast.ListComp, ast.GeneratorExp)) and len(n.generators) == 1:
            gen = n.generators[0]
            if isinstance(gen.iter, ast.Name) and gen.iter.id == key_param and isinstance(gen.target, ast.Name) and not gen.ifs:
                for m in ast.walk(n.elt):
                    k = _attr_getter(m, x)
                    if k is not None and isinstance(k, ast.Name) and k.id == gen.target.id:
                        return 'multi'
    return 'other'


def _helper_key_kinds(a: A, f, call, key_param):
    """`key=make_key(key)`: the helper (a function of this package) returns key functions; each returned lambda is classified
    against the helper's own parameter that receives `key`.   ('ok', 'single+multi') | ('refute', msg) | None (not followed)"""
    tg = None
    for ci in a.cg.calls_in(f):
        if isinstance(ci.node, ast.Call) and (ci.node is call or same(ci.node.func, call.func)) and len(ci.targets) == 1 and \
                ci.targets[0] is not None and ci.kind == 'call':
            tg = ci.targets[0]
    if tg is None or not isinstance(tg.node, (ast.FunctionDef,)):
        return None
    args = facts.bound_args(call, tg)
    hp = None
    for prm, arg in zip(tg.params[1:] if tg.kind in ('method', 'getter', 'setter') else tg.params, args):
        if isinstance(arg, ast.Name) and arg.id == key_param:
            hp = prm
    if hp is None:
        return None
    if any(d.kind != 'param' for d in flow_of(tg).defs_of(hp)):
        return None
    rets = returns_of(tg)
    if not rets:
        return None
    kinds = []
    for r in rets:
        if r.value is None:
            return None
        for v, _vn in _value_variants(tg, r.value, cfg_of(tg).node_of(r)):
            v = _as_lambda(v)
            k = _key_kind(v, hp)
            if k == 'other':
                g = _attr_getter(v.body, v.args.args[0].arg) if isinstance(v, ast.Lambda) and len(v.args.args) == 1 else None
                if g is not None:
                    return ('refute', f"the key function built by {tg.name} reads `{src(g)}` instead of the attribute named by `{hp}`")
                return None
            if k not in kinds:
                kinds.append(k)
    # falling off the end would hand None to sorted(): then the natural order of tasks decides
    cfg = cfg_of(tg)
    if any(p.ast is not None and not isinstance(p.ast, ast.Return) or p.kind == 'branch' for p in cfg.exit.pred):
        return None
    return ('ok', '+'.join(kinds))


@part
def sort_stable(a: A, ctx):
    o = ctx.ob('sort', 'R4',
               "_ChildrenList.sort: ONE stable sort of the list by the attribute getter of `key` with reverse=reverse (never an "
               "ascending sort followed by a reversal), and the new list is handed to the owner through the publish callback", floor=2)

    def run(o):
        f = a.fn('task._ChildrenList.sort')
        what = 'sort'
        cfg = cfg_of(f)
        KEY, REV = f.params[1], f.params[2]
        evs = a.events(f)
        pubs = [e for e in evs if e.kind == 'publish']
        pub_ok = all([_publish_ok(a, o, f, e, what) for e in pubs])
        ws = _fold_clear_extend(a, f, [e for e in evs if e.kind == 'write' and e.w.field == LIST and a.is_self(f, e.w.recv)])
        sorts = []
        bad = not pub_ok
        jobs = []
        for e in ws:
            e.used = True
            w = e.w
            if (w.kind == 'store' and isinstance(w.node, ast.Assign)) or _full_slice_store(a, f, w):
                # a local holding the sorted list, assigned once per branch of the key-type test: one sort per branch
                jobs += [(e, vr, vn if vn is not None else e.cn) for vr, vn in _value_variants(f, w.node.value, e.cn)]
            else:
                jobs.append((e, None, e.cn))
        for e, vraw, vn in jobs:
            w = e.w
            if w.kind == 'mutate:reverse':
                o.refute(f, w.node, w.node, f"{what}: the list is reversed as a separate step: equal keys end up in reversed order, a "
                                            f"descending sort must be `reverse=reverse` of the single stable sort")
                bad = True
                continue
            if (w.kind == 'store' and isinstance(w.node, ast.Assign)) or _full_slice_store(a, f, w):
                v = a.xp(f, vraw, vn)
                call = v
                if any(isinstance(n, ast.Call) and getattr(n.func, 'id', '') == 'reversed' for n in ast.walk(v)):
                    o.refute(f, w.node, w.node.value, f"{what}: `reversed(...)` of a sorted list is not a stable descending sort")
                    bad = True
                    continue
                if any(isinstance(n, ast.Subscript) and isinstance(n.slice, ast.Slice) and n.slice.step is not None for n in ast.walk(v)):
                    o.refute(f, w.node, w.node.value, f"{what}: slicing the sorted list backwards is not a stable descending sort")
                    bad = True
                    continue
                if not (isinstance(v, ast.Call) and isinstance(v.func, ast.Name) and v.func.id == 'sorted' and len(v.args) == 1):
                    o.undecided(f, w.node, w.node.value, f"{what}: the new list is not `sorted(list, key=..., reverse=...)`")
                    bad = True
                    continue
                srcl = v.args[0]
                t = norm_list(srcl)
                s0 = list_source(t) if t[0] in ('ref', 'filter') and not (t[0] == 'filter' and t[3]) else None
                if not _is_facade_list(a, f, s0):
                    o.refute(f, w.node, srcl, f"{what}: sorts `{src(srcl)[:60]}` instead of exactly the tasks of the list")
                    bad = True
                    continue
                inplace = _full_slice_store(a, f, w)
            elif w.kind == 'mutate:sort':
                call = w.node
                if call.args:
                    # list.sort takes keywords only; positional arguments are what the normaliser makes of `key=` / `reverse=`
                    # (it binds them by the parameter order of the package's own `sort(key, reverse)`)
                    names = [p0 for p0 in f.params[1:]]
                    if len(call.args) > len(names) or any(isinstance(x, ast.Starred) for x in call.args) or \
                            any(k.arg in names[:len(call.args)] for k in call.keywords):
                        o.undecided(f, call, call, f"{what}: positional arguments to list.sort")
                        bad = True
                        continue
                    call = ast.Call(func=call.func, args=[], keywords=[ast.keyword(arg=n0, value=v0) for n0, v0 in zip(
                        ['key', 'reverse'], call.args)] + list(call.keywords))
                inplace = True
            else:
                o.undecided(f, w.node, w.node, f"{what}: edits the list with `{w.kind}`")
                bad = True
                continue
            kws = {k.arg: k.value for k in call.keywords}
            rv = kws.get('reverse')
            if rv is None:
                o.refute(f, w.node, call, f"{what}: the `reverse` flag is ignored by this sort (no reverse={REV})")
                bad = True
                continue
            rv_r, _, _ = resolve(f, rv, vn)
            if not (isinstance(rv_r, ast.Name) and rv_r.id == REV) and not match(f"bool({REV})", rv_r):
                o.refute(f, w.node, rv, f"{what}: sorts with reverse=`{src(rv_r)}` instead of the caller's flag")
                bad = True
                continue
            kf = kws.get('key')
            if kf is None:
                o.refute(f, w.node, call, f"{what}: sorts without a key: the attribute named by `{KEY}` is ignored")
                bad = True
                continue
            # the key function: a lambda, a local holding one (one assignment per branch of a type test counts per branch),
            # or the result of a helper that builds it from `key`
            kinds, kbad = [], False
            for kf_r, kf_n in _value_variants(f, kf, vn):
                kf_r = _as_lambda(kf_r)
                kk = _key_kind(kf_r, KEY)
                if kk == 'other' and isinstance(kf_r, ast.Call):
                    hk = _helper_key_kinds(a, f, kf_r, KEY)
                    if hk is not None and hk[0] == 'refute':
                        o.refute(f, w.node, kf, f"{what}: {hk[1]}")
                        kbad = True
                        break
                    if hk is not None and hk[0] == 'ok':
                        kk = hk[1]
                if kk == 'other':
                    g = _attr_getter(kf_r.body, kf_r.args.args[0].arg) if isinstance(kf_r, ast.Lambda) and len(kf_r.args.args) == 1 else None
                    per_key = g is not None and isinstance(g, ast.Name) and any(
                        isinstance(fo0.target, ast.Name) and fo0.target.id == g.id and KEY in names_in(fo0.iter)
                        for fo0 in cfg.enclosing_fors(e.cn))
                    if per_key:
                        o.refute(f, w.node, kf, f"{what}: one sort pass per entry of `{KEY}` (key `{src(g)}`) instead of ONE stable sort by the "
                                                f"joined key: the passes compare the raw attribute values, not the joined str() forms, and "
                                                f"each pass rewrites the list")
                    elif g is not None:
                        o.refute(f, w.node, kf, f"{what}: sorts by `{src(g)}` instead of the attribute named by `{KEY}`")
                    else:
                        o.undecided(f, w.node, kf, f"{what}: key function is not an attribute getter of `{KEY}`")
                    kbad = True
                    break
                kinds += [k for k in kk.split('+') if k not in kinds]
            if kbad:
                bad = True
                continue
            kk = '+'.join(kinds)
            sorts.append((e, inplace, kk))
        if bad:
            a.leftovers(o, f, what)
            return
        if not sorts:
            a.absent(o, f, f.node, 'sorted', f"{what}: the list is never sorted")
            return
        for e, inplace, kk in sorts:
            if not inplace and _reaches_exit_avoiding(cfg, e.cn, {p.cn.id for p in pubs}):
                o.refute(f, e.node, 'publish', f"{what}: the sorted list is a NEW list object and is not handed to the owner "
                                               f"(`self.__setter(self._list)` missing on some path): the task's children keep the old order")
                return
            # no second sort / reversal after it on the same path is already excluded (mutate:reverse refuted)
        kinds_all = {k1 for _, _, kk in sorts for k1 in kk.split('+')}
        if 'single' not in kinds_all:
            # no sort compares the attribute VALUE itself; is a plain attribute name nevertheless let through to a sort?
            for b in cfg.nodes:
                if b.kind == 'branch' and b.polarity and not isinstance(b.test, (ast.For, ast.AsyncFor)) and \
                        any((match(f"type({KEY}) is str", at) or match(f"isinstance({KEY}, str)", at) or match(f"type({KEY}) == str", at)) and pol
                            for at, pol in facts.split_conj(b.test, True)) and any(cfg.can_reach(b, e.cn) for e, _, _ in sorts):
                    o.refute(f, sorts[0][0].node, 'single key', f"{what}: a single attribute name (`{src(b.test)}`) is sorted through the "
                             f"key function for attribute LISTS (the '-'.join of str() forms) instead of by the attribute's own value: "
                             f"numbers and dates are then ordered as text (10 before 9)")
                    return
        if not a.must_pass(o, f, [e for e, _, _ in sorts], [], what):
            return
        for e, inplace, kk in sorts:
            for k1 in kk.split('+'):     # one site per documented key form (attribute name / list of names)
                o.site(f, e.node, f"{k1} key, reverse={REV}" + (', in place' if inplace else ', published'))
        a.leftovers(o, f, what)
    ctx.guarded(o, run)


# ====================================================================================================== reorder
def _local_mutations(f, name):
    """calls `name.method(...)` on a local list"""
    out = []
    for n in walk_no_nested(f.node):
        if isinstance(n, ast.Call) and isinstance(n.func, ast.Attribute) and isinstance(n.func.value, ast.Name) and \
                n.func.value.id == name and n.func.attr in LIST_MUT:
            out.append(n)
    return out


LIST_MUT = ('append', 'remove', 'insert', 'extend', 'pop', 'clear', 'sort', 'reverse', '__iadd__')


def _first_match(a: A, f, e, at, idvar):
    """e picks the FIRST element of the facade's list whose id equals idvar:
    next(t for t in L if t.id == idvar) / next(iter([...])) / [...][0]     ->  (verdict, source list expr | message)"""
    e, at, _ = resolve(f, e, at)
    gen = None
    if isinstance(e, ast.Call) and isinstance(e.func, ast.Name) and e.func.id == 'next' and len(e.args) >= 1:
        g = e.args[0]
        if isinstance(g, ast.Call) and isinstance(g.func, ast.Name) and g.func.id == 'iter' and len(g.args) == 1:
            g = g.args[0]
        gen = g
    elif isinstance(e, ast.Subscript) and not isinstance(e.slice, ast.Slice):
        i = facts.const_num(e.slice)
        if i == 0:
            gen = e.value
        elif i is not None:
            return 'refute', f"takes element [{int(i)}] of the matches instead of the first one"
    if isinstance(gen, ast.Name):
        gen = resolve(f, gen, at)[0]
    if not isinstance(gen, (ast.GeneratorExp, ast.ListComp)) or len(gen.generators) != 1:
        return 'undecided', "the picked task is not `next(t for t in list if t.id == id)`"
    g = gen.generators[0]
    if not (isinstance(g.target, ast.Name) and isinstance(gen.elt, ast.Name) and gen.elt.id == g.target.id):
        return 'undecided', "the picked task is not an element of the list"
    t = g.target.id
    if len(g.ifs) != 1:
        return ('refute', "the pick is not filtered by id at all") if not g.ifs else ('undecided', "several filter conditions")
    c, pol = strip_not(g.ifs[0], True)
    if not (isinstance(c, ast.Compare) and len(c.ops) == 1):
        return 'undecided', "filter is not a comparison"
    l, r, op = c.left, c.comparators[0], c.ops[0]

    def is_tid(x):
        return isinstance(x, ast.Attribute) and x.attr == 'id' and isinstance(x.value, ast.Name) and x.value.id == t

    def is_idvar(x):
        return isinstance(x, ast.Name) and x.id == idvar
    if not ((is_tid(l) and is_idvar(r)) or (is_tid(r) and is_idvar(l))):
        return 'undecided', "filter does not compare the element's id with the requested id"
    eq = isinstance(op, ast.Eq) == pol if isinstance(op, (ast.Eq, ast.NotEq)) else None
    if eq is None:
        return 'undecided', "filter uses an unexpected comparator"
    if not eq:
        return 'refute', "picks the first task whose id DIFFERS from the requested id"
    return 'ok', g.iter


def _is_swap(a: A, f, st) -> bool:
    """`L[i], L[j] = L[j], L[i]` on the facade's list (also through a temporary is NOT covered)"""
    if not (isinstance(st, ast.Assign) and len(st.targets) == 1 and isinstance(st.targets[0], ast.Tuple) and
            isinstance(st.value, ast.Tuple) and len(st.targets[0].elts) == 2 and len(st.value.elts) == 2):
        return False
    t0, t1 = st.targets[0].elts
    v0, v1 = st.value.elts
    if not all(isinstance(x, ast.Subscript) and not isinstance(x.slice, ast.Slice) and a.is_self_attr(f, x.value, LIST)
               for x in (t0, t1, v0, v1)):
        return False
    return same(t0.slice, v1.slice) and same(t1.slice, v0.slice) and not same(t0.slice, t1.slice)


@part
def reorder_effect(a: A, ctx):
    o = ctx.ob('reorder', 'R8',
               "_ChildrenList.reorder: new list = [first task with each id, in ids order] + the remaining tasks in their old "
               "order; picks and rest are built on a copy (the live list is not edited), then stored and published", floor=3)

    def run(o):
        f = a.fn('task._ChildrenList.reorder')
        what = 'reorder'
        cfg = cfg_of(f)
        IDS = f.params[1]
        evs = a.events(f)
        pubs = [e for e in evs if e.kind == 'publish']
        if not all([_publish_ok(a, o, f, e, what) for e in pubs]):
            return
        ws = _fold_clear_extend(a, f, [e for e in evs if e.kind == 'write' and e.w.field == LIST and a.is_self(f, e.w.recv)])
        stores = []
        for e in ws:
            e.used = True
            if (e.w.kind == 'store' and isinstance(e.w.node, ast.Assign)) or _full_slice_store(a, f, e.w):
                stores.append(e)
            elif _is_swap(a, f, e.w.node):
                o.refute(f, e.node, e.node, f"{what}: `{src(e.node)[:90]}` SWAPS two elements of the list: the task that stood at the target "
                                            f"position jumps to the old slot of the listed one, so the tasks that are not listed do not "
                                            f"keep their relative order (documented: listed ids first, the rest in their old order)")
                return
            elif e.w.kind.startswith('mutate:'):
                o.refute(f, e.node, e.node, f"{what}: `{src(e.node)[:70]}` edits the LIVE children list (shared with the task) while the new "
                                            f"order is still being computed; picks and rest must be taken from a copy and the result "
                                            f"stored + published in one step")
                return
            else:
                o.undecided(f, e.node, e.node, f"{what}: edits the list with `{e.w.kind}`")
                return
        if len(stores) != 1:
            if not stores:
                a.absent(o, f, f.node, 'store', f"{what}: the new order is never stored")
            else:
                o.undecided(f, stores[1].node, stores[1].node, f"{what}: several stores")
            return
        store = stores[0]
        rhs, rn, _ = resolve(f, store.node.value, store.cn)
        term = norm_list(rhs)
        if term[0] != 'concat' or len(term[1]) != 2:
            o.undecided(f, store.node, store.node.value, f"{what}: new list is not `picks + rest`")
            return

        def part_kind(p):
            """('picks', loop, idvar, info) | ('rest', info) | ('?',)"""
            if p[0] == 'mapped' and isinstance(p[1], ast.ListComp) and len(p[1].generators) == 1:
                g = p[1].generators[0]
                if isinstance(g.target, ast.Name) and not g.ifs:
                    return ('picks-comp', p[1], g)
            if p[0] == 'filter':
                return ('rest-comp', p)
            if p[0] == 'ref' and isinstance(p[1], ast.Name):
                nm = p[1].id
                d = flow_of(f).unique_def(nm, rn)
                if d is None or d.kind != 'assign' or d.value is None:
                    return ('?',)
                dv = d.value
                if isinstance(dv, ast.List) and not dv.elts or match("list()", dv):
                    return ('picks-loop', nm, d)
                t = norm_list(dv)
                if t[0] == 'mapped':
                    return part_kind(t)
                if t[0] == 'filter' and t[3]:
                    return ('rest-comp', t, nm)
                if t[0] == 'filter':
                    return ('rest-loop', nm, d, t)
                if t[0] == 'ref' and _is_facade_list(a, f, dv):
                    return ('rest-alias', nm, d)
            if p[0] == 'ref' and _is_facade_list(a, f, p[1]):
                return ('rest-live',)
            return ('?',)

        k0, k1 = part_kind(term[1][0]), part_kind(term[1][1])
        if k0[0].startswith('rest') and k1[0].startswith('picks'):
            o.refute(f, store.node, store.node.value, f"{what}: the new list is `rest + picks`: the listed ids are put LAST instead of first")
            return
        if not (k0[0].startswith('picks') and k1[0].startswith('rest')):
            o.undecided(f, store.node, store.node.value, f"{what}: cannot identify the picked tasks and the remaining tasks in `{src(rhs)[:60]}`")
            return
        # ---- picks
        pick_names = set()
        loop = None
        if k0[0] == 'picks-comp':
            comp, g = k0[1], k0[2]
            if not is_arg(a, f, g.iter, rn):
                kk = classify_list(a, f, g.iter, rn)
                if kk[0] == 'arg-reordered':
                    o.refute(f, store.node, g.iter, f"{what}: ids are walked in the order of `{kk[1]}(...)`, not in the given order")
                else:
                    o.undecided(f, store.node, g.iter, f"{what}: picks do not range over the given ids")
                return
            vd, info = _first_match(a, f, comp.elt, rn, g.target.id)
            pick_expr = comp
        else:
            nm, d = k0[1], k0[2]
            pick_names.add(nm)
            muts = _local_mutations(f, nm)
            apps = [c for c in muts if c.func.attr == 'append']
            other = [c for c in muts if c.func.attr != 'append']
            if other:
                c = other[0]
                if c.func.attr == 'insert':
                    o.refute(f, c, c, f"{what}: picked tasks are inserted at a position (`{src(c)}`): they come out in another order than "
                                      f"the given ids")
                else:
                    o.undecided(f, c, c, f"{what}: the list of picked tasks is edited with `{c.func.attr}`")
                return
            if len(apps) != 1 or len(apps[0].args) != 1:
                o.undecided(f, f.node, nm, f"{what}: the picked tasks are not collected by one append per id")
                return
            ap = apps[0]
            apn = cfg.node_containing(ap)
            fors = cfg.enclosing_fors(apn)
            if not fors:
                o.refute(f, ap, ap, f"{what}: only one task is picked (no loop over the ids)")
                return
            loop = fors[-1]
            hn = cfg.node_of(loop)
            if not (isinstance(loop.target, ast.Name) and is_arg(a, f, loop.iter, hn)):
                kk = classify_list(a, f, loop.iter, hn)
                if kk[0] == 'arg-reordered':
                    o.refute(f, loop, loop.iter, f"{what}: ids are walked in the order of `{kk[1]}(...)`, not in the given order")
                else:
                    o.undecided(f, loop, loop.iter, f"{what}: the loop does not range over the given ids")
                return
            if path_atoms(a, f, apn, since=hn):
                o.refute(f, ap, ap, f"{what}: some requested ids are skipped (the pick is conditional)")
                return
            vd, info = _first_match(a, f, ap.args[0], apn, loop.target.id)
            pick_expr = ap.args[0]
        if vd == 'refute':
            o.refute(f, store.node, pick_expr, f"{what}: {info}")
            return
        if vd == 'undecided':
            o.undecided(f, store.node, pick_expr, f"{what}: {info}")
            return
        src_list = info
        s_r, s_at, _ = resolve(f, src_list, rn)
        st = norm_list(s_r)
        s0 = list_source(st) if st[0] in ('ref', 'filter') and not (st[0] == 'filter' and st[3]) else None
        if not _is_facade_list(a, f, s0):
            o.refute(f, store.node, src_list, f"{what}: tasks are picked from `{src(src_list)}`, not from this children list")
            return
        o.site(f, store.node, f"picks: first match per id in `{IDS}` order")
        # ---- rest
        if k1[0] == 'rest-live' or k1[0] == 'rest-alias':
            o.refute(f, store.node, store.node.value, f"{what}: the remaining tasks are the live list itself (no copy): the picked tasks "
                                                      f"are still in it and would be listed twice, or the live list is edited in place")
            return
        if k1[0] in ('rest-comp',):
            t = k1[1]
            s0 = list_source(('filter', t[1], t[2], []))
            if not _is_facade_list(a, f, resolve(f, s0, rn)[0]):
                o.refute(f, store.node, t[1], f"{what}: the remaining tasks are drawn from `{src(t[1])}`, not from this list")
                return
            okc = len(t[3]) == 1
            if okc:
                c, pol = strip_not(t[3][0], True)
                okc = isinstance(c, ast.Compare) and len(c.ops) == 1 and isinstance(c.ops[0], ast.NotIn if pol else ast.In) and \
                    isinstance(c.left, ast.Name) and c.left.id == t[2] and \
                    ((isinstance(c.comparators[0], ast.Name) and c.comparators[0].id in pick_names) or
                     (k0[0] == 'picks-comp' and (same(c.comparators[0], k0[1]) or
                                                 (isinstance(c.comparators[0], ast.Name) and
                                                  same(resolve(f, c.comparators[0], rn)[0], k0[1])))))
            if not okc:
                if len(t[3]) == 1 and mentions_id(t[3][0]):
                    o.undecided(f, store.node, t[3][0], f"{what}: remaining tasks are selected by id comparison")
                else:
                    o.undecided(f, store.node, store.node.value, f"{what}: the remaining tasks are not `[t for t in list if t not in picks]`")
                return
            o.site(f, store.node, 'rest: old order, picks filtered out')
        else:
            nm, d = k1[1], k1[2]
            if not _is_facade_list(a, f, list_source(k1[3])):
                o.refute(f, d.stmt, d.value, f"{what}: the working copy is taken from `{src(d.value)}`, not from this list")
                return
            muts = _local_mutations(f, nm)
            rms = [c for c in muts if c.func.attr == 'remove']
            other = [c for c in muts if c.func.attr != 'remove']
            if other:
                o.undecided(f, other[0], other[0], f"{what}: the working copy is edited with `{other[0].func.attr}`: old order of the rest?")
                return
            if not rms:
                o.refute(f, store.node, store.node.value, f"{what}: picked tasks are never taken out of the working copy: they are listed "
                                                          f"twice (first and at their old position)")
                return
            for c in rms:
                cn = cfg.node_containing(c)
                if loop is None or loop not in cfg.enclosing_fors(cn):
                    o.undecided(f, c, c, f"{what}: removal from the working copy is outside the loop over the ids")
                    return
                if path_atoms(a, f, cn, since=cfg.node_of(loop)):
                    o.refute(f, c, c, f"{what}: a picked task is only conditionally taken out of the rest")
                    return
                if not (len(c.args) == 1 and same(resolve(f, c.args[0], cn)[0], resolve(f, pick_expr, cfg.node_containing(pick_expr))[0])):
                    o.refute(f, c, c, f"{what}: `{src(c)}` takes another task out of the rest than the one that was picked")
                    return
            if d.node is not None and loop is not None and not cfg.dominates(d.node, cfg.node_of(loop)):
                o.undecided(f, d.stmt, d.stmt, f"{what}: the working copy is not taken before the loop")
                return
            o.site(f, d.stmt, f"rest: copy `{src(d.stmt)}` minus the picks, old order")
        # ---- stored unconditionally, published
        if path_atoms(a, f, store.cn):
            o.refute(f, store.node, store.node, f"{what}: the new order is stored only conditionally")
            return
        if not _full_slice_store(a, f, store.w) and _reaches_exit_avoiding(cfg, store.cn, {p.cn.id for p in pubs}):
            o.refute(f, store.node, 'publish', f"{what}: the new list object is not handed to the owner (`self.__setter(self._list)` "
                                               f"missing): the task's children keep the old order")
            return
        if a.must_pass(o, f, [store], [], what):
            o.site(f, store.node, 'stored in place' if _full_slice_store(a, f, store.w) else 'stored and published')
        a.leftovers(o, f, what)
    ctx.guarded(o, run)


# ====================================================================================================== insert
def _facade_read_nodes(a: A, f, e, at, _seen=None) -> List[Node]:
    """cfg nodes at which the value of `e` (evaluated at cfg node `at`) READS the facade's list (`self._list`, or the facade
    itself being iterated / indexed): locals are followed through ALL their reaching definitions (both arms of an if/else,
    conditional overwrites), loop variables to the loop's iterable and accumulator lists to the statements that fill them"""
    seen = _seen if _seen is not None else set()
    out: List[Node] = []
    if e is None or at is None:
        return out
    cfg = cfg_of(f)
    fl = flow_of(f)
    attr_bases = {id(n.value) for n in ast.walk(e) if isinstance(n, ast.Attribute)}
    bound = set()
    for n in ast.walk(e):
        if isinstance(n, ast.comprehension):
            bound |= names_in(n.target)
        elif isinstance(n, ast.Lambda):
            bound |= {x.arg for x in n.args.args}
    for n in ast.walk(e):
        if a.is_self_attr(f, n, LIST) or (a.is_self(f, n) and id(n) not in attr_bases):
            out.append(at)
        if isinstance(n, ast.Name) and n.id not in bound and n.id != f.self_name:
            for d in fl.reaching(n.id, at):
                if d.node is None or (id(d), at.id) in seen:
                    continue
                seen.add((id(d), at.id))
                if d.value is not None:
                    out += _facade_read_nodes(a, f, d.value, d.node, seen)
                elif d.kind == 'for':
                    out += _facade_read_nodes(a, f, d.stmt.iter, d.node, seen)
            # a list filled in place: the statements that add to it
            for c in _local_mutations(f, n.id):
                cn = cfg.node_containing(c)
                if cn is None or (id(c), 0) in seen:
                    continue
                seen.add((id(c), 0))
                for x in c.args:
                    out += _facade_read_nodes(a, f, x, cn, seen)
    return out


def _copy_minus_task(a: A, f, name, T):
    """local `name` is a plain copy of the facade's list from which the task is taken out (`name.remove(T)`, unconditionally
    or under `T in name`) before the local is read anywhere else:  'ok' | ('refute', message) | None (another idiom)"""
    fl, cfg = flow_of(f), cfg_of(f)
    ds = fl.defs_of(name)
    if len(ds) != 1 or ds[0].kind != 'assign' or ds[0].value is None or ds[0].node is None:
        return None
    t = norm_list(ds[0].value)
    if not (is_plain_copy(t) and _is_facade_list(a, f, list_source(t))):
        return None
    muts = _local_mutations(f, name)
    if len(muts) != 1 or muts[0].func.attr != 'remove' or len(muts[0].args) != 1:
        return None
    if not (isinstance(muts[0].args[0], ast.Name) and muts[0].args[0].id == T):
        return ('refute', f"`{src(muts[0])}` takes another task than the inserted one out of the copy of the list: the task itself "
                          f"is still counted when the anchor is looked up")
    rn = cfg.node_containing(muts[0])
    if rn is None or not cfg.dominates(ds[0].node, rn) or cfg.enclosing_fors(rn):
        return None
    guard = rn
    for at, pol, tst in _raw_atoms(f, rn):
        if [x for x in _raw_atoms(f, ds[0].node) if x[2] is tst]:
            continue        # a condition the copy itself stands under
        if match(f"{T} in {name}", at) and pol or match(f"{T} not in {name}", at) and not pol:
            guard = cfg.node_containing(tst) or guard
            continue
        return None
    # every other read of the local comes after the removal (or its membership test)
    early, unknown = [], False
    for n in walk_no_nested(f.node):
        if isinstance(n, ast.Name) and n.id == name and isinstance(n.ctx, ast.Load):
            un = cfg.node_containing(n)
            if un is None or un is rn or un is guard:
                continue
            if cfg.can_reach(un, guard) and not cfg.can_reach(guard, un) and un is not ds[0].node:
                early.append(un)
            elif not cfg.dominates(guard, un):
                unknown = True
    if early:
        return ('refute', f"the copy of the list is read (`{src(early[0].ast)[:60]}`) BEFORE the task is taken out of it "
                          f"(`{src(muts[0])}`): the task itself is counted when the index is resolved")
    return None if unknown else 'ok'


def _is_clamp(f, d, IDX, shift) -> bool:
    """definition d is the second step of a two-step normalisation: `if IDX < 0: IDX = 0` or `IDX = max(IDX, 0)`, executed after
    the shift definition"""
    cfg = cfg_of(f)
    if d.kind != 'assign' or d.value is None or d.node is None or shift.node is None:
        return False
    if not (cfg.can_reach(shift.node, d.node) and not cfg.can_reach(d.node, shift.node)):
        return False
    if match(f"max({IDX}, 0)", d.value) or match(f"max(0, {IDX})", d.value):
        return True
    if facts.const_num(d.value) == 0:
        conds = [(strip_not(t0, p0)) for t0, p0, _ in _raw_atoms(f, d.node)]
        return bool(conds) and all((match(f"{IDX} < 0", t0) and p0) or (match(f"{IDX} >= 0", t0) and not p0) or
                                   (match(f"0 > {IDX}", t0) and p0) for t0, p0 in conds)
    return False


def _neg_index_form(e, IDX, L):
    """`max(len(L) + IDX, 0) if IDX < 0 else IDX`  (list.insert's treatment of negative indexes, as one expression)"""
    if not isinstance(e, ast.IfExp):
        return False
    t, pol = strip_not(e.test, True)
    body, orelse = (e.body, e.orelse) if pol else (e.orelse, e.body)
    if match(f"{IDX} >= 0", t) or match(f"0 <= {IDX}", t):
        body, orelse = orelse, body
    elif not (match(f"{IDX} < 0", t) or match(f"0 > {IDX}", t)):
        return False
    if not (isinstance(orelse, ast.Name) and orelse.id == IDX):
        return False
    for pat in (f"max(len($l) + {IDX}, 0)", f"max(0, len($l) + {IDX})", f"max({IDX} + len($l), 0)", f"max(0, {IDX} + len($l))"):
        m = match(pat, body)
        if m and same(m['l'], L):
            return True
    return False


@part
def insert_index(a: A, ctx):
    o = ctx.ob('insert_index', 'R8',
               "_ChildrenList.insert(i, t): anchor = element i of the list WITHOUT t (None when i >= its length), looked up "
               "before t is attached; t is attached to the owner (last); then moved immediately before the anchor", floor=3)

    def run(o):
        f = a.fn('task._ChildrenList.insert')
        what = 'insert'
        cfg = cfg_of(f)
        IDX, T = f.params[1], f.params[2]
        evs = a.events(f)
        # ---- attach
        att = [e for e in evs if (e.kind == 'setter' and e.name == 'parent' and e.stmt is not None) or
               (e.kind == 'call' and e.name == 'append' and isinstance(e.node, ast.Call) and a.is_self(f, e.node.func.value))]
        if len(att) != 1:
            if not att:
                a.absent(o, f, f.node, 'attach', f"{what}: the task is never attached to the owner (`task.parent = owner`)")
            else:
                o.undecided(f, att[1].node, att[1].node, f"{what}: several attach statements")
            return
        at_ev = att[0]
        at_ev.used = True
        if at_ev.kind == 'setter':
            aug, v, st = _store_value(a, f, at_ev)
            if aug or not a.is_param(f, a.xp(f, at_ev.node.value, at_ev.cn), 2) or not a.is_owner(f, v):
                o.refute(f, st, st, f"{what}: `{src(st)}` is not `task.parent = owner of the list`")
                return
        else:
            c = at_ev.node
            if not (len(c.args) == 1 and a.is_param(f, c.args[0], 2)):
                o.refute(f, c, c, f"{what}: appends `{src(c)}` instead of the inserted task")
                return
        cond = path_atoms(a, f, at_ev.cn)
        if cond:
            if all(_membership_atom(a, f, at0, T) is not None for at0, _, _ in cond):
                # attach only for non-members + the list edited directly: may well produce the documented list, in another way
                o.undecided(f, at_ev.node, at_ev.node, f"{what}: the task is attached only when it is not a member yet; the position is "
                                                       f"produced in a way this rule does not follow")
            else:
                o.refute(f, at_ev.node, at_ev.node, f"{what}: the task is attached only conditionally")
            return
        if not a.must_pass(o, f, [at_ev], [], what):
            return
        o.site(f, at_ev.stmt or at_ev.node, 'attach: ' + src(at_ev.stmt or at_ev.node))
        # ---- move before the anchor
        mv = [e for e in evs if e.kind == 'call' and e.name == 'move' and isinstance(e.node, ast.Call) and a.is_self(f, e.node.func.value)]
        if not mv:      # move() itself may have lost its recognisable effect (reported there): find the call by name
            mv = [Ev('call', c0, cfg.node_containing(c0), 'move') for c0 in facts.calls_named(f, 'move')
                  if isinstance(c0.func, ast.Attribute) and a.is_self(f, c0.func.value)]
        if len(mv) != 1:
            if not mv:
                ins = [e for e in evs if e.kind == 'write' and e.w.kind == 'mutate:insert']
                if ins:
                    o.undecided(f, ins[0].node, ins[0].node, f"{what}: positions the task by a raw list insert instead of move()")
                else:
                    a.absent(o, f, f.node, 'move', f"{what}: the task is attached (last) and never moved to the requested index")
            else:
                o.undecided(f, mv[1].node, mv[1].node, f"{what}: several move calls")
            return
        m_ev = mv[0]
        m_ev.used = True
        c = m_ev.node
        kws = {k.arg: k.value for k in c.keywords}

        def given(x):
            return None if x is None or const_of(x) is None else x
        anchor_arg = given(kws.get('before', c.args[1] if len(c.args) > 1 else None))
        after_arg = given(kws.get('after', c.args[2] if len(c.args) > 2 else None))
        if not (c.args and a.is_param(f, resolve(f, c.args[0], m_ev.cn)[0], 2)):
            o.refute(f, c, c, f"{what}: `{src(c)}` moves something else than the inserted task")
            return
        if anchor_arg is None:
            if after_arg is not None:
                o.refute(f, c, c, f"{what}: the task is moved AFTER the element found at the index; insert(i) must put it before that "
                                  f"element (at index i)")
            else:
                o.undecided(f, c, c, f"{what}: move call without an anchor")
            return
        if after_arg is not None:
            o.undecided(f, c, c, f"{what}: move call with both anchors")
            return
        if not cfg.can_reach(at_ev.cn, m_ev.cn) or cfg.can_reach(m_ev.cn, at_ev.cn):
            o.refute(f, c, c, f"{what}: the task is moved before it is attached to this list")
            return
        # ---- anchor: the value handed to move(), with locals, if/else arms and fill loops folded into one expression
        late = [n for n in _facade_read_nodes(a, f, anchor_arg, m_ev.cn) if n is not at_ev.cn and cfg.can_reach(at_ev.cn, n)]
        if late:
            o.refute(f, c, anchor_arg, f"{what}: the anchor is looked up AFTER the task has been attached (it is then the last element "
                                       f"of the list): index len(list) finds the task itself and earlier indexes are shifted for a task "
                                       f"that was already in the list")
            return
        an = _fold_getattr(a.X(f).expand(anchor_arg, m_ev.cn), a, f)
        # conditions of the move: only `anchor is not None` (or, for an anchor subscripted in place, the bound test itself)
        bound_tests = []
        for atm, pol, _ in _raw_atoms(f, m_ev.cn):
            okc = isinstance(anchor_arg, ast.Name) and (
                (match(f"{anchor_arg.id} is not None", atm) and pol) or (match(f"{anchor_arg.id} is None", atm) and not pol))
            if not okc:
                # validation guards (raise on the other side) do not count
                tst = [t for t, p in cfg.conditions(m_ev.cn) if any(x is atm for x in ast.walk(t))]
                if tst and is_rejection(cfg, tst[0], pol):
                    continue
                if isinstance(an, ast.Subscript) and isinstance(atm, ast.Compare) and tst:
                    bound_tests.append((a.X(f).expand(atm, cfg.node_containing(tst[0])), pol))
                    continue
                o.undecided(f, c, atm, f"{what}: the move depends on a condition the rule does not know")
                return
        if isinstance(an, ast.Subscript) and len(bound_tests) == 1:
            # `if i < len(L): self.move(task, before=L[i])`  ==  anchor `L[i] if i < len(L) else None`, move when not None
            bt, bp = bound_tests[0]
            an = ast.IfExp(test=bt if bp else ast.UnaryOp(op=ast.Not(), operand=bt), body=an, orelse=ast.Constant(value=None))
        elif bound_tests:
            o.undecided(f, c, bound_tests[0][0], f"{what}: the move depends on a condition the rule does not know")
            return
        if not isinstance(an, ast.IfExp):
            if isinstance(an, ast.Subscript):
                o.refute(f, c, an, f"{what}: anchor `{src(an)}` has no `index >= len(list)` case: insert at / past the end must append")
            else:
                o.undecided(f, c, an, f"{what}: anchor is not `list[index] if index < len(list) else None`")
            return
        test, pol = strip_not(an.test, True)
        body, orelse = (an.body, an.orelse) if pol else (an.orelse, an.body)
        # normalise the test to  I < len(L)  (True -> subscript branch)
        cmp_ = None
        if isinstance(test, ast.Compare) and len(test.ops) == 1:
            l, op, r = test.left, test.ops[0], test.comparators[0]
            FLIP = {ast.Lt: ast.Gt, ast.Gt: ast.Lt, ast.LtE: ast.GtE, ast.GtE: ast.LtE}
            if match("len($l)", l) and type(op) in FLIP:
                l, r, op = r, l, FLIP[type(op)]()
            if match("len($l)", r):
                cmp_ = (l, type(op), match("len($l)", r)['l'])
        if cmp_ is None:
            o.undecided(f, c, an.test, f"{what}: anchor test is not a comparison of the index with len(list)")
            return
        i_expr, op, L_len = cmp_
        if op in (ast.GtE, ast.Gt):       # I >= len(L): body is the None branch
            body, orelse = orelse, body
            op = {ast.GtE: ast.Lt, ast.Gt: ast.LtE}[op]
        if op is ast.LtE:
            o.refute(f, c, an.test, f"{what}: bound test `{src(an.test)}` lets index == len(list) through: off by one at the end of the list")
            return
        if op is not ast.Lt:
            o.undecided(f, c, an.test, f"{what}: unexpected comparator in the anchor test")
            return
        if const_of(orelse) is not None:
            o.refute(f, c, an, f"{what}: past the end the anchor is `{src(orelse)}` instead of None (= plain append)")
            return
        if not (isinstance(body, ast.Subscript) and not isinstance(body.slice, ast.Slice)):
            o.undecided(f, c, an, f"{what}: anchor is not an element of the list")
            return
        plain_idx = isinstance(i_expr, ast.Name) and i_expr.id == IDX
        clamp_outer = bool(match(f"max({IDX}, 0)", i_expr) or match(f"max(0, {IDX})", i_expr))
        if clamp_outer:
            plain_idx = True        # `if i < 0: i = len(L) + i` ... `i = max(i, 0)`: the clamp is a separate, unconditional step
        if not plain_idx and not _neg_index_form(i_expr, IDX, L_len):
            o.undecided(f, c, an.test, f"{what}: the bound test is not about `{IDX}`")
            return
        if not same(body.slice, i_expr):
            if isinstance(body.slice, ast.BinOp) and IDX in names_in(body.slice):
                o.refute(f, c, body, f"{what}: anchor is element `{src(body.slice)}`; insert(i) must put the task before element i")
            else:
                o.undecided(f, c, body, f"{what}: anchor subscript is not `{IDX}`")
            return
        if not same(body.value, L_len):
            o.refute(f, c, an, f"{what}: the bound is taken on `{src(L_len)}` but the element from `{src(body.value)}`")
            return
        L = body.value
        t = norm_list(L)
        if t[0] == 'concat' and len(t[1]) == 2 and t[1][0][0] == 'lit' and not t[1][0][1]:
            t = t[1][1]         # `[] + [x for ..]`: the folded form of a list filled by a loop
        cm = _copy_minus_task(a, f, L.id, T) if t[0] == 'ref' and isinstance(L, ast.Name) else None
        if cm is not None and cm != 'ok':
            o.refute(f, c, L, f"{what}: {cm[1]}")
            return
        if cm == 'ok':
            t = None        # `L = list.copy(); if task in L: L.remove(task)`: the children without the task, old order
        if t is None:
            pass
        elif t[0] == 'ref' and _is_facade_list(a, f, L):
            o.refute(f, c, an, f"{what}: the anchor is taken from the list that may still contain the task itself: moving a member "
                               f"to a later index lands one position too early / on itself")
            return
        elif t[0] != 'filter' or not _is_facade_list(a, f, list_source(('filter', t[1], t[2], []))):
            o.undecided(f, c, L, f"{what}: anchor list is not the children list without the task")
            return
        kinds = ['ne'] if t is None else [cmp_kind(cc, t[2], ast.Name(id=T, ctx=ast.Load())) for cc in t[3]] if t[2] else []
        if kinds != ['ne']:
            if any(k.startswith('id-') for k in kinds):
                o.refute(f, c, L, f"{what}: the task is taken out of the anchor list by id comparison instead of identity")
            elif not kinds:
                o.refute(f, c, L, f"{what}: the anchor list is a plain copy: it still contains the task itself")
            elif kinds == ['eq']:
                o.refute(f, c, L, f"{what}: the anchor list keeps ONLY the task")
            else:
                o.undecided(f, c, L, f"{what}: anchor list filter not understood")
            return
        o.site(f, c, f"anchor = {src(an)[:80]}")
        # ---- negative index normalisation, when present: like list.insert
        saw_shift = False
        for d in (flow_of(f).defs_of(IDX) if plain_idx else []):
            if d.kind == 'param':
                continue
            okn = d.kind == 'assign' and d.value is not None and (
                match(f"max(len($l) + {IDX}, 0)", d.value) or match(f"max(0, len($l) + {IDX})", d.value) or
                match(f"max({IDX} + len($l), 0)", d.value) or match(f"max(0, {IDX} + len($l))", d.value))
            conds = [(t0, p0) for t0, p0, _ in _raw_atoms(f, d.node)] if d.node is not None else []
            neg = any((match(f"{IDX} < 0", t0) and p0) or (match(f"{IDX} >= 0", t0) and not p0) or (match(f"0 > {IDX}", t0) and p0)
                      for t0, p0 in conds)
            unclamped = None
            if d.kind == 'aug' and isinstance(d.stmt, ast.AugAssign) and isinstance(d.stmt.op, ast.Add):
                unclamped = match("len($l)", d.stmt.value)
            elif d.kind == 'assign' and d.value is not None:
                unclamped = match(f"len($l) + {IDX}", d.value) or match(f"{IDX} + len($l)", d.value)
            others_ = [d2 for d2 in flow_of(f).defs_of(IDX) if d2.kind != 'param' and d2 is not d]
            if clamp_outer and d.kind == 'assign' and d.value is not None and (match(f"max({IDX}, 0)", d.value) or
                                                                                match(f"max(0, {IDX})", d.value)):
                continue        # the clamp step (already part of the anchor expression)
            wrong_const = [d2 for d2 in [d] + others_ if d2.kind == 'assign' and d2.value is not None and d2.node is not None and
                           facts.const_num(d2.value) not in (None, 0) and
                           any((match(f"{IDX} < 0", t0) and p0) or (match(f"{IDX} >= 0", t0) and not p0)
                               for t0, p0, _ in _raw_atoms(f, d2.node))]
            if wrong_const and len(others_) == 1:
                d2 = wrong_const[0]
                o.refute(f, d2.stmt, d2.stmt, f"{what}: an index below -len(list) is clamped to {src(d2.value)} instead of 0 (`{src(d2.stmt)}`)")
                return
            if unclamped and neg and same(a.X(f).expand(unclamped['l'], d.node), L):
                saw_shift = True
            if unclamped and neg and same(a.X(f).expand(unclamped['l'], d.node), L) and len(others_) == 1 and \
                    _is_clamp(f, others_[0], IDX, d):
                continue        # `if i < 0: i += len(L)` followed by `if i < 0: i = 0`: list.insert's clamp in two steps
            if d.kind == 'assign' and len(others_) == 1 and _is_clamp(f, d, IDX, others_[0]):
                continue        # the clamp step itself
            if unclamped and neg and same(a.X(f).expand(unclamped['l'], d.node), L) and not others_:
                o.refute(f, d.stmt, d.stmt, f"{what}: a negative `{IDX}` is shifted by len(list) but not clamped at 0 (`{src(d.stmt)}`): for "
                                            f"{IDX} < -len(list) the anchor is taken from the END of the list (negative subscript) instead "
                                            f"of the first element; list.insert semantics need `max(len(list) + {IDX}, 0)`")
                return
            if not okn or not neg or not same(a.X(f).expand(okn['l'], d.node), L):
                o.undecided(f, d.stmt, d.stmt, f"{what}: `{IDX}` is rewritten in a way the rule does not know "
                                               f"(expected: `if {IDX} < 0: {IDX} = max(len(list) + {IDX}, 0)`)")
                return
        if clamp_outer and not saw_shift:
            o.refute(f, c, i_expr, f"{what}: a negative `{IDX}` is clamped to 0 without being counted from the end of the list first "
                                   f"(`{src(i_expr)}`): insert(-1, t) puts the task first instead of before the last element")
            return
        # ---- after the attach, the move (or its `anchor is not None` test) is always met
        ga = guard_anchor(cfg, m_ev.cn, at_ev.cn)
        if _reaches_exit_avoiding(cfg, at_ev.cn, {ga.id}):
            o.refute(f, c, 'move skipped', f"{what}: after attaching, some path returns without moving the task to the index")
            return
        o.site(f, c, src(c))
        a.leftovers(o, f, what)
    ctx.guarded(o, run)


# ====================================================================================================== frame
@part
def frame(a: A, ctx):
    o = ctx.ob('frame', 'R9',
               "raw relation writes of every mutator hit only: self; the elements of the argument; the elements of the old "
               "list; the old parent; the new parent - and only the field documented for that receiver; relation-changing "
               "callees are mutators of this same set (or abstract `remove`), called on self / the owner / arguments / "
               "their elements", floor=len(ALLM))

    # allowed raw writes per function: field -> receiver classes
    TABLE = {
        'task.Task.parent.setter': {'_Task__parent': {'self'}, '_Task__children': {'old-parent', 'new-parent'}},
        'task.Task.children.setter': {'_Task__children': {'self'}, '_Task__parent': {'old:_Task__children'}},
        'task.Task.predecessors.setter': {'_Task__predecessors': {'self'},
                                          '_Task__successors': {'old:_Task__predecessors', 'arg'}},
        'task.Task.successors.setter': {'_Task__successors': {'self'},
                                        '_Task__predecessors': {'old:_Task__successors', 'arg'}},
        'task.Task._attach': {'_Task__wbs': {'self'}},
        'task.Task._detach': {'_Task__wbs': {'self'}},
        'task.Task.__set_children': {'_Task__children': {'self'}},
    }

    def recv_class(f, e):
        recv = e.w.recv
        if recv is None:
            return '?'
        if a.is_self(f, recv):
            return 'self'
        r, rn, _ = resolve(f, recv, e.cn)
        if a.is_self_attr(f, r, '_Task__parent'):
            return 'old-parent'
        if isinstance(recv, ast.Name) and len(f.params) > 1 and recv.id == f.params[1] and f.qual.endswith('parent.setter'):
            return 'new-parent'
        k, fo = elem_class(a, f, recv, e.cn)
        if k is None:
            return '?'
        if k[0] in ('arg', 'arg-reordered'):
            return 'arg'
        if k[0] in ('live', 'copy'):
            return 'old:' + k[1]
        return '?'

    def followed_helper(f, e):
        """the private method of f's own class that call event e hands work to on `self` (not a documented mutator): its
        events are judged as if they stood in f"""
        if e.kind != 'call' or not isinstance(e.node, ast.Call) or not isinstance(e.node.func, ast.Attribute):
            return None
        if not a.is_self(f, e.node.func.value):
            return None
        tg = [t for t in e.ci.targets if t is not None]
        if len(tg) != 1:
            return None
        g = tg[0]
        if g.cls != f.cls or g.qual in ALLM or not g.name.startswith('_') or g.name.endswith('__') or g.kind != 'method':
            return None
        for x in e.node.args + [k.value for k in e.node.keywords]:
            r = a.eff.root_of(x, f)
            if not (r == 'self' or r.startswith('param:') or isinstance(x, ast.Constant)):
                return None
        return g

    def all_events(f):
        """[(function the event stands in, event, reached through a helper?)]"""
        out, seen, todo = [], {f.qual}, [(f, False)]
        while todo:
            g, via = todo.pop(0)
            for e in a.events(g):
                h = followed_helper(g, e)
                if h is not None:
                    if h.qual not in seen:
                        seen.add(h.qual)
                        todo.append((h, True))
                    continue
                out.append((g, e, via))
        return out

    def run(o):
        mset = {q for q in ALLM}
        for q in ALLM:      # facade methods inherited from a shared base class stand for the documented ones
            try:
                mset.add(a.fn(q).qual)
            except Exception:
                pass
        for q in ALLM:
            if q.endswith('Task._detach') and not a.prog.has_func(q):
                o.site(None, None, 'no Task._detach in this tree')
                continue
            f0 = a.fn(q)
            ok = True
            n = 0
            a.uniq_ok = q in ('task.Task.predecessors.setter', 'task.Task.successors.setter')
            for f, e, via in all_events(f0):
                n += 1
                # inside a followed helper the parameters stand for whatever the mutator passed: a receiver the table cannot
                # classify there is not a positively identified wrong write
                verdict = o.undecided if via else o.refute
                if e.kind == 'write':
                    if f.cls != 'Task':
                        if not (e.w.field == LIST and a.is_self(f, e.w.recv)):
                            o.refute(f, e.node, e.node, f"{f.cls}.{f.name} writes `{src(e.node)[:70]}`: a facade may only edit its own "
                                                        f"`_list`; task relations change through the task's setters")
                            ok = False
                        continue
                    allowed = TABLE.get(q, {})
                    rc = recv_class(f, e)
                    if f0.name in ('_attach', '_detach') and rc != 'self':
                        sm = _subtree_member(a, f, e.w.recv, e.cn)
                        if sm == 'yes':
                            rc = 'self'        # a member of the moved subtree
                        elif sm == '?':
                            o.undecided(f, e.node, e.node, f"{f.name}: cannot tell whether `{src(e.w.recv)}` belongs to the moved subtree")
                            ok = False
                            continue
                    if e.w.field not in allowed:
                        o.refute(f, e.node, e.node, f"{f.name} writes {unmangle(e.w.field)} (`{src(e.node)[:60]}`), which is not a relation "
                                                    f"{f0.name if via else 'this mutator'} is documented to change")
                        ok = False
                    elif rc not in allowed[e.w.field]:
                        # a receiver whose origin the rule cannot name is not a positively identified wrong write
                        (o.undecided if rc == '?' else verdict)(f, e.node, e.node,
                                f"{f.name} writes {unmangle(e.w.field)} of `{src(e.w.recv)}` ({rc if rc != '?' else 'a task that is neither self, '
                                'an element of the argument or of the old list, nor the old / new parent'}); allowed receivers: "
                                f"{', '.join(sorted(allowed[e.w.field]))}")
                        ok = False
                elif e.kind in ('setter', 'call'):
                    if e.kind == 'call' and a.wbs_only(e) and f0.name in ('_attach', '_detach'):
                        continue        # structure of the bookkeeping walk: C16.subtree_follows
                    bad_t = [t.qual for t in e.ci.targets if t is not None and t.qual not in mset
                             and t.qual != 'task._TaskList.remove' and t is not f
                             and any(fld in REL_FIELDS for fld, _ in a.eff.writes_star(t))]
                    if bad_t:
                        o.undecided(f, e.node, e.node, f"{f.name} calls {', '.join(bad_t)}, which changes task relations and is not one of "
                                                       f"the documented primitives of this mutator set: its effect is not followed")
                        ok = False
                        continue
                    recv = e.node.value if e.kind == 'setter' else (
                        e.node.func.value if isinstance(e.node, ast.Call) and isinstance(e.node.func, ast.Attribute) else
                        (e.node.left if isinstance(e.node, ast.BinOp) else None))
                    if e.kind == 'call' and e.ci.targets and all(t is not None and t.kind in ('static', 'function', 'classmethod')
                                                                 for t in e.ci.targets):
                        recv = None     # `Cls.helper(x)` / `helper(x)`: the name before the dot is not a task being changed
                    if recv is not None and a.search is not None and f is a.search[0]:
                        wk = _worklist_walk(a, f, a.search[2])
                        base = recv
                        while isinstance(base, ast.Attribute):
                            base = base.value
                        if wk is not None and wk[0] == 'ok' and isinstance(base, ast.Name) and base.id == wk[1]:
                            recv = None     # a task popped from the worklist: a member of the subtree of the `current` argument
                    if recv is not None:
                        root = a.eff.root_of(recv, f)
                        if root.startswith('mixed:') and 'unknown' in root and 'param:' in root:
                            o.undecided(f, e.node, e.node, f"{f.name} applies `{src(e.node)[:60]}` to `{src(recv)}`, whose origin is "
                                                           f"only partly an argument (root: {root})")
                            ok = False
                        elif not (root == 'self' or root.startswith('param:') or
                                  (root.startswith('mixed:') and 'unknown' not in root)):
                            o.refute(f, e.node, e.node, f"{f.name} applies `{src(e.node)[:60]}` to `{src(recv)}`, an object that is neither "
                                                        f"self / its owner nor an argument (root: {root})")
                            ok = False
            f = f0
            a.uniq_ok = False
            if n == 0 and not q.endswith('_ImmutableTaskList.__add__'):
                o.undecided(f, f.node, f.name, f"no relation event found in mutator {f.name}: the analysis lost track of its effect")
                ok = False
            if ok:
                o.site(f, f.node, f"{n} relation event(s) inside the frame")
    ctx.guarded(o, run)


# ====================================================================================================== shared list
@part
def shared_list(a: A, ctx):
    o = ctx.ob('shared_list_stays_shared', 'R1',
               "the children list OBJECT of a task is created once and shared with every facade handed out: no mutator rebinds "
               "`Task.__children` or a children facade's `_list` to another list (contents are replaced in place: .clear(), "
               "`[:] = ...`, .sort()); the publish callback is only ever given that same object", floor=8)

    def run(o):
        prog = a.prog
        FLD = '_Task__children'
        cb = a.fn('task.Task.__set_children')
        # (1) stores of Task.__children anywhere in the package
        for f in list(prog.all_funcs()):
            if f.module.name not in ('task', 'wbs'):
                continue
            for w in a.eff.direct_writes(f):
                if w.field != FLD or w.kind != 'store':
                    continue
                if f.qual not in ALLM and f.qual != 'task.Task.__init__' and not a.is_self(f, w.recv):
                    continue        # initialisation of another, newly made object (clone): not a mutator of this property
                if f.qual == 'task.Task.__init__':
                    if isinstance(w.node, ast.Assign) and isinstance(w.node.value, ast.List) and not w.node.value.elts and a.is_self(f, w.recv):
                        o.site(f, w.node, 'created once: ' + src(w.node))
                    else:
                        o.undecided(f, w.node, w.node, "constructor initialises the children list with something else than a new empty list")
                    continue
                if f.qual == cb.qual:
                    v = w.node.value if isinstance(w.node, ast.Assign) else None
                    if v is not None and a.is_self(f, w.recv) and a.is_param(f, a.xp(f, v), 1):
                        o.site(f, w.node, 'publish callback stores the object it is given (checked below: always the shared one)')
                    else:
                        o.refute(f, w.node, w.node, "the publish callback stores a different list object than the one it is given "
                                                    f"(`{src(w.node)}`): the task's children list is no longer the one the facades hold")
                    continue
                o.refute(f, w.node, w.node, f"{f.name} rebinds {unmangle(FLD)} to another list object (`{src(w.node)[:70]}`): every children "
                                            f"facade handed out earlier (task.children, wbs.roots) keeps the old object; a later "
                                            f"append/remove through it silently drops tasks and resets the order. Replace the contents in "
                                            f"place (`.clear()`, `[:] = ...`)")
        # (2) stores of `_list` in the facade classes: only the base constructor
        for cls in ('_ImmutableTaskList', '_TaskList', '_ChildrenList'):
            ci = prog.cls(cls)
            for m in list(ci.methods.values()) + list(ci.getters.values()) + list(ci.setters.values()):
                for w in a.eff.direct_writes(m):
                    if w.field != LIST or not a.is_self(m, w.recv):
                        continue
                    if w.kind == 'store':
                        if m.qual == 'task._ImmutableTaskList.__init__':
                            continue        # judged by C16.wiring
                        o.refute(m, w.node, w.node, f"{cls}.{m.name} rebinds `self._list` to a NEW list object (`{src(w.node)[:70]}`): the task "
                                                    f"and the other facades keep the old object (or, after the publish callback, this facade's "
                                                    f"siblings go stale). Replace the contents in place: `self._list[:] = ...`")
                    elif _full_slice_store(a, m, w) or w.kind in ('mutate:sort', 'mutate:remove', 'mutate:insert', 'mutate:clear',
                                                                  'mutate:reverse', 'mutate:append', 'mutate:extend', 'mutate:pop'):
                        o.site(m, w.node, 'in place: ' + src(w.node)[:70])
                    elif w.kind == 'subscript-store':
                        o.site(m, w.node, 'in place (element / slice): ' + src(w.node)[:70])
                    else:
                        o.undecided(m, w.node, w.node, f"{cls}.{m.name} changes `_list` with `{w.kind}`")
        # (4) the argument normaliser never hands out the backing list of a facade: setters clear / refill the shared list while
        #     they walk the value they were given (`t.children = t.children`)
        tl = a.fn('task._to_list')
        leak = False
        for r in returns_of(tl):
            v = resolve(tl, r.value, cfg_of(tl).node_of(r))[0] if r.value is not None else None
            if isinstance(v, ast.Name) and tl.params and v.id == tl.params[0] and \
                    not any(d.kind != 'param' for d in flow_of(tl).defs_of(v.id)):
                # the argument itself is handed back: harmless for a plain list / tuple / set of the caller (setters copy), but a
                # task-list facade would be iterated live
                plain = False
                for at, pol in [(x, q) for t0, p0 in cfg_of(tl).conditions(cfg_of(tl).node_of(r)) for x, q in facts.split_conj(t0, p0)]:
                    at, pol = strip_not(at, pol)
                    m = match(f"type({v.id}) is $c", at) or match(f"isinstance({v.id}, $c)", at)
                    if m and pol:
                        cs = m['c'].elts if isinstance(m['c'], ast.Tuple) else [m['c']]
                        if all(isinstance(c0, ast.Name) and c0.id in ('list', 'tuple', 'set', 'frozenset') for c0 in cs):
                            plain = True
                if plain:
                    o.undecided(tl, r, r, "_to_list returns the caller's own list object without copying it")
                else:
                    o.refute(tl, r, r, f"_to_list returns its argument `{v.id}` itself on a path that task-list objects (x.children, "
                                       f"x.predecessors ...) can take: a setter handed such an object clears / relinks the live list "
                                       f"it iterates (`t.children = t.children` empties the children)")
                leak = True
                continue
            if isinstance(v, ast.Attribute) and v.attr in REL_FIELDS:
                o.refute(tl, r, r, f"_to_list returns `{src(v)}`, the live backing list of a task-list object, instead of a new list: a "
                                   f"setter that is handed a facade (`t.children = t.children`, `a.predecessors = b.predecessors`) then "
                                   f"clears / relinks the very list it iterates, and stores an alias of another task's list")
                leak = True
        if not leak:
            if _fresh_returns(tl):
                o.site(tl, tl.node, '_to_list builds a new list on every path')
            else:
                o.undecided(tl, tl.node, '_to_list', "_to_list does not visibly build a new list on every path (a returned argument / "
                                                     "facade would be iterated while the setter edits it)")
        # (5) a query (`lst(key, **kw)`) hands out a NEW list of the matches: remove_all walks that result while every single
        #     removal edits the live list (the children setter clears and refills the shared object)
        if prog.has_func('task._ImmutableTaskList.__call__'):
            qf = a.fn('task._ImmutableTaskList.__call__')
            for r in returns_of(qf):
                v = resolve(qf, r.value, cfg_of(qf).node_of(r))[0] if r.value is not None else None
                inner = v
                mw = match("_ImmutableTaskList($x)", v) if v is not None else None
                if mw:
                    inner = mw['x']
                if inner is not None and (a.is_self(qf, inner) or a.is_self_attr(qf, inner, LIST)):
                    o.refute(qf, r, r, f"the list query returns `{src(v)}`, i.e. the live list itself instead of a new list of the matches: "
                                       f"remove_all() iterates the result while each removal rewrites that very list in place, so every "
                                       f"second match survives (and is reported as removed)")
        # (3) every call of the publish callback hands over the facade's own `_list`
        for m in prog.cls('_ChildrenList').methods.values():
            for e in a.events(m):
                if e.kind != 'publish':
                    continue
                c = e.node
                v = resolve(m, c.args[0], e.cn)[0] if len(c.args) == 1 else None
                if v is not None and a.is_self_attr(m, v, LIST):
                    o.site(m, c, src(c))
                else:
                    o.refute(m, c, c, f"{m.name} hands `{src(c.args[0]) if c.args else ''}` to the publish callback: the task's children "
                                      f"list becomes a different object than the one shared with the facades")
    ctx.guarded(o, run)


# @@SECTIONS@@
