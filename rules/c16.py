"""C16 - accepted mutations have exactly their documented effect and touch nothing else.   (DESIGN.md section 5, C16)

Decided structurally (clauses that are necessary for the behaviour; the spec side of every comparison is the property
text / the docstrings' documented primitive, written down in the tables of this module):

  wiring            list facades hold their owner and the owner's raw list by reference; WBS.roots is the sentinel's
                    children facade
  delegation.*      every facade method / operator is the documented primitive with the documented argument shape and
                    nothing else (no other relation event in the function, effect on every accepted path)
  setters_exact.*   children.setter clears the shared list in place, releases the old children, re-parents the given
                    tasks in the given order; dependency setters store a copy of the given list, unlink self from the
                    mirror list of every old element (deciding on task identity) and append self to the mirror of
                    every new element
  append_last       parent.setter removes from the old parent first, then appends (never inserts) to the new one
  move_index        before -> insert(index(before), t), after -> insert(index(after) + 1, t), index taken after the
                    removal, tasks in argument order
  sort              one stable sorted(list, key=attribute getter, reverse=reverse), published through the setter
  reorder           picks (first match per id, ids order) + rest (old order) built on a copy, published
  insert_index      anchor = element `index` of the list without the task (None past the end), taken before attaching;
                    attach; move before the anchor
  frame             raw relation writes of every mutator only on self / argument elements / old elements / old parent /
                    new parent, and only the documented field of each; effectful callees are mutators of the same set
  subtree_follows   re-parenting never writes __children (or the dependency lists) of the moved task

Not decided: the resulting list for all states; sort on missing / incomparable attributes; the stale `_list` snapshot
that a second facade object keeps after sort()/reorder() rebound the owner's list through the publish callback (the
rule only demands that children.setter itself never rebinds); duplicate ids handed to reorder (C01/C15); whether
validation precedes mutation (C15); _attach/_detach bookkeeping beyond "only the moved subtree" (C11).
"""
from __future__ import annotations

import ast

from sa import facts
from sa.cfg import cfg_of
from sa.effects import Effects
from sa.flow import flow_of, Expander
from sa.model import walk_no_nested, src, unmangle
from sa.pat import match, same
from typing import Dict, List, Optional, Set, Tuple
from sa.cfg import Node
from sa.model import Func

REL_FIELDS = {'_Task__parent', '_Task__children', '_Task__predecessors', '_Task__successors', '_Task__wbs', '_list'}
REL_PROPS = {'parent', 'children', 'predecessors', 'successors', 'roots'}


# ---------------------------------------------------------------------------------------------------------------------
# events
class Ev:
    """something in a function that changes (or may change) relation state"""
    __slots__ = ('kind', 'node', 'cn', 'name', 'w', 'ci', 'stmt', 'used')

    def __init__(self, kind, node, cn, name, w=None, ci=None, stmt=None):
        self.kind = kind      # write | setter | call | publish
        self.node = node      # ast node (statement of a write, target Attribute of a setter store, Call of a call)
        self.cn = cn          # cfg node
        self.name = name      # field (write) / property (setter) / callee name (call)
        self.w = w
        self.ci = ci
        self.stmt = stmt      # for setter stores: the Assign / AugAssign statement
        self.used = False

    def __repr__(self):
        return f"<Ev {self.kind} {self.name} {src(self.node)[:50]}>"


def stmt_of_target(f: Func, target: ast.AST):
    for n in walk_no_nested(f.node):
        if isinstance(n, ast.Assign):
            for t in n.targets:
                for x in ([t] if not isinstance(t, (ast.Tuple, ast.List)) else t.elts):
                    if x is target:
                        return n
        elif isinstance(n, (ast.AugAssign, ast.AnnAssign)) and n.target is target:
            return n
    return None


def events(A, f: Func) -> List[Ev]:
    """relation events of f: raw writes to relation fields, property-setter stores of relation properties, calls of
    package functions that (transitively) write relation fields, calls of the facade's publish callback"""
    cfg = cfg_of(f)
    out: List[Ev] = []
    for w in A.eff.direct_writes(f):
        if w.root == 'fresh' and w.field not in REL_FIELDS:
            continue
        if w.field in REL_FIELDS:
            out.append(Ev('write', w.node, cfg.node_containing(w.node) or cfg.node_of(w.node), w.field, w=w))
    for ci in A.cg.calls_in(f):
        if ci.kind == 'setter' and ci.name in REL_PROPS:
            st = stmt_of_target(f, ci.node)
            out.append(Ev('setter', ci.node, cfg.node_containing(ci.node), ci.name, ci=ci, stmt=st))
        elif ci.kind in ('call', 'operator', 'ctor') and isinstance(ci.node, (ast.Call, ast.BinOp)):
            if isinstance(ci.node, ast.Call) and isinstance(ci.node.func, ast.Attribute) and \
                    ci.node.func.attr.endswith('__setter'):
                out.append(Ev('publish', ci.node, cfg.node_containing(ci.node), ci.name, ci=ci))
                continue
            hit = False
            for t in ci.targets:
                if t is None:
                    continue
                if any(fld in REL_FIELDS for fld, _ in A.eff.writes_star(t)):
                    hit = True
            if hit:
                out.append(Ev('call', ci.node, cfg.node_containing(ci.node), ci.name, ci=ci))
    return out


# ---------------------------------------------------------------------------------------------------------------------
# paths
def opposite_branch(cfg, test: ast.AST, pol: bool) -> Optional[Node]:
    for n in cfg.nodes:
        if n.kind == 'branch' and n.test is test and n.polarity == (not pol):
            return n
    return None


def is_rejection(cfg, test: ast.AST, pol: bool) -> bool:
    """the other outcome of the test never reaches a normal exit (it only raises): the test is a validation guard"""
    b = opposite_branch(cfg, test, pol)
    if b is None:
        return False
    return not cfg.can_reach(b, cfg.exit)


def path_atoms(A, f: Func, cn: Node, since: Optional[Node] = None) -> List[Tuple[ast.AST, bool, ast.AST]]:
    """conditions (expanded, split into atoms) under which cfg node cn runs, without validation guards.
    `since`: only branches dominated by that node (conditions inside a loop body)"""
    cfg = cfg_of(f)
    ex = A.X(f)
    out = []
    dom = cfg.dominators().get(cn.id, set())
    for i in sorted(dom):
        b = cfg.nodes[i]
        if b.kind != 'branch' or isinstance(b.test, (ast.For, ast.AsyncFor)):
            continue
        if since is not None and not (cfg.dominates(since, b) and b is not since):
            continue
        if is_rejection(cfg, b.test, b.polarity):
            continue
        tn = cfg.node_containing(b.test)
        t = ex.expand(b.test, tn)
        for a, p in facts.split_conj(t, b.polarity):
            a, p = strip_not(a, p)
            out.append((a, p, b.test))
    return out


def strip_not(a: ast.AST, p: bool) -> Tuple[ast.AST, bool]:
    while isinstance(a, ast.UnaryOp) and isinstance(a.op, ast.Not):
        a, p = a.operand, not p
    return a, p


def covered(cfg, event_nodes: List[Node]) -> Set[int]:
    """ids of nodes through which a path certainly meets an event: the events themselves and the headers of for
    loops whose every iteration meets one (a loop over an empty sequence has nothing to do)"""
    ids = {n.id for n in event_nodes if n is not None}
    changed = True
    while changed:
        changed = False
        for h in cfg.nodes:
            if h.kind != 'for' or h.id in ids:
                continue
            bt = next((s for s in h.succ if s.kind == 'branch' and s.polarity), None)
            if bt is None:
                continue
            # every walk from the element branch meets a covered node before leaving the body or coming back
            seen, todo, ok = set(), [bt], True
            while todo and ok:
                n = todo.pop()
                for s in n.succ:
                    if s.id in ids or s.id in seen:
                        continue
                    if s is h or not cfg.dominates(bt, s):
                        if s is cfg.raise_exit:
                            continue
                        ok = False
                        break
                    seen.add(s.id)
                    todo.append(s)
            if ok:
                ids.add(h.id)
                changed = True
    return ids


def escaping_path(cfg, avoid: Set[int]) -> bool:
    """is there a path entry -> normal exit that meets no node of `avoid`"""
    seen, todo = {cfg.entry.id}, [cfg.entry]
    while todo:
        n = todo.pop()
        for s in n.succ:
            if s.id in seen or s.id in avoid:
                continue
            if s is cfg.exit:
                return True
            seen.add(s.id)
            todo.append(s)
    return False


def returns_of(f: Func) -> List[ast.Return]:
    return [n for n in walk_no_nested(f.node) if isinstance(n, ast.Return)]


def enclosing_for_binding(f: Func, cn: Node, name: str) -> Optional[ast.For]:
    """innermost enclosing for statement whose target is the plain name"""
    cfg = cfg_of(f)
    best = None
    for fo in cfg.enclosing_fors(cn):
        if isinstance(fo.target, ast.Name) and fo.target.id == name:
            best = fo
    return best


# ---------------------------------------------------------------------------------------------------------------------
# values
def resolve(f: Func, e: ast.AST, at: Optional[Node]) -> Tuple[ast.AST, Optional[Node], int]:
    """follow plain local names to their unique plain assignment: (expression, cfg node that evaluated it, hops)"""
    fl = flow_of(f)
    hops = 0
    while isinstance(e, ast.Name) and at is not None and hops < 8:
        d = fl.unique_def(e.id, at)
        if d is None or d.kind != 'assign' or d.value is None or d.node is at:
            break
        e, at = d.value, d.node
        hops += 1
    return e, at, hops


def norm_list(e: ast.AST):
    """abstract list term:
        ('filter', source, var, [conds])   [v for v in source if ..] / list(source) / source.copy() / source[:]
        ('concat', [terms])                a + b / a.__add__(b) / [*a, *b, x]
        ('lit', [elts])                    [x, y]
        ('ref', expr)                      anything else (the object itself, no copy)
        ('mapped', comp)                   comprehension whose element is not the loop variable
    """
    if isinstance(e, ast.ListComp):
        if len(e.generators) == 1 and isinstance(e.generators[0].target, ast.Name) and not e.generators[0].is_async:
            g = e.generators[0]
            if isinstance(e.elt, ast.Name) and e.elt.id == g.target.id:
                return ('filter', g.iter, g.target.id, list(g.ifs))
        return ('mapped', e)
    if isinstance(e, ast.Call):
        fn = e.func
        if isinstance(fn, ast.Name) and fn.id == 'list' and len(e.args) == 1 and not e.keywords:
            inner = norm_list(e.args[0])
            if inner[0] in ('filter', 'concat', 'lit'):
                return inner
            if isinstance(e.args[0], ast.GeneratorExp):
                g = e.args[0]
                if len(g.generators) == 1 and isinstance(g.generators[0].target, ast.Name) and \
                        isinstance(g.elt, ast.Name) and g.elt.id == g.generators[0].target.id:
                    return ('filter', g.generators[0].iter, g.elt.id, list(g.generators[0].ifs))
                return ('mapped', g)
            return ('filter', e.args[0], None, [])
        if isinstance(fn, ast.Attribute) and fn.attr == 'copy' and not e.args:
            return ('filter', fn.value, None, [])
        if isinstance(fn, ast.Attribute) and fn.attr == '__add__' and len(e.args) == 1:
            return ('concat', _parts(fn.value) + _parts(e.args[0]))
    if isinstance(e, ast.Subscript) and isinstance(e.slice, ast.Slice) and e.slice.lower is None and \
            e.slice.upper is None and e.slice.step is None:
        return ('filter', e.value, None, [])
    if isinstance(e, ast.BinOp) and isinstance(e.op, ast.Add):
        return ('concat', _parts(e.left) + _parts(e.right))
    if isinstance(e, ast.List):
        if any(isinstance(x, ast.Starred) for x in e.elts):
            parts = []
            for x in e.elts:
                if isinstance(x, ast.Starred):
                    parts.append(('filter', x.value, None, []))
                else:
                    if parts and parts[-1][0] == 'lit':
                        parts[-1][1].append(x)
                    else:
                        parts.append(('lit', [x]))
            return ('concat', parts)
        return ('lit', list(e.elts))
    return ('ref', e)


def _parts(e):
    t = norm_list(e)
    if t[0] == 'concat':
        return t[1]
    return [t]


def is_plain_copy(t) -> bool:
    return t[0] == 'filter' and not t[3]


def list_source(t) -> Optional[ast.AST]:
    """expression whose elements make up the term, for copies and the object itself"""
    if t[0] == 'ref':
        return t[1]
    if t[0] == 'filter':
        # a copy of a copy is a copy
        inner = norm_list(t[1])
        if inner[0] == 'filter' and not inner[3]:
            return list_source(inner)
        return t[1]
    return None


def cmp_kind(cond: ast.AST, var: str, other: ast.AST) -> str:
    """how a filter condition relates the loop variable to `other` (a task expression):
        'ne'   var != other / var is not other / not var == other       (keeps everything but the task)
        'eq'   var == other / var is other                              (keeps only the task)
        'id-ne' / 'id-eq'   the same comparisons made on .id
        '?'    anything else"""
    c, pol = strip_not(cond, True)
    if not (isinstance(c, ast.Compare) and len(c.ops) == 1):
        return '?'
    l, op, r = c.left, c.ops[0], c.comparators[0]

    def is_var(x):
        return isinstance(x, ast.Name) and x.id == var

    def is_var_id(x):
        return isinstance(x, ast.Attribute) and x.attr == 'id' and is_var(x.value)

    def is_other_id(x):
        return isinstance(x, ast.Attribute) and x.attr == 'id' and same(x.value, other)

    if isinstance(op, (ast.NotEq, ast.IsNot)):
        neg = True
    elif isinstance(op, (ast.Eq, ast.Is)):
        neg = False
    else:
        return '?'
    if not pol:
        neg = not neg
    if (is_var(l) and same(r, other)) or (is_var(r) and same(l, other)):
        return 'ne' if neg else 'eq'
    if (is_var_id(l) and is_other_id(r)) or (is_var_id(r) and is_other_id(l)):
        return 'id-ne' if neg else 'id-eq'
    return '?'


def mentions_id(e: ast.AST) -> bool:
    for n in ast.walk(e):
        if isinstance(n, ast.Attribute) and n.attr in ('id', '_Task__id'):
            return True
        if isinstance(n, ast.Call) and isinstance(n.func, ast.Name) and n.func.id in ('hash',):
            return True
    return False


def const_of(e: ast.AST):
    if isinstance(e, ast.Constant):
        return e.value
    return '<non-constant>'


def names_in(e: ast.AST) -> Set[str]:
    return {n.id for n in ast.walk(e) if isinstance(n, ast.Name)}


# ---------------------------------------------------------------------------------------------------------------------
LIST = '_list'
# documented relation edited by each facade class / operator (property text, docstrings)
LINK_FACADES = {'_PredecessorsList': 'predecessors', '_SuccessorsList': 'successors'}
TASK_OPERATORS = {'__floordiv__': 'children', '__lshift__': 'predecessors', '__rshift__': 'successors'}
LIST_OPERATORS = {'__lshift__': 'predecessors', '__rshift__': 'successors'}
DEP = {'predecessors': ('_Task__predecessors', '_Task__successors'),
       'successors': ('_Task__successors', '_Task__predecessors')}
ROOT = '_WBS__root'


class A:
    """per run analysis state"""

    def __init__(self, ctx):
        self.ctx = ctx
        self.prog = ctx.prog
        self.cg = ctx.cg
        self.typer = ctx.typer
        self.eff = Effects(ctx.prog, ctx.typer, ctx.cg)
        self._x = {}
        self._ev = {}
        self.owner_attr = {}

    def X(self, f) -> Expander:
        if f.qual not in self._x:
            self._x[f.qual] = Expander(self.prog, f, self.typer)
        return self._x[f.qual]

    def xp(self, f, e, at=None):
        return self.X(f).expand(e, at)

    def events(self, f):
        if f.qual not in self._ev:
            self._ev[f.qual] = events(self, f)
        return self._ev[f.qual]

    def fn(self, q):
        return self.prog.func(q)

    # ------------------------------------------------------------ small recognisers
    def is_self(self, f, e):
        return isinstance(e, ast.Name) and e.id == f.self_name

    def is_self_attr(self, f, e, attr):
        return isinstance(e, ast.Attribute) and e.attr == attr and self.is_self(f, e.value)

    def is_owner(self, f, e):
        """`self.<owner field>` inside a facade class"""
        oa = self.owner_attr.get(f.cls)
        return oa is not None and self.is_self_attr(f, e, oa)

    def is_param(self, f, e, i):
        return isinstance(e, ast.Name) and len(f.params) > i and e.id == f.params[i]

    def leftovers(self, o, f, what):
        """every relation event of f that no clause recognised contradicts `touches nothing else`"""
        n = 0
        for ev in self.events(f):
            if not ev.used:
                n += 1
                o.refute(f, ev.node, ev.node, f"{what}: additional relation effect `{src(ev.node)[:80]}` next to the "
                                              f"documented one")
        return n

    def must_pass(self, o, f, evs, noop_nodes, what):
        """every accepted path (entry to a normal exit) meets one of the events, except the documented no-op exits"""
        cfg = cfg_of(f)
        cov = covered(cfg, [e.cn for e in evs])
        cov |= {n.id for n in noop_nodes if n is not None}
        if escaping_path(cfg, cov):
            o.refute(f, f.node, what, f"{what}: some accepted path returns without performing the documented effect "
                                      f"(the effect is conditional or skipped)")
            return False
        return True


def check(ctx):
    a = A(ctx)
    ctx.assume("Task defines no __eq__/__hash__: == and `in` on tasks decide object identity")
    ctx.assume("term expansion assumes no aliasing writes between a definition and its use inside one function")
    for part in PARTS:
        part(a, ctx)


PARTS = []


def part(fn):
    PARTS.append(fn)
    return fn


# @@SECTIONS@@
