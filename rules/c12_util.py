"""Helpers of the C12 rules (critical path): relation-path evaluation of list building code, fold (max/min accumulator)
recognition, linear terms, emptiness tests.  Pure ast work on top of sa.cfg / sa.flow; nothing is executed.
"""
from __future__ import annotations

import ast
from typing import Dict, List, Optional, Set, Tuple

from sa import facts
from sa.cfg import cfg_of
from sa.flow import flow_of, Expander
from sa.model import Func, unmangle, walk_no_nested, src
from sa.pat import match, same


class Unknown(Exception):
    """the construct is outside the fragment the evaluator understands (-> UNDECIDED, never a verdict)"""

    def __init__(self, node, msg):
        super().__init__(msg)
        self.node, self.msg = node, msg


# ---------------------------------------------------------------------------------------------------------------------
# linear terms
def lin(e: ast.AST, sign: int = 1) -> Optional[List[Tuple[int, str]]]:
    """signed atoms of a +/- expression (sorted); numeric zero constants vanish; None if a product etc. is involved"""
    out: List[Tuple[int, str]] = []

    def rec(x, s):
        if isinstance(x, ast.BinOp) and isinstance(x.op, (ast.Add, ast.Sub)):
            rec(x.left, s)
            rec(x.right, s if isinstance(x.op, ast.Add) else -s)
        elif isinstance(x, ast.UnaryOp) and isinstance(x.op, ast.USub):
            rec(x.operand, -s)
        elif isinstance(x, ast.UnaryOp) and isinstance(x.op, ast.UAdd):
            rec(x.operand, s)
        elif isinstance(x, ast.Constant) and isinstance(x.value, (int, float)) and not isinstance(x.value, bool) \
                and x.value == 0:
            return
        else:
            out.append((s, src(x)))
    rec(e, sign)
    # cancel opposite atoms
    res: List[Tuple[int, str]] = []
    for s, t in out:
        if (-s, t) in res:
            res.remove((-s, t))
        else:
            res.append((s, t))
    return sorted(res)


def lin_text(l) -> str:
    return ' '.join(('+ ' if s > 0 else '- ') + t for s, t in l) if l else '0'


# ---------------------------------------------------------------------------------------------------------------------
# emptiness / leaf tests
_CMP = {ast.Gt: '>', ast.GtE: '>=', ast.Lt: '<', ast.LtE: '<=', ast.Eq: '==', ast.NotEq: '!='}
_FLIP = {'>': '<', '>=': '<=', '<': '>', '<=': '>=', '==': '==', '!=': '!='}


def empty_test(test: ast.AST, pol: bool = True) -> Optional[Tuple[ast.AST, bool]]:
    """(collection expr, is_empty) when `test` (with polarity) says the collection is / is not empty:
    len(X) == 0 | len(X) > 0 | len(X) != 0 | len(X) >= 1 | len(X) < 1 | 0 < len(X) | not X | X | len(X) | X == []"""
    while isinstance(test, ast.UnaryOp) and isinstance(test.op, ast.Not):
        test, pol = test.operand, not pol
    if isinstance(test, ast.Compare) and len(test.ops) == 1:
        l, op, r = test.left, _CMP.get(type(test.ops[0])), test.comparators[0]
        if op is None:
            return None
        if match("len($x)", r) and facts.const_num(l) is not None:
            l, r, op = r, l, _FLIP[op]
        m = match("len($x)", l)
        c = facts.const_num(r)
        if m and c is not None:
            table = {('==', 0): True, ('<=', 0): True, ('<', 1): True, ('>', 0): False, ('!=', 0): False, ('>=', 1): False}
            v = table.get((op, c))
            if v is None:
                return None
            return m['x'], (v if pol else not v)
        if isinstance(r, ast.List) and not r.elts and op in ('==', '!='):
            return l, ((op == '==') if pol else (op != '=='))
        return None
    m = match("len($x)", test)
    if m:
        return m['x'], (not pol)
    if isinstance(test, ast.Attribute):
        return test, (not pol)
    return None


CHILD_ATTRS = ('children', 'all_children')


def bool_ifexp(t: ast.AST) -> ast.AST:
    """conditional expressions with a constant truth value in one branch as and / or (a folded predicate helper
    `if c: return False; return d` reads `False if c else d`):  False if c else d = not c and d | True if c else d = c or d |
    d if c else False = c and d | d if c else True = not c or d"""
    if isinstance(t, ast.UnaryOp) and isinstance(t.op, ast.Not):
        x = bool_ifexp(t.operand)
        return t if x is t.operand else ast.copy_location(ast.UnaryOp(op=ast.Not(), operand=x), t)
    if isinstance(t, ast.BoolOp):
        vs = [bool_ifexp(v) for v in t.values]
        return t if all(a is b for a, b in zip(vs, t.values)) else ast.copy_location(ast.BoolOp(op=t.op, values=vs), t)
    if isinstance(t, ast.IfExp):
        c, a, b = bool_ifexp(t.test), bool_ifexp(t.body), bool_ifexp(t.orelse)
        neg = ast.UnaryOp(op=ast.Not(), operand=c)
        for x, other, when_true in ((a, b, True), (b, a, False)):
            if isinstance(x, ast.Constant) and isinstance(x.value, bool):
                guard = (neg if when_true else c)           # the condition under which `other` decides
                if x.value:
                    out = ast.BoolOp(op=ast.Or(), values=[c if when_true else neg, other])
                else:
                    out = ast.BoolOp(op=ast.And(), values=[guard, other])
                return ast.fix_missing_locations(ast.copy_location(out, t))
    return t


def leaf_test(test: ast.AST, pol: bool = True) -> Optional[Tuple[ast.AST, bool]]:
    """(task expr, is_leaf) for an emptiness test of X.children / X.all_children"""
    et = empty_test(test, pol)
    if et:
        x = et[0]
        for _ in range(2):          # len(list(t.children)) == 0
            if isinstance(x, ast.Call) and isinstance(x.func, ast.Name) and x.func.id in ('list', 'tuple') and len(x.args) == 1:
                x = x.args[0]
        if isinstance(x, ast.Attribute) and x.attr in CHILD_ATTRS:
            return x.value, et[1]
    return None


def none_test(test: ast.AST, pol: bool = True) -> Optional[Tuple[ast.AST, bool]]:
    """(expr, is_none)"""
    while isinstance(test, ast.UnaryOp) and isinstance(test.op, ast.Not):
        test, pol = test.operand, not pol
    m = match("$x is None", test)
    if m:
        return m['x'], pol
    m = match("$x is not None", test)
    if m:
        return m['x'], not pol
    return None


# ---------------------------------------------------------------------------------------------------------------------
# relation paths
RELS = ('predecessors', 'successors', 'parent', 'all_parents', 'children', 'all_children', 'all_predecessors',
        'all_successors')
PASS_THROUGH = ('list', 'tuple', 'set', 'sorted', 'reversed', 'frozenset', 'iter', '_to_list', '_ImmutableTaskList',
                '_unique_tasks', 'deque', 'id')

Paths = Dict[tuple, List[frozenset]]   # relation path (ops applied to the task parameter) -> DNF of the conditions
UNCOND = [frozenset()]


def _simplify(alts: List[frozenset]) -> List[frozenset]:
    alts = list(dict.fromkeys(alts))
    if any(not a for a in alts):
        return list(UNCOND)
    singles = {next(iter(a)) for a in alts if len(a) == 1}
    for c in singles:
        neg = c[4:] if c.startswith('not ') else 'not ' + c
        if neg in singles:
            return list(UNCOND)
    return alts


def _union(*ps: Paths) -> Paths:
    out: Paths = {}
    for p in ps:
        for k, c in p.items():
            out[k] = _simplify(out.get(k, []) + list(c))
    return out


def _ext(p: Paths, op: str) -> Paths:
    return {k + (op,): list(c) for k, c in p.items()}


def _cond(p: Paths, text: str) -> Paths:
    return {k: [a | {text} for a in c] for k, c in p.items()}


def _discharge(p: Paths, text: str, prefixes) -> Paths:
    """drop condition `text` from the paths that run through one of `prefixes` (a `x is not None` test of the very
    object the elements are drawn from only says that there is something to draw)"""
    out: Paths = {}
    for k, c in p.items():
        if any(k[:len(pre)] == pre for pre in prefixes):
            c = _simplify([a - {text} for a in c])
        out[k] = c
    return out


def unconditional(c: List[frozenset]) -> bool:
    return any(not a for a in c)


def cond_text(c: List[frozenset]) -> str:
    return ' | '.join(' and '.join(sorted(a)) for a in c)


def normalise(p: Paths) -> Paths:
    """algebra of the leaf filters:  nonleaf?;children = children | leaf?;children = {} | leaves;leaves = leaves |
    X;leaf? + X;all_children;leaf? = X;leaves | X;leaf? + X;children;leaves = X;leaves |
    parent;R + parent;all_parents;R = all_parents;R"""
    cur: Paths = {}
    for k, c in p.items():
        ops = list(k)
        dead = False
        changed = True
        while changed and not dead:
            changed = False
            for i in range(len(ops) - 1):
                x, y = ops[i], ops[i + 1]
                if x == 'nonleaf?' and y in CHILD_ATTRS:
                    del ops[i]
                    changed = True
                    break
                if (x in ('leaf?', 'leaves') and y in CHILD_ATTRS) or (x in ('leaf?', 'leaves') and y == 'nonleaf?') \
                        or (x == 'nonleaf?' and y == 'leaf?') or (x == 'leaf?' and y == 'nonleaf?'):
                    dead = True
                    break
                if x in ('leaves', 'leaf?') and y in ('leaves', 'leaf?'):
                    ops[i:i + 2] = [x]          # leaves of a leaf is the leaf; a leaf filter after leaves is void
                    changed = True
                    break
        if not dead:
            cur = _union(cur, {tuple(ops): c})
    changed = True
    while changed:
        changed = False
        for k in list(cur):
            if 'leaf?' in k:
                i = k.index('leaf?')
                pre, post = k[:i], k[i + 1:]
                for alt in (pre + ('all_children', 'leaf?') + post, pre + ('children', 'leaves') + post,
                            pre + ('all_children', 'leaves') + post):
                    if alt in cur:
                        c1, c2 = cur.pop(k), cur.pop(alt)
                        both = list(UNCOND) if unconditional(c1) and unconditional(c2) else \
                            [x | y for x in c1 for y in c2]
                        cur = _union(cur, {pre + ('leaves',) + post: both})
                        changed = True
                        break
                if changed:
                    break
            if k[:1] == ('parent',) and k[1:2] != ('all_parents',):
                alt = ('parent', 'all_parents') + k[1:]
                if alt in cur:
                    c1, c2 = cur.pop(k), cur.pop(alt)
                    both = list(UNCOND) if unconditional(c1) and unconditional(c2) else [x | y for x in c1 for y in c2]
                    cur = _union(cur, {('all_parents',) + k[1:]: both})
                    changed = True
                    break
    return cur


def path_text(k: tuple, root: str = 'task') -> str:
    t = root
    for op in k:
        if op == 'leaves':
            t = f"leaves({t})"
        elif op.endswith('?'):
            t = f"{t}[{op[:-1]}]"
        elif op.startswith('@'):
            t = f"{t}.{op[1:]}"
        else:
            t = f"{t}.{op}"
    return t


FILTER_MARK = 'filter:'
OWN_MARK = 'own:'


def is_own_atom(text: str) -> bool:
    return text.startswith(OWN_MARK) or text.startswith('not ' + OWN_MARK)



def is_filter_atom(text: str) -> bool:
    return text.startswith(FILTER_MARK) or text.startswith('not ' + FILTER_MARK)


def element_filter(atom: ast.AST, bound: Set[str]) -> Optional[str]:
    """text of `atom` when it is a test of the elements themselves: every name in it is a bound element variable (besides
    len/abs/..) and it reads an attribute of one - `len(t.successors) == 0`, `t.estimate`, `t.end is not None`.
    Leaf tests (t.children) are handled before and never get here."""
    names = [n for n in ast.walk(atom) if isinstance(n, ast.Name)]
    free = [n.id for n in names if n.id not in bound and n.id not in ('len', 'abs', 'bool', 'float', 'int', 'max', 'min')]
    if free or not names:
        return None
    if not any(isinstance(n, ast.Attribute) and isinstance(n.value, ast.Name) and n.value.id in bound for n in ast.walk(atom)):
        return None
    if any(isinstance(n, (ast.Call,)) and not (isinstance(n.func, ast.Name) and n.func.id in ('len', 'abs', 'bool', 'float', 'int',
                                                                                              'max', 'min'))
           for n in ast.walk(atom)):
        return None
    return src(atom)[:70]


def _mutates_param(h: Func, params: List[str]) -> bool:
    """h extends one of the named parameters in place (append / extend / += ..) or hands it on to itself"""
    if not isinstance(h.node, (ast.FunctionDef, ast.AsyncFunctionDef)):
        return False
    for n in walk_no_nested(h.node):
        if isinstance(n, ast.AugAssign) and isinstance(n.target, ast.Name) and n.target.id in params:
            return True
        if isinstance(n, ast.Call) and isinstance(n.func, ast.Attribute) and isinstance(n.func.value, ast.Name) \
                and n.func.value.id in params and n.func.attr in ('append', 'extend', 'add', 'update', 'insert', 'appendleft',
                                                                    'remove', 'pop', 'clear', 'sort', 'reverse', 'discard'):
            return True
    return False


class RelEval:
    """relation-path evaluation of the task collections built inside one function, relative to its task parameter.

    Every collection valued expression is abstracted to the set of relation paths it may draw elements from
    (`task.all_parents.predecessors.leaves`), loops and comprehensions being unions over their variable; contributions
    under a leaf / non-leaf test of a loop variable carry the filter, contributions under other tests are marked
    conditional."""

    def __init__(self, ctx, f: Func, task_param: str, leaf_helper_of):
        self.ctx, self.f, self.task_param = ctx, f, task_param
        self.cfg = cfg_of(f)
        self.flow = flow_of(f)
        self.leaf_helper_of = leaf_helper_of      # callable(call node, func) -> bool
        self._busy: Set[str] = set()
        # explicit-stack traversals: `cur = pending.pop()` -> {pending: cur}
        self._worklists: Dict[str, str] = {}
        for n in walk_no_nested(f.node):
            if isinstance(n, ast.Assign) and len(n.targets) == 1 and isinstance(n.targets[0], ast.Name):
                m = match("$w.pop($*a)", n.value) or match("$w.popleft()", n.value)
                if m and isinstance(m['w'], ast.Name):
                    self._worklists[m['w'].id] = n.targets[0].id
        self._at = None

    # ---- expressions
    def ev(self, e: ast.AST, env: Dict[str, Paths], at) -> Paths:
        if isinstance(e, ast.Name):
            if e.id in env:
                return env[e.id]
            if e.id == self.task_param:
                if all(d.kind in ('param', 'entry') for d in self.flow.defs_of(e.id)):
                    return {(): list(UNCOND)}
                return self.var(e.id, at, e)        # `while parent is not None: ..; parent = parent.parent`
            return self.var(e.id, at, e)
        if isinstance(e, ast.Attribute) and e.attr in RELS:
            return _ext(self.ev(e.value, env, at), e.attr)
        if isinstance(e, ast.Attribute) and not e.attr.startswith('_'):
            return _ext(self.ev(e.value, env, at), '@' + e.attr)       # a scalar attribute of the tasks (key)
        if isinstance(e, (ast.List, ast.Tuple, ast.Set)):
            out: Paths = {}
            for x in e.elts:
                out = _union(out, self.ev(x.value if isinstance(x, ast.Starred) else x, env, at))
            return out
        if isinstance(e, ast.BinOp) and isinstance(e.op, (ast.Add, ast.BitOr)):
            return _union(self.ev(e.left, env, at), self.ev(e.right, env, at))
        if isinstance(e, (ast.ListComp, ast.GeneratorExp, ast.SetComp)):
            env2 = dict(env)
            pend = []
            for g in e.generators:
                if not isinstance(g.target, ast.Name):
                    raise Unknown(e, "comprehension with a tuple target")
                it = self.ev(g.iter, env2, at)
                env2[g.target.id] = it
                for c in g.ifs:
                    pend += self._apply_cond(c, True, env2)
            return self._finish(self.ev(e.elt, env2, at), pend, env2, at)
        if isinstance(e, ast.BoolOp) and isinstance(e.op, ast.Or) and len(e.values) == 2:
            # `[c for c in p.all_children if not c.children] or [p]`: the leaves below p, or p itself when there are none -
            # the first operand is empty exactly when p has no children
            a, b = self.ev(e.values[0], env, at), self.ev(e.values[1], env, at)
            out: Paths = {}
            ok = bool(a) and bool(b)
            for kb, cb in b.items():
                hits = [ka for ka in a if ka[:len(kb)] == kb and ka[len(kb):] in (('all_children', 'leaf?'), ('all_children', 'leaves'),
                                                                                   ('children', 'leaves'))]
                if len(hits) != 1 or not unconditional(cb) or not unconditional(a[hits[0]]):
                    ok = False
                    break
                out = _union(out, {kb + ('leaves',): list(UNCOND)})
            if ok and len(a) == len(b):
                return out
            raise Unknown(e, f"`{src(e)[:80]}`: an `or` between two collections the rule cannot relate")
        if isinstance(e, ast.IfExp):
            ea, eb = dict(env), dict(env)
            pa = self._apply_cond(e.test, True, ea)
            pb = self._apply_cond(e.test, False, eb)
            return _union(self._finish(self.ev(e.body, ea, at), pa, ea, at),
                          self._finish(self.ev(e.orelse, eb, at), pb, eb, at))
        if isinstance(e, ast.Call):
            fn = e.func
            name = fn.id if isinstance(fn, ast.Name) else (unmangle(fn.attr) if isinstance(fn, ast.Attribute) else None)
            if isinstance(fn, ast.Name) and name in PASS_THROUGH and len(e.args) == 1:
                if any(k.arg == 'key' for k in e.keywords) or not e.keywords:
                    return self.ev(e.args[0], env, at)
            if isinstance(fn, ast.Attribute) and name == 'copy' and not e.args:
                return self.ev(fn.value, env, at)
            if isinstance(fn, ast.Name) and name in ('list', 'set', 'tuple', 'frozenset', 'deque') and not e.args and not e.keywords:
                return {}
            if len(e.args) == 1 and not e.keywords and self.leaf_helper_of(e, self.f):
                return _ext(self.ev(e.args[0], env, at), 'leaves')
            if len(e.args) == 1 and not e.keywords:
                hp = self.helper_paths(e)
                if hp is not None:
                    base_p = self.ev(e.args[0], env, at)
                    out: Paths = {}
                    for k1, c1 in base_p.items():
                        for k2, c2 in hp.items():
                            both = list(UNCOND) if unconditional(c1) and unconditional(c2) else [x | y for x in c1 for y in c2]
                            out = _union(out, {k1 + k2: both})
                    return out
        raise Unknown(e, f"collection expression `{src(e)[:80]}` is not a relation / list idiom the rule understands")

    def _apply_cond(self, test: ast.AST, pol: bool, env: Dict[str, Paths]) -> list:
        """narrow env by a condition: leaf tests of a bound variable / the task parameter become filters; every other
        atom is returned as a pending condition (text, tested expr of an `is not None` test or None)"""
        pend = []
        for a, p in facts.split_conj(bool_ifexp(test), pol):
            lt = leaf_test(a, p)
            if lt and isinstance(lt[0], ast.Name) and lt[0].id not in env and lt[0].id in self._worklists.values() \
                    and self._at is not None:
                env[lt[0].id] = self.var(lt[0].id, self._at, a)        # the popped element of an explicit-stack traversal
            if lt and isinstance(lt[0], ast.Name) and (lt[0].id in env or lt[0].id == self.task_param):
                cur = env.get(lt[0].id) or {(): list(UNCOND)}
                env[lt[0].id] = _ext(cur, 'leaf?' if lt[1] else 'nonleaf?')
                continue
            ft = element_filter(a, set(env))
            if ft is not None:
                # a test of the bound tasks themselves narrows what is drawn - unless it only says that the very collection
                # (object) the elements are drawn from is not empty (not None): `if t.predecessors: for p in t.predecessors`
                nt, et = none_test(a, p), empty_test(a, p)
                x = nt[0] if nt and not nt[1] else (et[0] if et and not et[1] else None)
                pend.append(((FILTER_MARK if p else 'not ' + FILTER_MARK) + ft, x))
                continue
            own = self._own_task_test(a)
            if own is not None:
                # a test of the task's own links / amounts (not of the hierarchy it hangs in); a plain "there is something to draw"
                # test of the collection itself is discharged like a filter
                nt, et = none_test(a, p), empty_test(a, p)
                x = nt[0] if nt and not nt[1] else (et[0] if et and not et[1] else None)
                pend.append(((OWN_MARK if p else 'not ' + OWN_MARK) + own, x))
                continue
            nt = none_test(a, p)
            if nt:
                base = f"{src(nt[0])} is None"
                pend.append((base if nt[1] else 'not ' + base, None if nt[1] else nt[0]))
                continue
            pend.append((src(a)[:70] if p else 'not ' + src(a)[:70], None))
        return pend

    def _own_task_test(self, a: ast.AST) -> Optional[str]:
        """text of `a` when (locals expanded) it only talks about the task parameter and reads one of its own relations or
        amounts - predecessors, successors, estimate, spent, .. - but not the hierarchy (parent / all_parents / children)"""
        x = a
        tn = self.cfg.node_containing(a)
        if tn is not None:
            try:
                x = Expander(self.ctx.prog, self.f, self.ctx.typer, inline=False).expand(a, tn, stop={self.task_param})
            except Exception:       # noqa: BLE001
                x = a
        bound = {n.id for c in ast.walk(x) if isinstance(c, ast.comprehension) for n in ast.walk(c.target) if isinstance(n, ast.Name)}
        free = {n.id for n in ast.walk(x) if isinstance(n, ast.Name)} - bound - {'len', 'any', 'all', 'abs', 'bool', 'max', 'min', 'sum'}
        if free != {self.task_param}:
            return None
        reads = {n.attr for n in ast.walk(x) if isinstance(n, ast.Attribute) and isinstance(n.value, ast.Name)
                 and n.value.id == self.task_param}
        if not reads - {'parent', 'all_parents', 'children', 'all_children'}:
            return None
        return src(a)[:70]

    def _finish(self, res: Paths, pend: list, env, at) -> Paths:
        for text, x in pend:
            res = _cond(res, text)
            if x is not None:
                try:
                    pre = list(self.ev(x, env, at))
                except Unknown:
                    pre = []
                # `if task.parent is not None:` in front of a walk over task.all_parents: no parent, no ancestors
                pre += [k[:-1] + ('all_parents',) for k in pre if k and k[-1] == 'parent']
                if pre:
                    res = _discharge(res, text, pre)
        return res

    # ---- helpers of the same module that build a task collection from one task parameter
    _HELPER_BUSY: Set[str] = set()

    def helper_paths(self, call: ast.Call) -> Optional[Paths]:
        resolve = getattr(self.leaf_helper_of, 'resolve', None)
        h = resolve(call, self.f) if resolve else None
        if h is None or h.module is not self.f.module or isinstance(h.node, ast.Lambda) or h.qual == self.f.qual:
            return None
        params = [p for p in h.params if p != h.self_name and p != 'cls']
        if len(params) != 1 or h.qual in RelEval._HELPER_BUSY:
            return None
        RelEval._HELPER_BUSY.add(h.qual)
        try:
            sub = RelEval(self.ctx, h, params[0], self.leaf_helper_of)
            cfg = cfg_of(h)
            rets = [n for n in walk_no_nested(h.node) if isinstance(n, ast.Return) and n.value is not None]
            yields = [n for n in walk_no_nested(h.node) if isinstance(n, (ast.Yield, ast.YieldFrom))]
            total: Paths = {}
            if yields and not rets:
                for y in yields:            # a generator: the union of what it yields
                    yn = cfg.node_containing(y)
                    if yn is None or y.value is None:
                        return None
                    total = _union(total, sub.contribution(yn, ast.List(elts=[y.value], ctx=ast.Load()) if isinstance(y, ast.Yield)
                                                           else y.value, None))
                return total
            if not rets or yields:
                return None
            for r in rets:
                total = _union(total, sub.contribution(cfg.node_of(r), r.value, None))
            return total
        finally:
            RelEval._HELPER_BUSY.discard(h.qual)

    def acc_helper_paths(self, h: Func, elem_p: str, acc_p: str, node) -> Paths:
        """what the accumulator-passing helper `h(elem, acc)` appends to the list it is handed, as relation paths from its element
        parameter.  The list parameter may only be appended to / extended and handed on to h itself at the same position; a
        recursive helper must come out as the leaf collection under the assumption that its recursive call collects the leaves
        (the same induction as for list-returning leaf helpers)."""
        if h.qual in RelEval._HELPER_BUSY:
            raise Unknown(node, f"accumulator helper {h.name} is being evaluated already")
        RelEval._HELPER_BUSY.add(h.qual)
        try:
            sub = RelEval(self.ctx, h, elem_p, self.leaf_helper_of)
            cfg = cfg_of(h)
            resolve = getattr(self.leaf_helper_of, 'resolve', None)
            hparams = [p for p in h.params if p != h.self_name and p != 'cls']
            total: Paths = {}
            recursive = False
            accounted = set()
            for n in walk_no_nested(h.node):
                if isinstance(n, ast.Return) and n.value is not None:
                    if isinstance(n.value, ast.Name) and n.value.id == acc_p:
                        accounted.add(id(n.value))
                    elif not (isinstance(n.value, ast.Constant) and n.value.value is None):
                        raise Unknown(node, f"accumulator helper {h.name} also returns a value")
                elif isinstance(n, ast.AugAssign) and isinstance(n.target, ast.Name) and n.target.id == acc_p:
                    if not isinstance(n.op, ast.Add):
                        raise Unknown(node, f"{h.name}: `{src(n)[:60]}` is not an extension of the list")
                    accounted.add(id(n.target))
                    total = _union(total, sub.contribution(cfg.node_of(n), n.value, None))
                elif isinstance(n, ast.Call):
                    fn = n.func
                    if isinstance(fn, ast.Attribute) and isinstance(fn.value, ast.Name) and fn.value.id == acc_p:
                        if fn.attr not in ('append', 'extend', 'add', 'update') or len(n.args) != 1 or n.keywords:
                            raise Unknown(node, f"{h.name}: `{src(n)[:60]}` is not an append / extend of the list")
                        accounted.add(id(fn.value))
                        total = _union(total, sub.contribution(cfg.node_containing(n), n.args[0], None))
                        continue
                    idx = [i for i, a in enumerate(n.args) if isinstance(a, ast.Name) and a.id == acc_p]
                    if idx:
                        t = resolve(n, h) if resolve else None
                        if t is not h or len(idx) != 1 or n.keywords or len(n.args) != 2 or len(hparams) != 2 \
                                or hparams[idx[0]] != acc_p:
                            raise Unknown(node, f"{h.name}: the list is handed on by `{src(n)[:60]}`, which the rule does not follow")
                        accounted.add(id(n.args[idx[0]]))
                        recursive = True
                        total = _union(total, _ext(sub.contribution(cfg.node_containing(n), n.args[1 - idx[0]], None), 'leaves'))
            for n in walk_no_nested(h.node):
                if isinstance(n, ast.Name) and n.id == acc_p and id(n) not in accounted:
                    raise Unknown(node, f"{h.name}: the list parameter `{acc_p}` is also used in a way the rule does not follow "
                                        f"(line {getattr(n, 'lineno', '?')})")
            got = normalise(total)
            if not got:
                raise Unknown(node, f"accumulator helper {h.name} appends nothing the rule understands")
            cache = getattr(self.leaf_helper_of, 'cache', None)
            if recursive:
                uncond = all(unconditional(c) for c in got.values())
                if uncond and set(got) in ({('leaf?',), ('children', 'leaves')}, {('leaves',)}):
                    if cache is not None:
                        cache[h.qual] = (True, ', '.join(path_text(k, elem_p) for k in sorted(got)) + f" appended to `{acc_p}`")
                    return {('leaves',): list(UNCOND)}
                raise Unknown(node, f"recursive accumulator helper {h.name} collects "
                                    f"{', '.join(path_text(k, elem_p) for k in sorted(got))}: not the leaves below its argument in a "
                                    f"form the rule can verify")
            return got
        finally:
            RelEval._HELPER_BUSY.discard(h.qual)

    # ---- local collection variables
    def var(self, name: str, at, node) -> Paths:
        if name in self._busy:
            raise Unknown(node, f"`{name}` is defined in terms of itself in a way the rule does not understand")
        self._busy.add(name)
        try:
            return self._var(name, at, node)
        finally:
            self._busy.discard(name)

    def _var(self, name: str, at, node) -> Paths:
        fl = self.flow
        start = fl.reaching(name, at) if at is not None else fl.defs_of(name)
        if not start:
            raise Unknown(node, f"`{name}` has no local definition")
        if len(start) == 1 and start[0].kind == 'assign' and self._self_filter(name, start[0].value) is not None:
            return self._filtered(name, start[0], at, node)
        seen, work, contribs = set(), list(start), []
        closure = False
        base: Paths = {}
        while work:
            d = work.pop()
            if id(d) in seen:
                continue
            seen.add(id(d))
            if d.kind == 'param' and name == self.task_param:
                base = {(): list(UNCOND)}
                continue
            if d.kind == 'assign' and d.value is not None:
                mw = match("$w.pop($*a)", d.value) or match("$w.popleft()", d.value)
                if mw and isinstance(mw['w'], ast.Name) and self._worklists.get(mw['w'].id) == name:
                    base = _union(base, self._worklist_elements(mw['w'].id, name, node))
                    continue
                if match(f"{name}.parent", d.value):
                    closure = True      # t = t.parent inside a loop: climbs the ancestors
                    work += fl.reaching(name, d.node)
                    continue
                contribs.append((d.node, d.value, False))
            elif d.kind == 'aug' and isinstance(d.stmt.op, (ast.Add, ast.BitOr)):
                contribs.append((d.node, d.stmt.value, False))
                work += fl.reaching(name, d.node)
            else:
                raise Unknown(node, f"`{name}` is bound by a {d.kind} definition, not by list building code")
        for n in walk_no_nested(self.f.node):
            if isinstance(n, ast.Call) and isinstance(n.func, ast.Attribute) and isinstance(n.func.value, ast.Name) \
                    and n.func.value.id == name and n.func.attr in ('append', 'extend', 'add', 'update', 'insert'):
                cn = self.cfg.node_containing(n)
                if cn is None or not self.cfg.is_reachable(cn):
                    continue
                if at is not None and not (cn is at or self.cfg.can_reach(cn, at)):
                    continue
                if at is not None and self.cfg.can_reach(at, cn) and cn is not at:
                    raise Unknown(n, f"`{name}` is extended while it is being read")
                arg = n.args[-1] if n.args else None
                if arg is None:
                    raise Unknown(n, "mutation without argument")
                contribs.append((cn, arg, n.func.attr in ('append', 'add', 'insert')))
        out: Paths = dict(base)
        for cn, expr, single in contribs:
            out = _union(out, self.contribution(cn, expr, at, single))
        # accumulator passing: `self.__collect_leaves(p, name)` as a statement, the helper appends to the list it is handed
        for n in walk_no_nested(self.f.node):
            if not (isinstance(n, ast.Expr) and isinstance(n.value, ast.Call)):
                continue
            c = n.value
            idx = [i for i, a in enumerate(c.args) if isinstance(a, ast.Name) and a.id == name]
            if not idx and not any(isinstance(k.value, ast.Name) and k.value.id == name for k in c.keywords):
                continue
            cn = self.cfg.node_of(n)
            if cn is None or not self.cfg.is_reachable(cn) or cn is at:
                continue
            if at is not None and not self.cfg.can_reach(cn, at):
                continue
            resolve = getattr(self.leaf_helper_of, 'resolve', None)
            h = resolve(c, self.f) if resolve else None
            if h is None or h.module is not self.f.module or isinstance(h.node, ast.Lambda):
                continue            # not a function of the calculator's module (logging, len, ..): reads the list only
            hparams = [p for p in h.params if p != h.self_name and p != 'cls']
            if not _mutates_param(h, hparams):
                continue
            if at is not None and self.cfg.can_reach(at, cn):
                raise Unknown(n, f"`{name}` is extended (by `{src(c.func)}`) while it is being read")
            if h.qual == self.f.qual or len(idx) != 1 or c.keywords or len(hparams) != 2 or len(c.args) != 2 \
                    or any(isinstance(a, ast.Starred) for a in c.args):
                raise Unknown(n, f"`{name}` is handed to `{src(c.func)}`, which fills it in a way the rule does not follow")
            acc_p, elem_p = hparams[idx[0]], hparams[1 - idx[0]]
            hp = self.acc_helper_paths(h, elem_p, acc_p, n)
            base_p = self.contribution(cn, c.args[1 - idx[0]], at)
            for k1, c1 in base_p.items():
                for k2, c2 in hp.items():
                    both = list(UNCOND) if unconditional(c1) and unconditional(c2) else [x | y for x in c1 for y in c2]
                    out = _union(out, {k1 + k2: both})
        if closure:
            out = _union(out, _ext(out, 'all_parents'))
        return out

    @staticmethod
    def _self_filter(name: str, value) -> Optional[ast.comprehension]:
        """the generator of `[p for p in name if ..]` (a list / set comprehension or list(<generator>) that keeps some elements of
        the very list it is assigned to)"""
        v = value
        if isinstance(v, ast.Call) and isinstance(v.func, ast.Name) and v.func.id in ('list', 'tuple', 'sorted') and len(v.args) == 1 \
                and not v.keywords:
            v = v.args[0]
        if isinstance(v, (ast.ListComp, ast.GeneratorExp, ast.SetComp)) and len(v.generators) == 1:
            g = v.generators[0]
            if isinstance(g.iter, ast.Name) and g.iter.id == name and isinstance(g.target, ast.Name) and isinstance(v.elt, ast.Name) \
                    and v.elt.id == g.target.id and g.ifs:
                return g
        return None

    def _filtered(self, name: str, d, at, node) -> Paths:
        """`name = [p for p in name if C]`: what the list held before, narrowed by C.  A membership test against a local collection
        drawn from the (transitive) successors of the listed tasks themselves (`id(p) not in chained`, chained filled from
        `q.all_successors for q in name`) drops the tasks that come AFTER another one of the list: a test of the drawn tasks."""
        key = f"filter:{name}:{id(d)}"
        if key in self._busy:
            raise Unknown(node, f"`{name}` is filtered in a loop over itself")
        g = self._self_filter(name, d.value)
        if at is not None and any(
                isinstance(n, ast.Call) and isinstance(n.func, ast.Attribute) and isinstance(n.func.value, ast.Name)
                and n.func.value.id == name and n.func.attr in ('append', 'extend', 'add', 'update', 'insert')
                and self.cfg.node_containing(n) is not None and self.cfg.can_reach(d.node, self.cfg.node_containing(n))
                and self.cfg.can_reach(self.cfg.node_containing(n), at) for n in walk_no_nested(self.f.node)):
            raise Unknown(node, f"`{name}` is extended again after it was filtered")
        self._busy.add(key)
        self._busy.discard(name)
        try:
            inner = self._var(name, d.node, node)
            env = {g.target.id: inner}
            pend = []
            for c in g.ifs:
                for a, p in facts.split_conj(bool_ifexp(c), True):
                    t, pol = a, p
                    while isinstance(t, ast.UnaryOp) and isinstance(t.op, ast.Not):
                        t, pol = t.operand, not pol
                    done = False
                    if isinstance(t, ast.Compare) and len(t.ops) == 1 and isinstance(t.ops[0], (ast.In, ast.NotIn)) \
                            and isinstance(t.comparators[0], ast.Name):
                        member = pol if isinstance(t.ops[0], ast.In) else not pol
                        x = t.left
                        if isinstance(x, ast.Call) and isinstance(x.func, ast.Name) and x.func.id == 'id' and len(x.args) == 1:
                            x = x.args[0]
                        if isinstance(x, ast.Attribute) and x.attr == 'id':
                            x = x.value
                        if isinstance(x, ast.Name) and x.id == g.target.id:
                            try:
                                sp = normalise({(k[:-1] if k and k[-1] == '@id' else k): c_
                                                for k, c_ in self.var(t.comparators[0].id, d.node, t).items()})
                            except Unknown:
                                sp = None
                            inner_n = set(normalise(inner))
                            if sp and all(k and k[-1] in ('all_successors', 'successors') and k[:-1] in inner_n for k in sp):
                                if not member:
                                    shown = (f"{src(a)[:40]} - `{t.comparators[0].id}` holds {path_text(sorted(sp)[0], self.task_param)[:70]}, so of two "
                                             f"chained predecessors the LATER, binding one is dropped and the earlier kept")
                                    pend.append(((FILTER_MARK if p else 'not ' + FILTER_MARK) + shown, None))
                                    done = True
                    if not done:
                        pend += self._apply_cond(a, p, env)
            return self._finish(dict(env[g.target.id]), pend, env, d.node)
        finally:
            self._busy.discard(key)
            self._busy.add(name)

    def _worklist_elements(self, wl: str, cur: str, node) -> Paths:
        """everything an explicit-stack traversal `pending = [task]; while pending: cur = pending.pop(); ..
        pending.extend(cur.children)` ever pops: the seeds and, when the children of the popped element are pushed back, all
        their descendants"""
        fl = self.flow
        ex = Expander(self.ctx.prog, self.f, self.ctx.typer, inline=False)
        seeds: Paths = {}
        pushes_children = False

        def strip(a):
            for _ in range(4):
                if isinstance(a, ast.Call) and isinstance(a.func, ast.Name) and a.func.id in ('reversed', 'list', 'tuple', 'sorted',
                                                                                             'iter') and len(a.args) == 1:
                    a = a.args[0]
            return a

        def feed(cn, arg, single):
            nonlocal seeds, pushes_children
            try:
                ax = ex.expand(arg, cn, stop={cur, self.task_param})
            except Exception:       # noqa: BLE001
                ax = arg
            ax = strip(ax)
            if any(isinstance(x, ast.Name) and x.id == cur for x in ast.walk(ax)):
                if not single and match(f"{cur}.children", ax):
                    pushes_children = True
                    return
                raise Unknown(arg, f"`{src(arg)[:60]}` is pushed on the work list `{wl}`: only the children of the popped element "
                                   f"are understood")
            seeds = _union(seeds, self.contribution(cn, arg, None, single))

        for d in fl.defs_of(wl):
            if d.kind == 'assign' and d.value is not None:
                feed(d.node, d.value, False)
            elif d.kind == 'aug' and isinstance(d.stmt.op, ast.Add):
                feed(d.node, d.stmt.value, False)
            else:
                raise Unknown(node, f"work list `{wl}` is bound by a {d.kind} definition")
        for n in walk_no_nested(self.f.node):
            if isinstance(n, ast.Call) and isinstance(n.func, ast.Attribute) and isinstance(n.func.value, ast.Name) \
                    and n.func.value.id == wl and n.func.attr in ('append', 'extend', 'insert', 'appendleft', 'extendleft'):
                cn = self.cfg.node_containing(n)
                if cn is None or not self.cfg.is_reachable(cn) or not n.args:
                    continue
                feed(cn, n.args[-1], n.func.attr in ('append', 'insert', 'appendleft'))
        if not seeds:
            raise Unknown(node, f"work list `{wl}` has no understood initial content")
        return _union(seeds, _ext(seeds, 'all_children')) if pushes_children else seeds

    @staticmethod
    def _nonempty_name(t: ast.AST) -> Optional[str]:
        for pat in ("len($x) > 0", "len($x) != 0", "len($x) >= 1", "0 < len($x)", "len($x)", "$x"):
            m = match(pat, t)
            if m and isinstance(m['x'], ast.Name):
                return m['x'].id
        return None

    def contribution(self, cn, expr: ast.AST, ref, single: bool = False) -> Paths:
        """paths of `expr` evaluated at cfg node cn: enclosing for-loops bind their targets, conditions of cn that do not
        also hold at the reference node `ref` are applied"""
        env: Dict[str, Paths] = {}
        for fo in self.cfg.enclosing_fors(cn):
            if not isinstance(fo.target, ast.Name):
                raise Unknown(fo, "for loop with a tuple target")
            env[fo.target.id] = self.ev(fo.iter, env, self.cfg.node_of(fo))
        base = {(id(t), p) for t, p in self.cfg.conditions(ref)} if ref is not None else set()
        pend = []
        for t, p in self.cfg.conditions(cn):
            if (id(t), p) in base:
                continue
            is_while_test = any(isinstance(w, ast.While) and w.test is t for w in walk_no_nested(self.f.node))
            if not p and is_while_test:
                continue        # exit condition of a while loop that lies behind: says nothing about what the loop collected
            if p and is_while_test and self._nonempty_name(t) in self._worklists:
                continue        # `while pending:` of an explicit-stack traversal: holds whenever something is popped
            if self._worklists:
                # conditions on a local alias of the popped element (`children = list(cur.children); if len(children) == 0`)
                tn = self.cfg.node_containing(t)
                try:
                    t = Expander(self.ctx.prog, self.f, self.ctx.typer, inline=False).expand(
                        t, tn, stop=set(env) | set(self._worklists.values()) | {self.task_param}) if tn is not None else t
                except Exception:       # noqa: BLE001
                    pass
            self._at = cn
            pend += self._apply_cond(t, p, env)
        return self._finish(self.ev(expr, env, cn), pend, env, cn)


# ---------------------------------------------------------------------------------------------------------------------
# fold recognition
class Fold:
    def __init__(self):
        self.op = None            # 'max' | 'min'
        self.term = None          # expanded element term
        self.loop = None          # ast.For | comprehension
        self.var = None           # loop variable name
        self.iter = None          # expanded iterable
        self.init = None          # init expression (ast) or None
        self.default = None       # value used when the loop body never ran (ast) or None
        self.acc = None
        self.defs = []            # in-loop cfg nodes defining the accumulator
        self.store = None
        self.falsy = None         # ast of a first-element test done by truthiness of the accumulator (`acc or T`, `if not acc`)


def _is_inf(e: ast.AST) -> Optional[int]:
    t = src(e).replace(' ', '')
    if t in ("float('inf')", 'float("inf")', 'math.inf', 'inf'):
        return 1
    if t in ("float('-inf')", 'float("-inf")', '-math.inf', "-float('inf')", '-inf'):
        return -1
    return None


def recognise_fold(ctx, f: Func, store_stmt: ast.stmt, value: ast.AST) -> Fold:
    """value stored by `store_stmt` as a max/min fold over one loop; raises Unknown"""
    prog = ctx.prog
    cfg, fl = cfg_of(f), flow_of(f)
    ex = Expander(prog, f, ctx.typer)
    fo = Fold()
    fo.store = store_stmt
    sn = cfg.node_of(store_stmt)
    # `D if acc is None else acc` / `acc if acc is not None else D`: the sink value as a conditional expression
    if isinstance(value, ast.IfExp):
        nt = none_test(value.test, True)
        if nt and isinstance(nt[0], ast.Name):
            when_none, other = (value.body, value.orelse) if nt[1] else (value.orelse, value.body)
            if isinstance(other, ast.Name) and other.id == nt[0].id:
                fo.default = ex.expand(when_none, sn)
                value = other
    if isinstance(value, ast.IfExp) and fo.default is None:
        # `min(L) if len(L) > 0 else D` / `D if not L else min(L)`: the value for a node without links as a conditional expression
        et = empty_test(value.test, True)
        if et is None:
            t_, pol_ = value.test, True
            while isinstance(t_, ast.UnaryOp) and isinstance(t_.op, ast.Not):
                t_, pol_ = t_.operand, not pol_
            if isinstance(t_, (ast.Name, ast.ListComp)):
                et = (t_, not pol_)             # `if bounds` / `if not bounds`
        if et:
            when_empty, other = (value.body, value.orelse) if et[1] else (value.orelse, value.body)
            xo, xc = ex.expand(other, sn), ex.expand(et[0], sn)
            if isinstance(xo, ast.Call) and isinstance(xo.func, ast.Name) and xo.func.id in ('max', 'min') and len(xo.args) == 1 \
                    and not xo.keywords and same(xo.args[0], xc):
                fo.default = ex.expand(when_empty, sn)
                return _fold_expr(xo, fo, value)
    if not isinstance(value, ast.Name):
        v = ex.expand(value, sn)
        return _fold_expr(v, fo, value)
    acc = value.id
    ds = fl.defs_of(acc)
    if len(ds) == 1 and ds[0].kind == 'assign':
        return _fold_expr(ex.expand(ds[0].value, ds[0].node), fo, ds[0].value)
    fo.acc = acc
    loop = None
    for d in ds:
        if d.kind != 'assign' or d.value is None:
            raise Unknown(d.stmt, f"accumulator `{acc}` is bound by a {d.kind} definition")
        fors = cfg.enclosing_fors(d.node)
        if fors:
            if loop is not None and fors[-1] is not loop:
                raise Unknown(d.stmt, f"accumulator `{acc}` is updated in two different loops")
            loop = fors[-1]
    if loop is None or not isinstance(loop.target, ast.Name):
        raise Unknown(store_stmt, f"accumulator `{acc}` is not updated inside a for loop over the links")
    hdr = cfg.node_of(loop)
    fo.loop, fo.var, fo.iter = loop, loop.target.id, ex.expand(loop.iter, hdr)
    for d in ds:
        fors = cfg.enclosing_fors(d.node)
        conds = [(t, p) for t, p in cfg.conditions(d.node)]
        if fors and fors[-1] is loop:
            val = ex.expand(d.value, d.node, stop={acc})
            # `T if acc is None else op(acc, T)`: first element and fold in one conditional expression
            if isinstance(val, ast.IfExp):
                nt = none_test(val.test, True)
                if nt and isinstance(nt[0], ast.Name) and nt[0].id == acc:
                    first_v, rest_v = (val.body, val.orelse) if nt[1] else (val.orelse, val.body)
                    mm = None
                    for opn in ('max', 'min'):
                        mm = match(f"{opn}({acc}, $t)", rest_v) or match(f"{opn}($t, {acc})", rest_v)
                        if mm:
                            if not same(mm['t'], first_v):
                                raise Unknown(d.stmt, "first-element term differs from the folded term")
                            _set_op(fo, opn, mm['t'], d.stmt)
                            break
                    if mm:
                        fo.defs.append(d.node)
                        continue
            m = None
            for opn in ('max', 'min'):
                m = match(f"{opn}({acc}, $t)", val) or match(f"{opn}($t, {acc})", val)
                if m:
                    _set_op(fo, opn, m['t'], d.stmt)
                    break
            if m:
                fo.defs.append(d.node)
                continue
            # `op(acc or T, T)` / `op(acc if acc else T, T)`: first element and fold in one, the "unset" test by truthiness
            fm = None
            for opn in ('max', 'min'):
                for pat in (f"{opn}({acc} or $t, $u)", f"{opn}($u, {acc} or $t)", f"{opn}({acc} if {acc} else $t, $u)",
                            f"{opn}($u, {acc} if {acc} else $t)", f"{opn}($t if not {acc} else {acc}, $u)",
                            f"{opn}($u, $t if not {acc} else {acc})"):
                    fm = match(pat, val)
                    if fm and same(fm['t'], fm['u']):
                        _set_op(fo, opn, fm['t'], d.stmt)
                        fo.falsy = next((a for a in val.args if not same(a, fm['t'])), val)
                        break
                    fm = None
                if fm:
                    break
            if fm:
                fo.defs.append(d.node)
                continue
            # plain `acc = T` : first element (under `acc is None`) or comparison form (under T > acc / T < acc),
            # or both at once (`if acc is None or T < acc`)
            own = [(t, p) for t, p in conds if cfg.can_reach(cfg.node_containing(t) or hdr, hdr) and
                   cfg.dominates(hdr, cfg.node_containing(t) or hdr)]

            def classify(t, p):
                nt = none_test(t, p)
                if nt and isinstance(nt[0], ast.Name) and nt[0].id == acc and nt[1]:
                    return {'first'}
                if isinstance(t, ast.Name) and t.id == acc and not p:
                    falsy_tests.append(t)           # `if not acc:` - "unset" decided by truthiness
                    return {'first'}
                if isinstance(t, ast.UnaryOp) and isinstance(t.op, ast.Not):
                    return classify(t.operand, not p)
                if isinstance(t, ast.BoolOp) and ((isinstance(t.op, ast.Or) and p) or (isinstance(t.op, ast.And) and not p)):
                    ks = set()
                    for v in t.values:
                        k = classify(v, p)
                        if not k:
                            return set()
                        ks |= k
                    return ks
                if isinstance(t, ast.Compare) and len(t.ops) == 1:
                    tn = cfg.node_containing(t)
                    l, r = ex.expand(t.left, tn, stop={acc}), ex.expand(t.comparators[0], tn, stop={acc})
                    o = _CMP.get(type(t.ops[0]))
                    if o in ('>', '>=', '<', '<='):
                        if not p:
                            o = {'>': '<=', '>=': '<', '<': '>=', '<=': '>'}[o]
                        if isinstance(r, ast.Name) and r.id == acc and same(l, val):
                            return {'max' if o in ('>', '>=') else 'min'}
                        if isinstance(l, ast.Name) and l.id == acc and same(r, val):
                            return {'min' if o in ('>', '>=') else 'max'}
                return set()

            kinds = set()
            falsy_tests: list = []
            for t, p in own:
                kinds |= classify(t, p)
            if falsy_tests:
                fo.falsy = falsy_tests[0]
            ops = kinds & {'max', 'min'}
            if len(ops) == 1:
                kind = next(iter(ops))
            elif not ops and 'first' in kinds:
                kind = 'first'
            else:
                kind = None
            if kind == 'first':
                if fo.term is not None and not same(fo.term, val):
                    raise Unknown(d.stmt, "first-element term differs from the folded term")
                if fo.term is None:
                    fo.term = val
                fo.defs.append(d.node)
            elif kind in ('max', 'min'):
                _set_op(fo, kind, val, d.stmt)
                fo.defs.append(d.node)
            else:
                raise Unknown(d.stmt, f"update `{src(d.stmt)[:70]}` of the accumulator is not max/min(acc, term)")
        elif cfg.can_reach(d.node, hdr) and not cfg.can_reach(hdr, d.node):
            if fo.init is not None:
                raise Unknown(d.stmt, "two initialisations of the accumulator")
            fo.init = d.value
        elif cfg.can_reach(hdr, d.node):
            ok = False
            for t, p in conds:
                nt = none_test(t, p)
                if nt and isinstance(nt[0], ast.Name) and nt[0].id == acc and nt[1]:
                    ok = True
                et = empty_test(t, p)
                if et and et[1] and same(ex.expand(et[0], cfg.node_containing(t)), fo.iter):
                    ok = True
                # `if acc == math.inf:` / `if math.isinf(acc):` after a fold that started at infinity
                if fo.init is not None and _is_inf(fo.init) and p:
                    mi = match(f"{acc} == $i", t) or match(f"{acc} is $i", t) or match(f"$i == {acc}", t)
                    if mi and _is_inf(mi['i']) == _is_inf(fo.init):
                        ok = True
                    if match(f"math.isinf({acc})", t) or match(f"isinf({acc})", t):
                        ok = True
            if not ok:
                raise Unknown(d.stmt, "assignment to the accumulator after the loop is not under `acc is None` / empty test")
            if fo.default is not None:
                raise Unknown(d.stmt, "two default values")
            fo.default = ex.expand(d.value, d.node)
        else:
            raise Unknown(d.stmt, "definition of the accumulator unrelated to the loop")
    if fo.op is None or fo.term is None:
        raise Unknown(store_stmt, f"no max/min update of `{acc}` found")
    return fo


def _set_op(fo: Fold, op: str, term: ast.AST, stmt):
    if fo.op is not None and fo.op != op:
        raise Unknown(stmt, "accumulator mixes max and min")
    fo.op = op
    if fo.term is not None and not same(fo.term, term):
        raise Unknown(stmt, "accumulator folds two different terms")
    fo.term = term


def _fold_expr(v: ast.AST, fo: Fold, orig) -> Fold:
    """max([0] + [T for l in X]) | max((T for l in X), default=d) | max(0, *[..]) forms"""
    if not (isinstance(v, ast.Call) and isinstance(v.func, ast.Name) and v.func.id in ('max', 'min')):
        raise Unknown(orig, f"stored value `{src(v)[:80]}` is neither an accumulator nor a max/min expression")
    fo.op = v.func.id
    kws = {k.arg: k.value for k in v.keywords}
    if set(kws) - {'default'}:
        raise Unknown(orig, "max/min with a key function")
    if 'default' in kws:
        fo.default = kws['default']
    bare = ast.Call(func=v.func, args=[a.value if isinstance(a, ast.Starred) else a for a in v.args], keywords=[])
    args = facts.flatten_lattice(bare, fo.op) or []
    for a in args:
        parts = facts.comp_parts(a)
        if parts:
            if fo.loop is not None:
                raise Unknown(orig, "two comprehensions inside one max/min")
            elt, tgt, it, ifs = parts
            if ifs or not isinstance(tgt, ast.Name):
                raise Unknown(orig, "filtered comprehension inside max/min")
            fo.loop, fo.var, fo.iter, fo.term = a, tgt.id, it, elt
        elif fo.init is None:
            fo.init = a
        else:
            raise Unknown(orig, "more than one extra bound inside max/min")
    if fo.loop is None:
        raise Unknown(orig, "max/min does not range over the links of the node")
    return fo


def positive(e: ast.AST) -> Optional[bool]:
    """True: provably > 0, False: provably == 0 (or negative constant), None: unknown"""
    c = facts.const_num(e)
    if c is not None:
        return c > 0
    if isinstance(e, ast.BinOp) and isinstance(e.op, ast.Mult):
        a, b = positive(e.left), positive(e.right)
        if a is False or b is False:
            return False
        return True if (a and b) else None
    if isinstance(e, ast.BinOp) and isinstance(e.op, ast.Add):
        a, b = positive(e.left), positive(e.right)
        na, nb = nonneg(e.left), nonneg(e.right)
        if (a and nb) or (b and na):
            return True
        return None
    if isinstance(e, ast.BinOp) and isinstance(e.op, ast.Div):
        a, b = positive(e.left), positive(e.right)
        return True if (a and b) else None
    if isinstance(e, ast.Call) and isinstance(e.func, ast.Name) and e.func.id == 'max' and not e.keywords:
        if any(positive(a) for a in e.args):
            return True
        return None
    return None


def nonneg(e: ast.AST) -> bool:
    if positive(e):
        return True
    c = facts.const_num(e)
    if c is not None:
        return c >= 0
    if isinstance(e, ast.Call) and isinstance(e.func, ast.Name) and e.func.id == 'abs':
        return True
    return False


def bind_args(call: ast.Call, callee: Func) -> Dict[str, ast.AST]:
    """callee parameter -> argument expression (receiver excluded)"""
    params = list(callee.params)
    out = {}
    if callee.kind in ('method', 'getter', 'setter', 'classmethod') and params:
        # the receiver is bound too (`start.connect_to(end, units)`: self <- start)
        if callee.kind == 'method' and isinstance(call.func, ast.Attribute):
            out[params[0]] = call.func.value
        params = params[1:]
    for p, a in zip(params, call.args):
        if not isinstance(a, ast.Starred):
            out[p] = a
    for k in call.keywords:
        if k.arg in params:
            out[k.arg] = k.value
    # parameters left out at the call take their default (`connect(a, b)` with `units: float = 0`)
    a = getattr(callee.node, 'args', None)
    if a is not None and a.defaults and not any(isinstance(x, ast.Starred) for x in call.args):
        pos = [x.arg for x in a.posonlyargs + a.args]
        for name, dflt in zip(pos[len(pos) - len(a.defaults):], a.defaults):
            if name in params and name not in out:
                out[name] = dflt
    return out


# ---------------------------------------------------------------------------------------------------------------------
# hoisting of non-baseline helpers that are called inside an expression and consist of statements plus one final return
# (sa.normalize splices only calls that are a whole statement `x = h(..)` / `h(..)`, and value helpers without loops)
_SPLICE_STMTS = (ast.Assign, ast.AugAssign, ast.AnnAssign, ast.Expr, ast.For, ast.If, ast.Pass, ast.Raise, ast.Break,
                 ast.Continue)


class _Sub(ast.NodeTransformer):
    def __init__(self, env: Dict[str, ast.AST], ren: Dict[str, str]):
        self.env, self.ren = env, ren

    def visit_Name(self, n: ast.Name):
        if n.id in self.ren:
            return ast.copy_location(ast.Name(id=self.ren[n.id], ctx=n.ctx), n)
        if n.id in self.env and isinstance(n.ctx, ast.Load):
            import copy
            return ast.copy_location(copy.deepcopy(self.env[n.id]), n)
        return n

    def visit_Lambda(self, n):
        return n                    # helpers with lambdas capturing renamed names are rejected before


def _spliceable(h: Func) -> bool:
    fd = h.node
    if not isinstance(fd, ast.FunctionDef) or fd.decorator_list and h.kind not in ('static',):
        return False
    a = fd.args
    if a.vararg or a.kwarg or a.kwonlyargs:
        return False
    body = [s for s in fd.body if not (isinstance(s, ast.Expr) and isinstance(s.value, ast.Constant))]
    if len(body) < 2 or not isinstance(body[-1], ast.Return) or body[-1].value is None:
        return False
    for s in body[:-1]:
        for n in ast.walk(s):
            if isinstance(n, (ast.Return, ast.Yield, ast.YieldFrom, ast.Lambda, ast.FunctionDef, ast.ClassDef, ast.Try, ast.With,
                              ast.While, ast.Global, ast.Nonlocal, ast.NamedExpr)):
                return False
            if isinstance(n, ast.stmt) and not isinstance(n, _SPLICE_STMTS):
                return False
    for n in ast.walk(fd):
        if isinstance(n, ast.Attribute) and unmangle(n.attr) == h.name or isinstance(n, ast.Name) and n.id == h.name:
            return False            # recursive
    return True


def _path_to(root: ast.AST, target: ast.AST) -> Optional[List[ast.AST]]:
    if root is target:
        return [root]
    for ch in ast.iter_child_nodes(root):
        p = _path_to(ch, target)
        if p is not None:
            return [root] + p
    return None


def hoist_helpers(prog, hosts: List[Func], cls: str, mod, baseline: Set[str], rounds: int = 6) -> List[str]:
    """in-place: `S[.. self.h(args) ..]` -> `<body of h, locals renamed>; S[.. <returned expr> ..]` for helpers h of the same
    class / module that are not functions of the reference tree.  Only when the call is evaluated before anything else with
    an effect in S (no other call beside it), so the order of effects is kept.  Returns a log."""
    import copy
    log: List[str] = []
    counter = [0]

    def resolve(call: ast.Call, host: Func) -> Optional[Func]:
        fn = call.func
        h = None
        if isinstance(fn, ast.Attribute) and isinstance(fn.value, ast.Name) and fn.value.id in (host.self_name, cls):
            h = prog.find_method(cls, unmangle(fn.attr))
        elif isinstance(fn, ast.Name):
            h = prog.funcs.get(mod.name + '.' + fn.id)
        if h is None or h.module is not mod or h.qual in baseline or h.qual == host.qual or h.kind not in ('method', 'static', 'function'):
            return None
        return h if _spliceable(h) else None

    def first_exprs(st: ast.stmt) -> List[ast.AST]:
        if isinstance(st, (ast.Expr, ast.Assign, ast.AugAssign, ast.AnnAssign, ast.Return)):
            return [st.value] if st.value is not None else []
        if isinstance(st, ast.For):
            return [st.iter]
        if isinstance(st, ast.If):
            return [st.test]
        return []

    def try_stmt(stmts: List[ast.stmt], i: int, host: Func) -> bool:
        st = stmts[i]
        for root in first_exprs(st):
            calls = [n for n in ast.walk(root) if isinstance(n, ast.Call)]
            for c in calls:
                h = resolve(c, host)
                if h is None:
                    continue
                path = _path_to(root, c)
                if path is None or any(isinstance(p, (ast.Lambda, ast.IfExp, ast.BoolOp, ast.ListComp, ast.SetComp, ast.DictComp,
                                                      ast.GeneratorExp)) for p in path[:-1]):
                    continue
                inside = {id(n) for n in ast.walk(c)}
                anc = {id(p) for p in path}
                if any(id(o) not in inside and id(o) not in anc for o in calls):
                    continue
                if any(isinstance(n, ast.Call) for a in c.args for n in ast.walk(a)) or c.keywords or \
                        any(isinstance(a, ast.Starred) for a in c.args):
                    continue
                params = list(h.params)
                env: Dict[str, ast.AST] = {}
                if h.kind == 'method':
                    if host.self_name is None or not (isinstance(c.func, ast.Attribute) and isinstance(c.func.value, ast.Name)
                                                      and c.func.value.id == host.self_name):
                        continue
                    env[params[0]] = ast.Name(id=host.self_name, ctx=ast.Load())
                    params = params[1:]
                if len(params) != len(c.args):
                    continue
                if counter[0] >= 24:
                    return False
                counter[0] += 1
                tag = f"__s{counter[0]}"
                stored = {n.id for n in ast.walk(h.node) if isinstance(n, ast.Name) and isinstance(n.ctx, ast.Store)}
                pre: List[ast.stmt] = []
                ren = {n: n + tag for n in stored}
                for p, a in zip(params, c.args):
                    simple = isinstance(a, (ast.Name, ast.Constant)) or (isinstance(a, ast.Attribute) and isinstance(a.value, ast.Name))
                    if simple and p not in stored:
                        env[p] = a
                    else:
                        ren[p] = p + tag
                        pre.append(ast.copy_location(ast.Assign(targets=[ast.Name(id=p + tag, ctx=ast.Store())],
                                                                value=copy.deepcopy(a)), st))
                body = [s for s in h.node.body if not (isinstance(s, ast.Expr) and isinstance(s.value, ast.Constant))]
                tr = _Sub(env, ren)
                block = [tr.visit(copy.deepcopy(s)) for s in body[:-1]]
                value = tr.visit(copy.deepcopy(body[-1].value))
                # replace the call by the returned expression
                parent = path[-2] if len(path) > 1 else None
                if parent is None:
                    if isinstance(st, ast.For):
                        st.iter = value
                    elif isinstance(st, ast.If):
                        st.test = value
                    else:
                        st.value = value
                else:
                    done = False
                    for fld, old in ast.iter_fields(parent):
                        if old is c:
                            setattr(parent, fld, value)
                            done = True
                        elif isinstance(old, list):
                            for k, x in enumerate(old):
                                if x is c:
                                    old[k] = value
                                    done = True
                    if not done:
                        continue
                new = pre + block
                for s in new:
                    ast.fix_missing_locations(s)
                stmts[i:i] = new
                log.append(f"{host.qual}: hoisted helper {h.qual} out of `{type(st).__name__}` statement")
                return True
        return False

    def walk_body(stmts: List[ast.stmt], host: Func) -> bool:
        i = 0
        changed = False
        while i < len(stmts):
            st = stmts[i]
            if isinstance(st, (ast.FunctionDef, ast.ClassDef)):
                i += 1
                continue
            if try_stmt(stmts, i, host):
                changed = True
                continue            # the same statement again (it moved forward); further helpers may be inside
            for fld in ('body', 'orelse', 'finalbody'):
                sub = getattr(st, fld, None)
                if isinstance(sub, list) and sub and isinstance(sub[0], ast.stmt):
                    changed |= walk_body(sub, host)
            i += 1
        return changed

    for host in hosts:
        if not isinstance(host.node, ast.FunctionDef):
            continue
        for _ in range(rounds):
            if not walk_body(host.node.body, host):
                break
    return log
