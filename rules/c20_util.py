"""Helpers of rules/c20.py that the engine (sa/*) does not provide.

* emission counting (DESIGN 3.7 / R13): `Counter.summary(func, tables)` walks the statement tree of a function and
  returns, per event (`new_row`, `new_cell`, `append:<list>`, `call:<qual>`, rule specific events), a *count*: a map
  `loop key -> (lo, hi)` where the loop key is the tuple of the "length atoms" of the enclosing loops
  (`('fields',)` = once per element of `fields`).  Branches are merged by interval hull, sequences by addition, early
  `return`/`continue` are separate path kinds that are merged at the end, so "exactly once on every path" is
  `count == {(): (1, 1)}`.  A list built by `x = []` + `x.append(..)` and iterated later has the length of its append
  count (`for v in values: table.new_cell(v)`), a comprehension without filter the length of its iterable; helpers
  that receive the table are followed (so extracting a helper does not change the result).
* string part flattening (`parts_of`), case splitting on conditional expressions (`cases_of`), argument binding,
  test normalisation, accumulator (`res += ..`) recognition.
"""
from __future__ import annotations

import ast
import copy
import re
from typing import Dict, List, Optional, Tuple

from sa.cfg import cfg_of
from sa.flow import flow_of, Expander
from sa.model import Func, walk_no_nested, src, unmangle
from sa.pat import match, same, attr_path
from sa.types import base

Count = Dict[tuple, Tuple[int, int]]
Emis = Dict[str, Count]


# ----------------------------------------------------------------------------------------------------------- counts
def c_const(n: int) -> Count:
    return {(): (n, n)}


def c_add(a: Count, b: Count) -> Count:
    out = dict(a)
    for k, (lo, hi) in b.items():
        l0, h0 = out.get(k, (0, 0))
        out[k] = (l0 + lo, h0 + hi)
    return out


def c_hull(a: Count, b: Count) -> Count:
    out = {}
    for k in set(a) | set(b):
        l1, h1 = a.get(k, (0, 0))
        l2, h2 = b.get(k, (0, 0))
        out[k] = (min(l1, l2), max(h1, h2))
    return out


def c_scale(a: Count, atom: str, lo0: bool = False) -> Count:
    return {k + (atom,): ((0 if lo0 else lo), hi) for k, (lo, hi) in a.items()}


def c_lo0(a: Count) -> Count:
    return {k: (0, hi) for k, (lo, hi) in a.items()}


def c_norm(a: Count) -> Count:
    """drop (0,0) entries, sort key atoms (a product does not depend on the nesting order)"""
    out: Count = {}
    for k, v in a.items():
        if v == (0, 0):
            continue
        k2 = tuple(sorted(k))
        if k2 in out:
            out[k2] = (out[k2][0] + v[0], out[k2][1] + v[1])
        else:
            out[k2] = v
    return out


def e_add(a: Emis, b: Emis) -> Emis:
    out = dict(a)
    for ev, c in b.items():
        out[ev] = c_add(out.get(ev, {}), c)
    return out


def e_hull(a: Emis, b: Emis) -> Emis:
    return {ev: c_hull(a.get(ev, {}), b.get(ev, {})) for ev in set(a) | set(b)}


def e_scale(a: Emis, atom: str, lo0=False) -> Emis:
    return {ev: c_scale(c, atom, lo0) for ev, c in a.items()}


def e_lo0(a: Emis) -> Emis:
    return {ev: c_lo0(c) for ev, c in a.items()}


def is_opaque(atom: str) -> bool:
    return atom.startswith(('expr:', 'while:', 'filtered:', '@'))


def fmt_count(c: Count) -> str:
    c = c_norm(c)
    if not c:
        return 'never'
    parts = []
    for k in sorted(c):
        lo, hi = c[k]
        n = str(lo) if lo == hi else f"{lo}..{hi}"
        parts.append(n + (' time(s)' if not k else ' per ' + ' x '.join('element of ' + a for a in k)))
    return ' + '.join(parts)


def compare(actual: Count, expected: Count) -> Tuple[str, str]:
    """('ok' | 'refute' | 'unknown', text)"""
    a, e = c_norm(actual), c_norm(expected)
    if a == e:
        return 'ok', fmt_count(a)
    exp_atoms = {x for k in e for x in k}
    for k in a:
        for x in k:
            if is_opaque(x) and x not in exp_atoms:
                return 'unknown', f"count is `{fmt_count(a)}` (loop over `{x}` is not understood)"
    return 'refute', f"happens {fmt_count(a)}; expected {fmt_count(e)}"


# ----------------------------------------------------------------------------------------------------- small helpers
def bind_args(call: ast.Call, tgt: Func, drop_self: bool = False) -> Optional[Dict[str, ast.AST]]:
    """parameter name -> argument expression (defaults included as their default expression); None if not bindable"""
    params = list(tgt.params)
    if drop_self and params:
        params = params[1:]
    if any(isinstance(a, ast.Starred) for a in call.args) or any(k.arg is None for k in call.keywords):
        return None
    if len(call.args) > len(params):
        return None
    out = dict(zip(params, call.args))
    for k in call.keywords:
        if k.arg not in params or k.arg in out:
            return None
        out[k.arg] = k.value
    a = tgt.node.args
    pos = [x.arg for x in a.posonlyargs + a.args]
    defaults = dict(zip(pos[len(pos) - len(a.defaults):], a.defaults)) if a.defaults else {}
    for x, d in zip(a.kwonlyargs, a.kw_defaults):
        if d is not None:
            defaults[x.arg] = d
    for p in params:
        if p not in out and p in defaults:
            out[p] = defaults[p]
    return out


def truth(test: ast.AST, assume: Dict[str, bool]) -> Optional[bool]:
    """value of a test under `assume` (name -> bool), None if it does not follow"""
    if isinstance(test, ast.Name) and test.id in assume:
        return assume[test.id]
    if isinstance(test, ast.UnaryOp) and isinstance(test.op, ast.Not):
        v = truth(test.operand, assume)
        return None if v is None else not v
    if isinstance(test, ast.Call) and isinstance(test.func, ast.Name) and test.func.id == 'bool' and len(test.args) == 1:
        return truth(test.args[0], assume)
    if isinstance(test, ast.Compare) and len(test.ops) == 1 and isinstance(test.comparators[0], ast.Constant) \
            and isinstance(test.comparators[0].value, bool) and isinstance(test.ops[0], (ast.Is, ast.Eq, ast.IsNot, ast.NotEq)):
        v = truth(test.left, assume)
        if v is None:
            return None
        r = v == test.comparators[0].value
        return r if isinstance(test.ops[0], (ast.Is, ast.Eq)) else not r
    if isinstance(test, ast.BoolOp):
        vals = [truth(v, assume) for v in test.values]
        if isinstance(test.op, ast.And):
            if any(v is False for v in vals):
                return False
            return True if all(v is True for v in vals) else None
        if any(v is True for v in vals):
            return True
        return False if all(v is False for v in vals) else None
    return None


def mentions_name(node: ast.AST, name: str) -> bool:
    return any(isinstance(n, ast.Name) and n.id == name for n in ast.walk(node))


def mentions(node: ast.AST, name: str) -> bool:
    return any(isinstance(n, ast.Name) and n.id == name for n in ast.walk(node))


def eq_const(test: ast.AST, pol: bool) -> Optional[Tuple[ast.AST, object, bool]]:
    """`x == 'c'` / `'c' == x` / `x != 'c'` / `not ..` -> (x, 'c', holds_equal)"""
    while isinstance(test, ast.UnaryOp) and isinstance(test.op, ast.Not):
        test, pol = test.operand, not pol
    if isinstance(test, ast.Compare) and len(test.ops) == 1 and isinstance(test.ops[0], (ast.Eq, ast.NotEq)):
        l, r = test.left, test.comparators[0]
        if isinstance(l, ast.Constant) and not isinstance(r, ast.Constant):
            l, r = r, l
        if isinstance(r, ast.Constant):
            eq = isinstance(test.ops[0], ast.Eq)
            return l, r.value, (eq if pol else not eq)
    return None


def cmp_norm(test: ast.AST, pol: bool = True) -> Optional[Tuple[ast.AST, str, ast.AST]]:
    """one comparison with negations folded into the operator: (left, op, right), op in < <= > >= == != is isnot"""
    while isinstance(test, ast.UnaryOp) and isinstance(test.op, ast.Not):
        test, pol = test.operand, not pol
    if not (isinstance(test, ast.Compare) and len(test.ops) == 1):
        return None
    table = {ast.Lt: '<', ast.LtE: '<=', ast.Gt: '>', ast.GtE: '>=', ast.Eq: '==', ast.NotEq: '!=', ast.Is: 'is',
             ast.IsNot: 'isnot'}
    op = table.get(type(test.ops[0]))
    if op is None:
        return None
    if not pol:
        op = {'<': '>=', '<=': '>', '>': '<=', '>=': '<', '==': '!=', '!=': '==', 'is': 'isnot', 'isnot': 'is'}[op]
    return test.left, op, test.comparators[0]


def cmp_oriented(test: ast.AST, pol: bool, left_pred) -> Optional[Tuple[ast.AST, str, ast.AST]]:
    """cmp_norm, flipped if necessary so that left_pred(left) holds"""
    c = cmp_norm(test, pol)
    if c is None:
        return None
    l, op, r = c
    if left_pred(l):
        return l, op, r
    if left_pred(r):
        flip = {'<': '>', '<=': '>=', '>': '<', '>=': '<=', '==': '==', '!=': '!=', 'is': 'is', 'isnot': 'isnot'}
        return r, flip[op], l
    return None


def split_disj(cond: ast.AST, pol: bool) -> List[Tuple[ast.AST, bool]]:
    """atoms of a disjunction: `a or b` (positive) / `not (a and b)`"""
    if isinstance(cond, ast.UnaryOp) and isinstance(cond.op, ast.Not):
        return split_disj(cond.operand, not pol)
    if isinstance(cond, ast.BoolOp):
        if (isinstance(cond.op, ast.Or) and pol) or (isinstance(cond.op, ast.And) and not pol):
            out = []
            for v in cond.values:
                out += split_disj(v, pol)
            return out
    return [(cond, pol)]


def parts_of(e: ast.AST) -> List[ast.AST]:
    """flatten a string building expression (`a + b`, f-strings, str(x) of a string part) into its parts, in order"""
    if isinstance(e, ast.BinOp) and isinstance(e.op, ast.Add):
        return parts_of(e.left) + parts_of(e.right)
    if isinstance(e, ast.JoinedStr):
        out = []
        for v in e.values:
            if isinstance(v, ast.FormattedValue):
                if v.format_spec is None and v.conversion in (-1, 115):
                    out += parts_of(v.value)
                else:
                    out.append(v)
            else:
                out += parts_of(v)
        return out
    if isinstance(e, ast.Constant) and e.value == '':
        return []
    # '%s%s' % (a, b)   /   '{}{}'.format(a, b): only plain conversions, literal text in between
    fmt = args = None
    if isinstance(e, ast.BinOp) and isinstance(e.op, ast.Mod) and const_str(e.left) is not None:
        fmt, args, hole = const_str(e.left), (list(e.right.elts) if isinstance(e.right, ast.Tuple) else [e.right]), '%s'
        if '%' in fmt.replace('%s', ''):
            fmt = None
    elif isinstance(e, ast.Call) and isinstance(e.func, ast.Attribute) and e.func.attr == 'format' and not e.keywords \
            and const_str(e.func.value) is not None and not any(isinstance(a, ast.Starred) for a in e.args):
        fmt, args, hole = const_str(e.func.value), list(e.args), '{}'
        if '{' in fmt.replace('{}', '') or '}' in fmt.replace('{}', ''):
            fmt = None
    if fmt is not None and fmt.count(hole) == len(args):
        out = []
        for lit, a in zip(fmt.split(hole), args + [None]):
            if lit:
                out.append(ast.Constant(value=lit))
            if a is not None:
                out += parts_of(a)
        return out
    return [e]


def cases_of(e: ast.AST, conds=None) -> List[Tuple[List[Tuple[ast.AST, bool]], List[ast.AST]]]:
    """split a string expression on the conditional expressions it contains: [(conditions, parts)]"""
    conds = list(conds or [])
    todo = [(conds, [], parts_of(e))]
    out = []
    while todo:
        cs, done, rest = todo.pop()
        if not rest:
            out.append((cs, done))
            continue
        p, tail = rest[0], rest[1:]
        if isinstance(p, ast.IfExp):
            todo.append((cs + [(p.test, True)], done, parts_of(p.body) + tail))
            todo.append((cs + [(p.test, False)], done, parts_of(p.orelse) + tail))
        else:
            todo.append((cs, done + [p], tail))
    return out


def const_str(e: ast.AST) -> Optional[str]:
    if isinstance(e, ast.Constant) and isinstance(e.value, str):
        return e.value
    # ' ' * 2  /  2 * ' '  /  'a' 'b' written as 'a' + 'b'
    if isinstance(e, ast.BinOp) and isinstance(e.op, ast.Mult):
        for a, b in ((e.left, e.right), (e.right, e.left)):
            if isinstance(a, ast.Constant) and isinstance(a.value, str) and isinstance(b, ast.Constant) \
                    and isinstance(b.value, int) and not isinstance(b.value, bool) and 0 <= b.value <= 64:
                return a.value * b.value
    if isinstance(e, ast.BinOp) and isinstance(e.op, ast.Add):
        l, r = const_str(e.left), const_str(e.right)
        if l is not None and r is not None:
            return l + r
    return None


def root_name(e: ast.AST) -> Optional[str]:
    while isinstance(e, (ast.Attribute, ast.Subscript)):
        e = e.value
    return e.id if isinstance(e, ast.Name) else None


def range_over(it: ast.AST) -> Optional[Tuple[Optional[ast.AST], ast.AST, Optional[ast.AST]]]:
    """range(a, b[, s]) -> (a or None, b, s or None)"""
    if isinstance(it, ast.Call) and isinstance(it.func, ast.Name) and it.func.id == 'range' and not it.keywords:
        if len(it.args) == 1:
            return None, it.args[0], None
        if len(it.args) == 2:
            return it.args[0], it.args[1], None
        if len(it.args) == 3:
            return it.args[0], it.args[1], it.args[2]
    return None


def is_zero(e: Optional[ast.AST]) -> bool:
    return e is None or (isinstance(e, ast.Constant) and e.value == 0 and not isinstance(e.value, bool))


# ------------------------------------------------------------------------------------------------- emission counting
class _State:
    def __init__(self, func: Func, tables, assume, stack):
        self.func = func
        self.tables = set(tables)
        self.assume = dict(assume)
        self.stack = stack
        self.cfg = cfg_of(func)
        self.flow = flow_of(func)


class Counter:
    """see module docstring.  `classify(node, func)` (optional) names rule specific events for Call nodes and for
    Assign/AugAssign statements; `stop` = qualified names of functions that are not followed (their calls become the
    event `call:<qual>`, as do recursive calls)."""

    def __init__(self, ctx, stop=(), classify=None, track_tables=True, free=()):
        self.free = set(free)       # names a nested function reads from the enclosing scope (treated like parameters)
        self.ctx = ctx
        self.prog = ctx.prog
        self.stop = set(stop)
        self.classify = classify
        self.notes: List[str] = []
        self.event_nodes: Dict[str, List[Tuple[Func, ast.AST]]] = {}
        self.track_tables = track_tables
        self.list_ctx: Dict[str, tuple] = {}
        self.list_base: Dict[str, int] = {}

    # ---------------------------------------------------------------- public
    def summary(self, func: Func, tables=(), assume=None, stack=()) -> Emis:
        st = _State(func, tables, assume or {}, tuple(stack) + (func.qual,))
        paths = self._seq(func.body, st)
        normal: Optional[Emis] = None
        for k in paths:
            if k == 'fall' or k.startswith('return'):
                normal = paths[k] if normal is None else e_hull(normal, paths[k])
        normal = normal or {}
        return self._resolve(normal, st)

    def exits(self, func: Func, tables=(), assume=None) -> List[Tuple[Optional[ast.Return], Emis]]:
        """emissions per normal exit: (return statement | None for falling off the end, emissions on the paths to it)"""
        st = _State(func, tables, assume or {}, (func.qual,))
        paths = self._seq(func.body, st)
        rets = {f"return#{id(n)}": n for n in walk_no_nested(func.node) if isinstance(n, ast.Return)}
        out = []
        for k, e in paths.items():
            if k == 'fall':
                out.append((None, self._resolve(e, st)))
            elif k in rets:
                out.append((rets[k], self._resolve(e, st)))
        return out

    def loop_atom(self, func: Func, loop: ast.AST) -> str:
        st = _State(func, (), {}, (func.qual,))
        return self._loop_atom(loop, st)

    # ---------------------------------------------------------------- statements
    def _seq(self, stmts, st) -> Dict[str, Emis]:
        cur: Dict[str, Emis] = {'fall': {}}
        for s in stmts:
            if 'fall' not in cur:
                break
            r = self._stmt(s, st)
            new: Dict[str, Emis] = {}
            for kind, e in cur.items():
                if kind != 'fall':
                    new[kind] = e
            for kind, e in r.items():
                comb = e_add(cur['fall'], e)
                new[kind] = e_hull(new[kind], comb) if kind in new else comb
            cur = new
        return cur

    @staticmethod
    def _merge(a: Dict[str, Emis], b: Dict[str, Emis]) -> Dict[str, Emis]:
        out = dict(a)
        for k, e in b.items():
            out[k] = e_hull(out[k], e) if k in out else e
        return out

    def _stmt(self, s, st) -> Dict[str, Emis]:
        if isinstance(s, ast.If):
            t = truth(s.test, st.assume)
            te = self._expr(s.test, st)
            if t is True:
                r = self._seq(s.body, st)
            elif t is False:
                r = self._seq(s.orelse, st)
            else:
                r = self._merge(self._seq(s.body, st), self._seq(s.orelse, st))
            return {k: e_add(te, e) for k, e in r.items()}
        if isinstance(s, (ast.For, ast.AsyncFor, ast.While)):
            return self._loop(s, st)
        if isinstance(s, ast.Return):
            return {f"return#{id(s)}": self._expr(s.value, st) if s.value is not None else {}}
        if isinstance(s, ast.Raise):
            return {'raise': {}}
        if isinstance(s, ast.Continue):
            return {'continue': {}}
        if isinstance(s, ast.Break):
            return {'break': {}}
        if isinstance(s, (ast.With, ast.AsyncWith)):
            e0: Emis = {}
            for it in s.items:
                e0 = e_add(e0, self._expr(it.context_expr, st))
            return {k: e_add(e0, e) for k, e in self._seq(s.body, st).items()}
        if isinstance(s, ast.Try):
            body = self._seq(s.body + s.orelse, st)
            hs = [self._seq(h.body, st) for h in s.handlers]
            has_ev = any(e for p in [body] + hs for e in p.values() if any(c_norm(c) for c in e.values()))
            r = body
            for h in hs:
                r = self._merge(r, h)
            if has_ev and s.handlers:
                self.notes.append(f"{st.func.qual}: events inside try/except (line {s.lineno})")
                r = {k: e_add(e, {'!irregular': c_const(1)}) for k, e in r.items()}
            if s.finalbody and 'fall' in r:
                fin = self._seq(s.finalbody, st)
                out = {k: e for k, e in r.items() if k != 'fall'}
                for k, e in fin.items():
                    comb = e_add(r['fall'], e)
                    out[k] = e_hull(out[k], comb) if k in out else comb
                r = out
            return r
        if isinstance(s, (ast.FunctionDef, ast.AsyncFunctionDef, ast.ClassDef, ast.Pass, ast.Import, ast.ImportFrom,
                          ast.Global, ast.Nonlocal)):
            return {'fall': {}}
        # simple statement
        e: Emis = {}
        if self.classify is not None and isinstance(s, (ast.Assign, ast.AugAssign, ast.AnnAssign)):
            ev = self.classify(s, st.func)
            if isinstance(ev, dict):
                e = e_add(e, ev)
                for k in ev:
                    self.event_nodes.setdefault(k, []).append((st.func, s))
            elif ev:
                e = e_add(e, {ev: c_const(1)})
                self.event_nodes.setdefault(ev, []).append((st.func, s))
        for ch in ast.iter_child_nodes(s):
            if isinstance(ch, ast.expr):
                e = e_add(e, self._expr(ch, st))
        return {'fall': e}

    def _loop(self, s, st) -> Dict[str, Emis]:
        atom = self._loop_atom(s, st)
        head: Emis = self._expr(s.iter, st) if not isinstance(s, ast.While) else {}
        body = self._seq(s.body, st)
        per: Optional[Emis] = None
        for k in ('fall', 'continue'):
            if k in body:
                per = body[k] if per is None else e_hull(per, body[k])
        out: Dict[str, Emis] = {}
        rkinds = [k for k in body if k.startswith('return')]
        irregular = 'break' in body or bool(rkinds)
        if per is None:
            per = {}
            irregular = True
        em = e_scale(per, atom)
        if irregular:
            self.notes.append(f"{st.func.qual}: loop at line {s.lineno} is left by break/return")
            em = e_add(e_lo0(em), {'!irregular': c_const(1)})
        for k in rkinds:
            out[k] = e_add(head, e_add(em, body[k]))
        if 'raise' in body:
            out['raise'] = e_add(head, em)
        if 'break' in body:
            em = e_add(em, e_lo0(body['break']))
        em = e_add(head, em)
        tail = self._seq(s.orelse, st) if s.orelse else {'fall': {}}
        for k, e in tail.items():
            comb = e_add(em, e)
            out[k] = e_hull(out[k], comb) if k in out else comb
        return out

    # ---------------------------------------------------------------- expressions
    def _expr(self, e, st) -> Emis:
        if e is None or not isinstance(e, ast.AST):
            return {}
        if isinstance(e, (ast.Lambda, ast.FunctionDef, ast.AsyncFunctionDef, ast.ClassDef)):
            return {}
        if isinstance(e, ast.IfExp):
            t = truth(e.test, st.assume)
            te = self._expr(e.test, st)
            if t is True:
                return e_add(te, self._expr(e.body, st))
            if t is False:
                return e_add(te, self._expr(e.orelse, st))
            return e_add(te, e_hull(self._expr(e.body, st), self._expr(e.orelse, st)))
        if isinstance(e, ast.BoolOp):
            out = self._expr(e.values[0], st)
            for v in e.values[1:]:
                out = e_add(out, e_lo0(self._expr(v, st)))
            return out
        if isinstance(e, (ast.ListComp, ast.SetComp, ast.GeneratorExp, ast.DictComp)):
            inner: Emis = {}
            for fld in ('elt', 'key', 'value'):
                sub = getattr(e, fld, None)
                if sub is not None:
                    inner = e_add(inner, self._expr(sub, st))
            out: Emis = {}
            for g in reversed(e.generators):
                for c in g.ifs:
                    inner = e_add(inner, self._expr(c, st))
                inner = e_scale(inner, self._len_atom(g.iter, st, st.flow.node_of_expr(e)), lo0=bool(g.ifs))
            out = e_add(out, inner)
            out = e_add(out, self._expr(e.generators[0].iter, st))
            return out
        out: Emis = {}
        for ch in ast.iter_child_nodes(e):
            if isinstance(ch, ast.expr):
                out = e_add(out, self._expr(ch, st))
            elif isinstance(ch, ast.keyword):
                out = e_add(out, self._expr(ch.value, st))
        if isinstance(e, ast.Call):
            out = e_add(out, self._call(e, st))
        return out

    def _call(self, c: ast.Call, st) -> Emis:
        fn = c.func
        if self.classify is not None:
            ev = self.classify(c, st.func)
            if isinstance(ev, dict):
                for k in ev:
                    self.event_nodes.setdefault(k, []).append((st.func, c))
                return ev
            if ev:
                self.event_nodes.setdefault(ev, []).append((st.func, c))
                return {ev: c_const(1)}
        if isinstance(fn, ast.Attribute) and isinstance(fn.value, ast.Name):
            recv, name = fn.value.id, unmangle(fn.attr)
            if recv in st.tables and name in ('new_row', 'new_cell'):
                self.event_nodes.setdefault(name, []).append((st.func, c))
                return {name: c_const(1)}
            if name == 'append' and len(c.args) == 1 and not c.keywords and recv not in st.tables:
                ev = 'append:' + recv
                self.event_nodes.setdefault(ev + '@' + st.func.qual, []).append((st.func, c))
                return {ev: c_const(1)}
        # package helper that receives a table (or the anchor itself): follow / count the call
        tgt = self.target_of(c, st.func)
        if tgt is not None:
            gets_table = any(isinstance(a, ast.Name) and a.id in st.tables for a in list(c.args) + [k.value for k in c.keywords])
            if tgt.qual in self.stop or (tgt.qual in st.stack and (gets_table or tgt.qual == st.func.qual)):
                ev = 'call:' + tgt.qual
                self.event_nodes.setdefault(ev, []).append((st.func, c))
                return {ev: c_const(1)}
            if gets_table and self.track_tables:
                return self._follow(c, tgt, st)
        return {}

    def target_of(self, c: ast.Call, func: Func) -> Optional[Func]:
        for ci in self.ctx.cg.calls_in(func):
            if ci.node is c and ci.kind == 'call':
                tg = [t for t in ci.targets if t is not None]
                if ci.resolved and len(tg) == 1:
                    return tg[0]
        return None

    def _follow(self, c, tgt: Func, st) -> Emis:
        b = bind_args(c, tgt, drop_self=tgt.kind in ('method',))
        if b is None or len(st.stack) > 6:
            self.notes.append(f"{st.func.qual}: table handed to {tgt.qual} in a call the rule cannot bind")
            return {'!irregular': c_const(1)}
        tables = {p for p, a in b.items() if isinstance(a, ast.Name) and a.id in st.tables}
        assume = {p: st.assume[a.id] for p, a in b.items() if isinstance(a, ast.Name) and a.id in st.assume}
        sub = self.summary(tgt, tables, assume, st.stack)
        at = st.flow.node_of_expr(c)
        ren = {}
        for p, a in b.items():
            ren[p] = self._len_atom(a, st, at)
        out: Emis = {}
        for ev, cnt in sub.items():
            if ev.startswith('append:'):
                continue
            out[ev] = {tuple(_rename(x, ren) for x in k): v for k, v in cnt.items()}
        return out

    # ---------------------------------------------------------------- lengths
    def _loop_atom(self, s, st) -> str:
        if isinstance(s, ast.While):
            return 'while:' + src(s.test)
        return self._len_atom(s.iter, st, st.cfg.node_of(s))

    def _len_atom(self, e: ast.AST, st, at, depth=0) -> str:
        prog = self.prog
        if depth > 8 or at is None:
            return 'expr:' + src(e)
        if isinstance(e, ast.Name):
            defs = st.flow.reaching(e.id, at)
            if not defs:
                return e.id if e.id in self.free else 'expr:' + e.id
            if all(d.kind == 'param' for d in defs):
                return e.id
            if len(defs) == 1 and defs[0].kind == 'assign' and defs[0].value is not None:
                v = defs[0].value
                appended = isinstance(v, ast.List) and v.elts and not any(isinstance(x, ast.Starred) for x in v.elts) and any(
                    isinstance(n, ast.Call) and isinstance(n.func, ast.Attribute) and n.func.attr == 'append'
                    and isinstance(n.func.value, ast.Name) and n.func.value.id == e.id for n in walk_no_nested(st.func.node))
                if (isinstance(v, ast.List) and not v.elts) or match("list()", v) or appended:
                    # `line = [first]` ... `line.append(x)`: the literal's elements plus the appends
                    self.list_base[e.id] = len(v.elts) if isinstance(v, ast.List) else 0
                    why = self._built_list_problem(e.id, st, at, defs[0].node)
                    if why:
                        self.notes.append(f"{st.func.qual}: list `{e.id}` {why}")
                        return 'expr:' + e.id
                    # loops around the initialisation: the list is a fresh one in each of their rounds, so its length is the
                    # append count of ONE round (see _resolve)
                    ctx_atoms = []
                    for hdr in (st.cfg.enclosing_loops(defs[0].node) if defs[0].node is not None else []):
                        if isinstance(hdr.ast, (ast.For, ast.AsyncFor)):
                            ctx_atoms.append(self._loop_atom(hdr.ast, st))
                        elif hdr.ast is not None:
                            ctx_atoms.append('while:' + src(hdr.ast))
                    self.list_ctx[e.id] = tuple(ctx_atoms)
                    return '@' + e.id
                # `fields = DEFAULT if fields is None else fields` / `fields = fields or DEFAULT`: the parameter with its default
                # filled in (same as the statement form `if fields is None: fields = DEFAULT` below)
                alts = [v.body, v.orelse] if isinstance(v, ast.IfExp) else (list(v.values) if isinstance(v, ast.BoolOp) and isinstance(v.op, ast.Or) else [])
                if any(isinstance(a, ast.Name) and a.id == e.id for a in alts) and e.id in st.func.params \
                        and all(d.kind == 'param' for d in st.flow.reaching(e.id, defs[0].node)):
                    return e.id
                r = self._len_atom(v, st, defs[0].node, depth + 1)
                return 'var:' + e.id if r.startswith('expr:') else r
            if any(d.kind == 'param' for d in defs) and all(d.kind in ('param', 'assign') for d in defs):
                return e.id      # parameter with a default filled in (`if fields is None: fields = [...]`)
            return 'expr:' + e.id
        if isinstance(e, ast.Attribute):
            p = attr_path(e)
            if p is None:
                return 'expr:' + src(e)
            root = p.split('.')[0]
            defs = st.flow.reaching(root, at)
            if len(defs) == 1 and defs[0].kind == 'assign' and defs[0].value is not None:
                rp = attr_path(defs[0].value)
                if rp is not None and '.' not in rp:
                    return self._len_atom(ast.parse(rp + p[len(root):], mode='eval').body, st, defs[0].node, depth + 1)
            return p
        if isinstance(e, ast.Call) and isinstance(e.func, ast.Name):
            n = e.func.id
            if n in ('list', 'tuple', 'sorted', 'reversed', 'enumerate', 'iter') and e.args:
                return self._len_atom(e.args[0], st, at, depth + 1)
            if n == 'range':
                r = range_over(e)
                if r is not None and is_zero(r[0]) and r[2] is None:
                    m = match("len($x)", r[1])
                    if m:
                        x = m['x']
                        t = base(self.ctx.typer.expr_type(x, st.func))
                        if t in prog.classes:
                            ln = prog.find_method(t, '__len__')
                            if ln is not None:
                                body = [b for b in ln.body if not (isinstance(b, ast.Expr) and isinstance(b.value, ast.Constant))]
                                if len(body) == 1 and isinstance(body[0], ast.Return):
                                    mm = match(f"len({ln.params[0]}.$a)", body[0].value)
                                    if mm and attr_path(x):
                                        return self._len_atom(ast.parse(attr_path(x) + '.' + mm['a'], mode='eval').body,
                                                              st, at, depth + 1)
                            return 'expr:' + src(e)
                        return self._len_atom(x, st, at, depth + 1)
                return 'expr:' + src(e)
            gs = gen_summary(self, st.func, e)
            if gs is not None and gs['b'] is not None and gs['src'] in gs['b']:
                # a package generator that yields exactly once per element of one of its parameters
                return self._len_atom(gs['b'][gs['src']], st, at, depth + 1)
            if n == 'zip' and e.args:
                atoms = {self._len_atom(a, st, at, depth + 1) for a in e.args}
                if len(atoms) == 1:
                    return atoms.pop()
            return 'expr:' + src(e)
        if isinstance(e, ast.Call) and isinstance(e.func, ast.Attribute) and e.func.attr in ('values', 'keys', 'items') \
                and not e.args:
            return 'len:' + self._len_atom(e.func.value, st, at, depth + 1)
        if isinstance(e, ast.Call) and isinstance(e.func, ast.Attribute):
            gs = gen_summary(self, st.func, e)
            if gs is not None and gs['b'] is not None and gs['src'] in gs['b']:
                return self._len_atom(gs['b'][gs['src']], st, at, depth + 1)
        if isinstance(e, (ast.ListComp, ast.GeneratorExp)) and len(e.generators) == 1:
            g = e.generators[0]
            if g.ifs:
                return 'filtered:' + src(e)
            return self._len_atom(g.iter, st, at, depth + 1)
        if isinstance(e, (ast.List, ast.Tuple)) and not any(isinstance(x, ast.Starred) for x in e.elts):
            return f"lit:{len(e.elts)}"
        return 'expr:' + src(e)

    def _built_list_problem(self, name: str, st, at, init=None) -> Optional[str]:
        """a list usable as a counted collection: only `.append(x)` mutates it, it does not escape into a call before
        the loop, and no append can still happen once the loop at `at` has started (an append that is only reached again
        through the re-initialisation `name = []` at node `init` - the next round of an enclosing loop - fills a new list)"""
        after = None
        if init is not None and init is not at:
            after = st.cfg._reachable_from(at, avoid={init.id})
        for n in walk_no_nested(st.func.node):
            if isinstance(n, ast.Call):
                fn = n.func
                if isinstance(fn, ast.Attribute) and isinstance(fn.value, ast.Name) and fn.value.id == name:
                    if fn.attr == 'append':
                        an = st.flow.node_of_expr(n)
                        if an is not None and ((an.id in after if after is not None else st.cfg.can_reach(at, an)) or an is at):
                            return "is still appended to after/inside the loop that reads it"
                    elif fn.attr in ('extend', 'insert', 'pop', 'remove', 'clear', 'sort', 'reverse'):
                        return f"is mutated by .{fn.attr}()"
            elif isinstance(n, ast.AugAssign) and isinstance(n.target, ast.Name) and n.target.id == name:
                return "is extended by an augmented assignment"
            elif isinstance(n, (ast.Delete,)) and any(root_name(t) == name for t in n.targets):
                return "has elements deleted"
            elif isinstance(n, ast.Assign):
                for t in n.targets:
                    if isinstance(t, ast.Subscript) and root_name(t) == name:
                        return "has elements overwritten"
        return None

    def _resolve(self, em: Emis, st) -> Emis:
        """replace '@list' atoms by the append count of that list"""
        out: Emis = {}
        for ev, cnt in em.items():
            cur = dict(cnt)
            for _ in range(4):
                nxt: Count = {}
                changed = False
                for k, (lo, hi) in cur.items():
                    j = next((i for i, x in enumerate(k) if x.startswith('@')), None)
                    if j is None:
                        l0, h0 = nxt.get(k, (0, 0))
                        nxt[k] = (l0 + lo, h0 + hi)
                        continue
                    changed = True
                    app = em.get('append:' + k[j][1:], {})
                    rest = k[:j] + k[j + 1:]
                    for ka, (alo, ahi) in app.items():
                        ka = list(ka)
                        for outer in self.list_ctx.get(k[j][1:], ()):
                            if outer in ka and outer in rest:
                                ka.remove(outer)
                        kk = rest + tuple(ka)
                        l0, h0 = nxt.get(kk, (0, 0))
                        nxt[kk] = (l0 + lo * alo, h0 + hi * ahi)
                    nb = self.list_base.get(k[j][1:], 0)
                    if nb:
                        l0, h0 = nxt.get(rest, (0, 0))
                        nxt[rest] = (l0 + lo * nb, h0 + hi * nb)
                cur = nxt
                if not changed:
                    break
            out[ev] = cur
        return out


def gen_summary(counter, func: Func, call: ast.Call):
    """`call` (inside func) is a call of a package generator of the form
        def gen(.., src, ..):  for x in src: <straight-line / branching statements>; yield E      (one yield per round)
    -> {'G': generator, 'loop': its for loop, 'yield': the Yield node, 'src': name of the iterated parameter,
        'b': parameter -> argument of the call}; None for anything else (several yields, conditional yield, break ...)"""
    G = counter.target_of(call, func)
    if G is None:
        return None
    nodes = list(walk_no_nested(G.node))
    ys = [n for n in nodes if isinstance(n, ast.Yield)]
    if len(ys) != 1 or any(isinstance(n, (ast.YieldFrom, ast.Break, ast.Continue, ast.Return, ast.Try, ast.While)) for n in nodes):
        return None
    body = [b for b in G.body if not (isinstance(b, ast.Expr) and isinstance(b.value, ast.Constant))]
    if len(body) != 1 or not isinstance(body[0], ast.For) or body[0].orelse:
        return None
    loop = body[0]
    if not (isinstance(loop.iter, ast.Name) and loop.iter.id in G.params):
        return None
    fl = flow_of(G)
    if any(d.kind != 'param' for d in fl.defs_of(loop.iter.id)):
        return None
    if not any(isinstance(s_, ast.Expr) and s_.value is ys[0] for s_ in loop.body):
        return None          # the yield is nested in an if / inner loop: not once per round
    if sum(1 for n in nodes if isinstance(n, (ast.For, ast.AsyncFor))) != 1:
        return None
    b = bind_args(call, G, drop_self=G.kind == 'method')
    return {'G': G, 'loop': loop, 'yield': ys[0], 'src': loop.iter.id, 'b': b}


def _rename(atom: str, ren: Dict[str, str]) -> str:
    m = re.match(r'^(len:)?([A-Za-z_]\w*)(.*)$', atom)
    if not m or is_opaque(atom):
        return atom
    pre, root, rest = m.group(1) or '', m.group(2), m.group(3)
    if root in ren:
        r = ren[root]
        if is_opaque(r) and rest:
            return r + rest
        return pre + r + rest
    return atom


# ---------------------------------------------------------------------------------------------------- accumulators
class Accumulator:
    """the string / list a rendering function builds and returns: `res = ''` ... `res += x` ... `return res`
    (also `res = res + x`, `parts.append(x)` + `return sep.join(parts)`)"""

    _TRANSFORMS = ('strip', 'rstrip', 'lstrip', 'removesuffix', 'removeprefix', 'replace', 'expandtabs', 'split', 'splitlines',
                   'partition', 'rpartition', 'title', 'upper', 'lower', 'center', 'ljust', 'rjust', 'zfill', 'translate')

    def __init__(self, func: Func):
        self.func = func
        self.name: Optional[str] = None
        self.sep: Optional[str] = None
        self.problem: Optional[str] = None
        self.transformed: List[Tuple[ast.Return, ast.AST]] = []   # returns of strip()/slice/... of the accumulated text
        self.drops: Optional[ast.AST] = None                      # `res = res + x if <res empty> else x`: earlier text is lost
        self.foreign: List[Tuple[ast.Return, ast.AST]] = []       # returns of something else
        rets = [n for n in walk_no_nested(func.node) if isinstance(n, ast.Return) and n.value is not None]

        def leaves(v):
            if isinstance(v, ast.IfExp):
                return leaves(v.body) + leaves(v.orelse)
            return [v]

        fl = flow_of(func)

        def unalias(name, at):
            for _ in range(5):
                ds = fl.reaching(name, at) if at is not None else []
                if len(ds) == 1 and ds[0].kind == 'assign' and isinstance(ds[0].value, ast.Name):
                    name, at = ds[0].value.id, ds[0].node
                else:
                    break
            return name

        def plain(v):
            if isinstance(v, ast.Name):
                return unalias(v.id, fl.node_of_expr(v)), None
            m = match("$s.join($n)", v)
            if m and isinstance(m['n'], ast.Name) and const_str(m['s']) is not None:
                return m['n'].id, const_str(m['s'])
            return None

        names = set()
        others = []
        for r in rets:
            for v in leaves(r.value):
                pl = plain(v)
                if pl:
                    names.add(pl)
                    continue
                inner = None
                if isinstance(v, ast.Call) and isinstance(v.func, ast.Attribute) and v.func.attr in self._TRANSFORMS:
                    inner = plain(v.func.value)
                elif isinstance(v, ast.Subscript):
                    inner = plain(v.value)
                if inner:
                    names.add(inner)
                    self.transformed.append((r, v))
                else:
                    others.append((r, v))
        # prefer the variable that is actually extended in the function
        if len(names) > 1:
            grown = {n.target.id for n in walk_no_nested(func.node) if isinstance(n, ast.AugAssign) and isinstance(n.target, ast.Name)}
            grown |= {n.func.value.id for n in walk_no_nested(func.node) if isinstance(n, ast.Call) and isinstance(n.func, ast.Attribute)
                      and n.func.attr == 'append' and isinstance(n.func.value, ast.Name)}
            names = {x for x in names if x[0] in grown} or names
        if len(names) == 1:
            self.name, self.sep = next(iter(names))
            self.foreign = others
            # an accumulator that does not start empty / from a plain text (`lines = [f(x) for x in xs]`) is not understood
            for n in walk_no_nested(func.node):
                if isinstance(n, ast.Assign) and len(n.targets) == 1 and isinstance(n.targets[0], ast.Name) and n.targets[0].id == self.name \
                        and (isinstance(n.value, (ast.ListComp, ast.GeneratorExp)) or (isinstance(n.value, ast.List) and n.value.elts)
                             or (isinstance(n.value, ast.Call) and isinstance(n.value.func, ast.Name) and n.value.func.id in ('list', 'map', 'sorted') and n.value.args)):
                    self.problem = f"the returned collection `{self.name}` starts from `{src(n.value)[:60]}`, not from an empty list / text"
            # `res = f(res, ..)` in a form emitted() cannot split into "what is appended": never count it as nothing
            for n in walk_no_nested(func.node):
                if isinstance(n, ast.Assign) and len(n.targets) == 1 and isinstance(n.targets[0], ast.Name) and n.targets[0].id == self.name \
                        and mentions_name(n.value, self.name) and self.emitted(n) is None:
                    self.problem = f"`{src(n)[:70]}` rebuilds the accumulated text in a way the rule cannot split into appended parts"
        else:
            self.problem = "the function does not return one accumulator variable on every path"

    def emitted(self, node: ast.AST) -> Optional[ast.AST]:
        """expression appended to the accumulator by statement / call `node`, else None"""
        if self.name is None:
            return None
        if isinstance(node, ast.AugAssign) and isinstance(node.op, ast.Add) and isinstance(node.target, ast.Name) \
                and node.target.id == self.name:
            return node.value
        if isinstance(node, ast.Assign) and len(node.targets) == 1 and isinstance(node.targets[0], ast.Name) \
                and node.targets[0].id == self.name:
            m = match(f"{self.name} + $x", node.value)
            if m:
                return m['x']
            v = node.value
            if isinstance(v, ast.BinOp) and isinstance(v.op, ast.Add):
                ps = parts_of(v)
                if ps and isinstance(ps[0], ast.Name) and ps[0].id == self.name and not any(mentions_name(q, self.name) for q in ps[1:]):
                    out = ps[1]
                    for q in ps[2:]:
                        out = ast.BinOp(left=out, op=ast.Add(), right=q)
                    return out
            if isinstance(v, ast.IfExp):
                # res = res + SEP + X if <res not empty> else X   (the join idiom):  appends (SEP if .. else '') + X
                R = self.name
                nonempty = any(match(p_, v.test) for p_ in (f"len({R}) > 0", f"len({R}) != 0", f"len({R}) >= 1", f"{R}", f"{R} != ''", f"0 < len({R})"))
                isempty = any(match(p_, v.test) for p_ in (f"len({R}) == 0", f"not {R}", f"{R} == ''", f"0 == len({R})"))
                for withres, plain, pol in ((v.body, v.orelse, True), (v.orelse, v.body, False)):
                    # the branch that drops the old text must be the one taken while it is still empty
                    if not ((pol and nonempty) or (not pol and isempty)):
                        a_, b_ = parts_of(withres), parts_of(plain)
                        if (nonempty or isempty) and a_ and isinstance(a_[0], ast.Name) and a_[0].id == R \
                                and not any(mentions_name(q, R) for q in a_[1:] + b_):
                            self.drops = node       # the old text is thrown away whenever it is NOT empty
                        continue
                    a, b = parts_of(withres), parts_of(plain)
                    if a and b and isinstance(a[0], ast.Name) and a[0].id == self.name and len(a) > len(b) \
                            and not any(mentions_name(q, self.name) for q in a[1:] + b) \
                            and all(same(x, y) for x, y in zip(a[len(a) - len(b):], b)):
                        pre = a[1:len(a) - len(b)]
                        head = None
                        for q in pre:
                            head = q if head is None else ast.BinOp(left=head, op=ast.Add(), right=q)
                        empty = ast.Constant(value='')
                        out = ast.IfExp(test=v.test, body=head if pol else empty, orelse=empty if pol else head) if head is not None else None
                        for q in b:
                            out = q if out is None else ast.BinOp(left=out, op=ast.Add(), right=q)
                        return out
            if not mentions_name(v, self.name) and not (const_str(v) == '' or (isinstance(v, ast.List) and not v.elts)) \
                    and not isinstance(v, (ast.List, ast.ListComp)):
                return v            # initial content of the accumulator (`res = separator`)
        if isinstance(node, ast.Call) and isinstance(node.func, ast.Attribute) and node.func.attr == 'append' \
                and isinstance(node.func.value, ast.Name) and node.func.value.id == self.name and len(node.args) == 1:
            return node.args[0]
        return None


def value_set(func: Func, e: ast.AST, at) -> List[Tuple[ast.AST, object]]:
    """possible defining expressions of `e` at cfg node `at`: a local with several reaching plain assignments stands for
    each of them (`text = A` in one branch, `text = B` in the other, then `res += text`)  -> [(expr, cfg node)]"""
    fl = flow_of(func)
    if isinstance(e, ast.Name) and at is not None:
        defs = fl.reaching(e.id, at)
        if defs and all(d.kind == 'assign' and d.value is not None for d in defs):
            out = []
            for d in defs:
                out += value_set(func, d.value, d.node) if isinstance(d.value, ast.Name) else [(d.value, d.node)]
            return out
    return [(e, at)]


def xexpand(ex: Expander, e: ast.AST, at, stop=None) -> ast.AST:
    """Expander.expand, plus one idiom the engine leaves opaque: a name bound by `a, b = x, y` (tuple target and tuple
    value of the same length) is replaced by its component"""
    fl = ex.flow
    if isinstance(e, ast.Name) and at is not None and not (stop and e.id in stop):
        ds = fl.reaching(e.id, at)
        if len(ds) == 1 and ds[0].kind == 'unpack' and isinstance(ds[0].stmt, ast.Assign) and len(ds[0].stmt.targets) == 1:
            tgt, val = ds[0].stmt.targets[0], ds[0].stmt.value
            if isinstance(tgt, (ast.Tuple, ast.List)) and isinstance(val, (ast.Tuple, ast.List)) and len(tgt.elts) == len(val.elts):
                for t, v in zip(tgt.elts, val.elts):
                    if isinstance(t, ast.Name) and t.id == e.id:
                        return ex.expand(v, ds[0].node, stop=stop)
    return ex.expand(e, at, stop=stop)
