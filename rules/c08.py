"""C08 - forward schedules are tight; dates encode used capacity.   (DESIGN.md section 5, C08)

Decided: shape of the mechanisms (first fit, greedy amount, encoding formulas by rational normal form, traversal order,
selector use, project bound for linked tasks, the fill starts from the start the search found - not from the release date handed
to the search -, leaf defaults replace only `None` - an explicit estimate of 0 means no work).  Not decided: that they yield fully
booked intervals for every interleaving; a resource that reports a rounded calendar value (C17's / C03's finding, undecided here).
"""
from __future__ import annotations

import ast

from sa import facts
from sa.cfg import cfg_of
from sa.flow import Expander
from sa.model import src, walk_no_nested
from sa.pat import match, same
from . import sched, sched_dep, sched_fill
from .sched import FWD, PassShape


def check(ctx):
    S = FWD
    ps = PassShape(ctx, S)
    ctx.assume("term expansion assumes no aliasing writes between a definition and its use inside one function")
    ctx.assume("IResource.get_nearest_availability_date returns the first date at a whole-day offset with positive capacity (C17)")
    pt = ps.prereq_term()
    if pt is not None:
        pt['iter'] = pt['parts'][2]
        pt['sources'] = ps.collection_sources(pt['iter'], ps.cfg.node_of(pt['stmt']))

    o = ctx.ob('first_fit_and_greedy', 'R8',
               "the search returns at the first day with free > 0 (no other condition); the fill books exactly min(remaining, free)", floor=2)
    ctx.guarded(o, lambda o: sched_fill.first_fit_and_greedy(ctx, o, S))

    o = ctx.ob('search_start_and_step', 'R8',
               "the search starts at the resource's nearest availability on/after the release date and steps exactly +1 day")
    ctx.guarded(o, lambda o: sched_dep.search_monotone(ctx, o, S))

    o = ctx.ob('search_examines_every_day', 'R8',
               "the day the search examines first depends only on the release date and the resource's calendar: it is not moved "
               "forward by remembered state (a 'first free day' hint kept on the ledger or the scheduler)", floor=1)
    ctx.guarded(o, lambda o: search_from_release(ctx, o, S))

    # the schedulers start their search at IResource.get_nearest_availability_date: its shape is C17's obligation, reused here
    from . import c17 as _c17
    _c17._search(ctx)
    # which exception type an exhausted search raises is C14's clause, not a tightness / late-packing matter
    for ob_ in ctx.obligations:
        if ob_.id.endswith('.search'):
            ob_.refuted = [f_ for f_ in ob_.refuted if 'expected RuntimeError' not in f_.msg]

    o = ctx.ob('date_encoding', 'R8',
               "start = midnight(d) + 1 day * RESV(d)/CAP(d); end = last day + 1 day * RESV'(last)/CAP(last), RESV' read after the "
               "loop for the same resource/day with the balancing selector", floor=3)
    ctx.guarded(o, lambda o: sched_fill.encoding(ctx, o, ps))

    o = ctx.ob('release_day_has_no_foreign_bound', 'R8',
               "the release day of an unfixed leaf is the latest of project start / prerequisite ends, the clock and the task's OWN "
               "min_start: no constraint of another task (e.g. the min_start of an enclosing group) is added to it", floor=1)
    ctx.guarded(o, lambda o: release_bound(ctx, o, ps, pt))

    o = ctx.ob('fill_from_found_start', 'R8',
               "the booking step of a leaf starts from the task's start (the date the search found, or the fixed start): a task "
               "without remaining work gets that very date back as its end, so only then is its end its start day's timestamp", floor=1)
    ctx.guarded(o, lambda o: fill_from_found_start(ctx, o, ps))

    o = ctx.ob('no_work_means_no_booking', 'R8',
               "a leaf whose estimate / spent the user gave (0 included) is booked for exactly that: the defaults replace only a value "
               "that `is None` (a leaf with an explicit estimate of 0 has no work: it ends at its start and takes no capacity)", floor=1)
    ctx.guarded(o, lambda o: explicit_zero_kept(ctx, o, ps))

    o = ctx.ob('traversal_order', 'R8',
               "roots are scheduled in list order, dependencies then children in list order: no reversed/sorted/set wrapper in the "
               "forward traversal (capacity is handed out in WBS order)", floor=3)
    ctx.guarded(o, lambda o: order(ctx, o, ps, pt))

    o = ctx.ob('selector_everywhere', 'R11',
               "every ledger query of the forward scheduler uses the selector 'all tasks when balancing, own task otherwise' "
               "(with balancing off, other tasks' bookings never influence a task)", floor=3)
    ctx.guarded(o, lambda o: sched_fill.selectors(ctx, o, S))

    # capacities come from the calendars: the leaf calendars must answer for the day they are asked about (C17's obligation, reused:
    # a dated calendar that misses its entry makes a day without capacity look free, or a free day look closed)
    from . import c17 as _c17b
    _c17b._leaf_semantics(ctx)
    _c17b._none_zero(ctx)
    rounded_capacity_is_not_decided(ctx)

    from .c03 import ledger_shape
    o = ctx.ob('ledger_day_key', 'R10',
               "ledger rows are stored under midnight(day) and every query compares that key (a raw-date comparison makes booked "
               "days look free for a mid-day release date)", floor=2)
    ctx.guarded(o, lambda o: ledger_shape(ctx, o))

    o = ctx.ob('ledger_is_fresh', 'R9',
               "every calc() starts from an empty ledger: the ledger's row list is allocated per ledger object (no shared mutable "
               "default), and calc hands a ledger constructed by this call to the pass (stale bookings leave unforced idle days)", floor=2)
    ctx.guarded(o, lambda o: sched_fill.ledger_fresh(ctx, o, S))

    from .c03 import resource_table
    o = ctx.ob('resource_of_its_own', 'R5',
               "every resource name gets a Resource object of its own (table keyed by name, a fresh default Resource per undeclared "
               "name): capacity is measured per resource, not against one shared default object", floor=2)
    ctx.guarded(o, lambda o: resource_table(ctx, o, (S,), check_result=False))   # which resources the result lists is C03's clause

    o = ctx.ob('linked_tasks_get_project_bound', 'R8',
               "predecessors reached through a dependency link are scheduled with the project start as bound, not with the bound of "
               "the visiting task (which would delay unrelated tasks)")
    ctx.guarded(o, lambda o: sched_fill.jump_bound(ctx, o, ps, pt))


def rounded_capacity_is_not_decided(ctx):
    """C17's none_is_zero demands that the resource hands on the calendar's value unchanged.  A resource that reports
    `round(<calendar value>, n)` breaks that clause of C17 (and C03: more than the calendar offers can be booked), but tightness /
    late-packing and the date fractions are measured against what the resource reports (`resource.get_available_units` is the
    observation point of C08 / C09): whether the property means the calendar's or the resource's figure is not decided here."""
    for ob_ in ctx.obligations:
        if ob_.id.endswith('none_is_zero'):
            moved = [f_ for f_ in ob_.refuted if 'expected the calendar value' in f_.msg and 'reports `round(' in f_.msg]
            if moved:
                ob_.refuted = [f_ for f_ in ob_.refuted if f_ not in moved]
                for f_ in moved:
                    f_.msg += (" [a rounded capacity is C17's / C03's finding; tightness and the date fractions are measured against the "
                               "resource's own report, so for this property it is not decided]")
                ob_.unknown.extend(moved)


WRAPPERS = ('reversed', 'sorted', 'set', 'frozenset')


def _wrapped(e):
    return isinstance(e, ast.Call) and isinstance(e.func, ast.Name) and e.func.id in WRAPPERS


def order(ctx, o, ps: PassShape, pt):
    S = ps.S
    prog = ctx.prog
    calc = prog.func(S['calc'])
    ex = Expander(prog, calc, ctx.typer)
    pname = ps.pname
    for c in facts.calls_named(calc, pname):
        fo = sched.for_loop_of(calc, c)
        if fo is None:
            o.undecided(calc, c, c, "pass call outside a loop over the roots")
            continue
        ccfg = cfg_of(calc)
        it = ex.expand(fo.iter, ccfg.node_of(fo))
        for _ in range(2):
            mm = match("list($x)", it) or match("tuple($x)", it) or match("[$v for $v in $x]", it)
            if mm:
                it = mm['x']
        m = match("$w.roots", it)
        loop_var_is_arg = isinstance(c.args[0], ast.Name) and isinstance(fo.target, ast.Name) and c.args[0].id == fo.target.id
        inside = [(t, pol) for t, pol in ccfg.conditions(ccfg.node_containing(c)) if any(x is t for st in fo.body for x in ast.walk(st))]
        comp_filter = facts.comp_parts(ex.expand(fo.iter, ccfg.node_of(fo)))
        if comp_filter and comp_filter[3] and (match("$w.roots", comp_filter[2]) or match("$w.tasks", comp_filter[2])):
            inside = inside + [(t, True) for t in comp_filter[3]]
            it = comp_filter[2]
            m = match("$w.roots", it)
        # a redundant memo test hoisted to the call site (`if t.id in calculated: continue`) changes nothing
        inside = [(t, pol) for t, pol in inside if not (match("$t.id in $m", t) and not pol) and not (match("$t.id not in $m", t) and pol)]
        n_calls = len(facts.calls_named(calc, pname))
        if (m or match("$w.tasks", it) or match("$w.all_children", it)) and loop_var_is_arg and inside and n_calls < 2:
            o.undecided(calc, fo, fo, "the only scheduling loop of calc is conditional: " + ', '.join(facts.cond_texts(inside))[:120])
        elif (m or match("$w.tasks", it) or match("$w.all_children", it)) and loop_var_is_arg and inside:
            o.refute(calc, fo, fo, f"calc schedules the tasks of `{src(it)[:40]}` selected by " + ', '.join(facts.cond_texts(inside))[:120] +
                                   " in a pass of their own: they take capacity ahead of tasks that stand before them in the WBS "
                                   "(capacity must be handed out in WBS order)")
        elif m and loop_var_is_arg:
            o.site(calc, fo, f"for {src(fo.target)} in {src(it)[:50]}")
        elif _wrapped(it) or match("$w.roots[::-1]", it):
            o.refute(calc, fo, fo.iter, f"roots are traversed through `{src(fo.iter)}`: not in WBS order")
        else:
            o.undecided(calc, fo, fo.iter, "loop over the roots in an unrecognised form")
    def loop_of(c):
        """(for statement, collection expression as written, True if an index loop runs backwards)"""
        ci = ps.call_iter(c) if hasattr(ps, 'call_iter') else None
        if ci is None:
            fo_ = ps.call_loop(c)
            return (fo_, fo_.iter, False) if fo_ is not None else None
        fo_, coll = ci
        backwards = coll is not fo_.iter and (match("reversed($r)", fo_.iter) is not None or match("range($a, -1, -1)", fo_.iter) is not None)
        return fo_, coll, backwards
    for c in ps.pass_calls():
        lo = loop_of(c)
        if lo is None:
            # the task handed to the recursion is a local: does it climb from the loop's dependency to one of its ancestors?
            a0 = c.args[0] if c.args else None
            climbed = None
            if isinstance(a0, ast.Name):
                for d_ in ps.fl.defs_of(a0.id):
                    if d_.kind != 'assign' or d_.value is None or d_.node is None or not isinstance(d_.value, ast.Name):
                        continue
                    for fo_ in ps.cfg.enclosing_fors(d_.node):
                        if isinstance(fo_.target, ast.Name) and fo_.target.id == d_.value.id and \
                                any(isinstance(x, ast.Attribute) and x.attr in ('all_parents', 'parent') for x in ast.walk(fo_.iter)):
                            climbed = (d_, fo_)
            if climbed is not None:
                o.refute(ps.f, c, climbed[0].stmt, f"the recursion over the dependencies is not made on the dependency itself but on `{a0.id}`, an ancestor of "
                                                   f"it taken from `{src(climbed[1].iter)}`: the whole group is scheduled at that point, so its other members "
                                                   f"take capacity ahead of tasks that stand before them in the WBS")
                continue
            o.undecided(ps.f, c, c, "recursive call outside a `for x in <collection>` loop")
            continue
        fo, coll, backwards = lo
        it = ps.ex.expand(coll, ps.cfg.node_of(fo))
        it = sched.strip_seq_copy(it) if hasattr(sched, 'strip_seq_copy') else it
        if backwards:
            o.refute(ps.f, fo, fo.iter, f"tasks are traversed by an index loop running backwards (`{src(fo.iter)}`): not in list order")
            continue
        if _wrapped(it) or _wrapped(coll) or isinstance(it, (ast.Set, ast.SetComp)) or match("$x[::-1]", it):
            o.refute(ps.f, fo, fo.iter, f"tasks are traversed through `{src(fo.iter)}` = `{src(it)[:60]}`: not in list order")
            continue
        if match(f"{ps.task}.children", it):
            o.site(ps.f, fo, "children in list order")
            continue
        sub_ = sched_fill.same_wbs_subset(ps, coll, ps.cfg.node_of(fo)) if pt is not None and not same(coll, pt['iter']) else None
        if pt is not None and (same(coll, pt['iter']) or (sub_ is not None and (same(sub_, pt['iter']) or
                                                                               same(sub_, ps.ex.expand(pt['iter'], ps.cfg.node_of(pt['stmt'])))))):
            srcs = pt['sources']
            if srcs['setlike']:
                o.refute(ps.f, fo, srcs['setlike'][0], "the dependency collection is built as a set: its iteration order (and with it "
                                                        "the order in which capacity is handed out) is not the list order")
            elif srcs['unknown']:
                closure = [x for x in walk_no_nested(ps.f.node) if isinstance(x, ast.Attribute) and x.attr == 'all_' + ps.rel]
                state = [x for u_ in srcs['unknown'] if isinstance(u_, ast.AST) for x in ast.walk(u_)
                         if isinstance(x, ast.Attribute) and isinstance(x.value, ast.Name) and x.value.id == ps.f.params[0] and x.attr != S['resources']]
                calc_ = ctx.prog.func(S['calc'])
                reset = state and [st_ for st_, t_, v_ in facts.attr_stores(calc_, state[0].attr)]
                if state and not reset:
                    o.refute(ps.f, fo, state[0], f"dependencies are taken from `self.{sched.unmangle(state[0].attr) if hasattr(sched, 'unmangle') else state[0].attr}`, state kept on the "
                                                 f"scheduler object that calc() never resets: a later calc() on the same scheduler reuses the task objects (and end "
                                                 f"dates) of the previous run")
                elif closure:
                    o.refute(ps.f, fo, closure[0], f"the tasks a task waits for are collected from `{src(closure[0])}` (the transitive closure of the links), "
                                                   f"not from its direct {ps.rel}: the release day also waits for the ends of indirect {ps.rel}, so the "
                                                   f"resource idles although every direct prerequisite has ended")
                else:
                    o.undecided(ps.f, fo, srcs['unknown'][0], "dependency collection built in an unrecognised idiom")
            else:
                o.site(ps.f, fo, "dependencies in list order (own first, then ancestors')")
            continue
        if pt is None:
            # no prerequisite term recognised (the bound is accumulated inside this loop): classify the collection directly
            try:
                srcs = ps.collection_sources(coll, ps.cfg.node_of(fo))
            except Exception:
                srcs = None
            if srcs and srcs['own'] and not srcs['unknown']:
                if srcs['setlike']:
                    o.refute(ps.f, fo, srcs['setlike'][0], "the dependency collection is built as a set: its iteration order (and with it "
                                                            "the order in which capacity is handed out) is not the list order")
                else:
                    o.site(ps.f, fo, "dependencies in list order (own first, then ancestors')")
                continue
        o.undecided(ps.f, fo, fo.iter, "recursion over an unrecognised collection")
    # dependencies before children
    los = [lo for lo in (loop_of(c) for c in ps.pass_calls()) if lo is not None]
    def _is_dep(lo):
        if pt is None:
            return False
        if same(lo[1], pt['iter']):
            return True
        sb = sched_fill.same_wbs_subset(ps, lo[1], ps.cfg.node_of(lo[0]))
        return sb is not None and (same(sb, pt['iter']) or same(sb, ps.ex.expand(pt['iter'], ps.cfg.node_of(pt['stmt']))))
    dep_loops = [lo[0] for lo in los if _is_dep(lo)]
    ch_loops = [lo[0] for lo in los if match(f"{ps.task}.children", (sched.strip_seq_copy if hasattr(sched, 'strip_seq_copy') else (lambda x: x))(
        ps.ex.expand(lo[1], ps.cfg.node_of(lo[0]))))]
    if dep_loops and ch_loops:
        if ps.cfg.dominates(ps.cfg.node_of(dep_loops[0]), ps.cfg.node_of(ch_loops[0])):
            o.site(ps.f, ch_loops[0], "dependencies are scheduled before the children")
        else:
            o.refute(ps.f, ch_loops[0], ch_loops[0], "children are scheduled before the task's dependencies")


def search_from_release(ctx, o, S):
    """every definition of the search's day cursor outside the stepping is a function of (resource, release date) only.
    Capacity depends on the task (IResource.get_available_units(date, task)), so a per-resource hint 'days before X are full'
    cannot be right for every task: a cursor raised to remembered state skips days that were never examined for this task."""
    prog = ctx.prog
    f = prog.func(S['search'])
    fl = sched.flow_of(f)
    usage_p, me = f.params[2], f.params[0]
    dvars = set()
    for n in walk_no_nested(f.node):
        pr = sched.parse_resv(n, S['balance']) if isinstance(n, (ast.Call, ast.IfExp)) else None
        if pr and isinstance(pr['d'], ast.Name):
            dvars.add(pr['d'].id)
    if not dvars:
        o.undecided(f, f.node, 'search', "no ledger query on a day variable found in the search")
        return
    ex = Expander(prog, f, ctx.typer)
    bad = 0

    def state_reads(e):
        out = []
        called = {id(x.func) for x in ast.walk(e) if isinstance(x, ast.Call)}
        for x in ast.walk(e):
            if isinstance(x, ast.Attribute) and isinstance(x.value, ast.Name):
                if x.value.id == usage_p and not (id(x) in called and x.attr == 'reserved'):
                    out.append(x)
                elif x.value.id == me and x.attr != S['balance'] and id(x) not in called:
                    out.append(x)
        return out
    for dv in sorted(dvars):
        for d in fl.defs_of(dv):
            if d.kind != 'assign' or d.value is None:
                continue
            v = ex.expand(d.value, d.node, stop={dv})
            reads = state_reads(v)
            if reads:
                bad += 1
                o.refute(f, d.stmt, d.stmt, f"the search day `{dv}` is set from remembered state `{src(reads[0])}` (`{src(v)[:70]}`): days between the "
                                            f"release date and that day are never examined for this task, so free capacity before it stays idle")
    if not bad:
        o.site(f, f.node, f"search day {', '.join(sorted(dvars))} is derived from the release date and the calendar only")


def fill_from_found_start(ctx, o, ps: PassShape):
    """the (expanded) start argument of the fill call is `max(.., task.start, ..)` / task.start / the value just stored to task.start.
    A local with several definitions is judged definition by definition: one that is the RELEASE date handed to the search (and
    not the date the search returned) is refuted - the bookings of a task with work are the same (the days in between are full),
    but a task without work gets the raw release timestamp as its end instead of its start."""
    fill = ctx.prog.func(ps.S['fill'])
    search = ctx.prog.func(ps.S['search'])
    stop = {f"{ps.task}.start"}
    stored = []
    for st, tgt, val, reg in ps.stores('start'):
        if reg['milestone'] is not True:
            stored.append(ps.ex.expand(val, ps.cfg.node_of(st), stop=stop))
    # release dates: the date argument of the search calls
    released = []
    for sc in facts.calls_named(ps.f, search.name):
        if len(sc.args) >= 3:
            released.append(sc.args[2])
            released.append(ps.ex.expand(sc.args[2], ps.cfg.node_containing(sc), stop=stop))

    def good(a):
        return match(f"{ps.task}.start", a) is not None or any(same(a, sv) for sv in stored)

    for c in facts.calls_named(ps.f, fill.name):
        if len(c.args) < 5:
            o.undecided(ps.f, c, c, "unexpected argument list of the fill call")
            continue
        cn = ps.cfg.node_containing(c)
        v = ps.ex.expand(c.args[2], cn, stop=stop)
        for conds, case in sched.expr_cases(v):
            args = facts.flatten_lattice(case, 'max') or [case]
            if any(good(a) for a in args):
                o.site(ps.f, c, f"fill starts at {src(case)[:60]}")
                continue
            # the max spelled as a conditional: `X` in the case `start < X` (`b = task.start; if b < now: b = now`)
            as_max = False
            for t, pol in conds:
                if isinstance(t, ast.Compare) and len(t.ops) == 1 and isinstance(t.ops[0], (ast.Lt, ast.LtE, ast.Gt, ast.GtE)):
                    lo, hi = (t.left, t.comparators[0]) if isinstance(t.ops[0], (ast.Lt, ast.LtE)) else (t.comparators[0], t.left)
                    if not pol:
                        lo, hi = hi, lo
                    if good(lo) and any(same(hi, a) for a in args):
                        as_max = True
            if as_max:
                o.site(ps.f, c, f"fill starts at {src(case)[:60]} where that is later than the task's start")
                continue
            multi = [a for a in args if isinstance(a, ast.Name) and a.id not in ps.f.params and len(ps.fl.reaching(a.id, cn)) > 1]
            bad = unk = None
            all_ok = bool(multi)
            for a in multi[:1]:
                for d_ in ps.fl.reaching(a.id, cn):
                    if d_.kind != 'assign' or d_.value is None or d_.node is None:
                        unk = d_
                        continue
                    tg_ = d_.stmt.targets if isinstance(d_.stmt, ast.Assign) else []
                    if any(match(f"{ps.task}.start", t_) for t_ in tg_):
                        continue            # `task.start = local = <value>`: the local IS the start just stored
                    dv = ps.ex.expand(d_.value, d_.node, stop=stop)
                    da = facts.flatten_lattice(dv, 'max') or [dv]
                    if any(good(x) for x in da):
                        continue
                    if any(same(d_.value, r) or same(dv, r) for r in released) or \
                            any(isinstance(r, ast.Name) and r.id == a.id for r in released):
                        bad = (a, d_, dv)
                    else:
                        unk = d_
            if bad is not None:
                a, d_, dv = bad
                o.refute(ps.f, c, d_.stmt, f"work is booked from `{src(case)[:60]}`, where `{a.id}` is the release date `{src(dv)[:70]}` that was handed to the "
                                           f"availability search, not the start the search found: a task without remaining work gets the raw release "
                                           f"timestamp as its end (before its start when the release day is full or closed) instead of its start")
            elif multi and unk is None:
                o.site(ps.f, c, f"fill starts at {src(case)[:60]} (every definition of {multi[0].id} is the task's start)")
            elif multi or sched_fill._unresolved(ps.f, case):
                o.undecided(ps.f, c, c.args[2], f"work is booked from `{src(case)[:70]}`, which contains a term the rule cannot resolve")
            elif any(same(x, r) for x in args for r in released) or any(same(case, r) for r in released):
                o.refute(ps.f, c, c.args[2], f"work is booked from `{src(case)[:80]}`, the release date handed to the availability search, not from the "
                                             f"start the search found: a task without remaining work gets the raw release timestamp as its end")
            else:
                o.undecided(ps.f, c, c.args[2], f"work is booked from `{src(case)[:70]}`, in which the task's start was not recognised")


def explicit_zero_kept(ctx, o, ps: PassShape):
    """C04's remaining-work rule is run on a scratch obligation; of its findings only the recognised wrong shape 'default applied
    under a condition other than `is None`' (`estimate or default`, a truth test) is C08's business: the phantom work of a task
    that has none moves its end off its start and pushes every later task of the resource.  Everything else stays C04's."""
    from sa.report import Obligation
    from .c04 import remaining
    tmp = Obligation(o.prop, o.id, o.rule, o.desc)
    remaining(ctx, tmp, ps)
    # (the default of `spent` is 0 itself: `spent or 0` changes nothing; what else can go wrong with it is C04's clause)
    mine = [f_ for f_ in tmp.refuted if 'an explicit 0 would be replaced' in f_.msg and 'the default estimate' in f_.msg]
    for f_ in mine:
        f_.msg += ": a leaf that has no work is booked for the default amount, so its end is not its start and the tasks after it are pushed later"
        o.refuted.append(f_)
        o.sites.append(f"{f_.where} {f_.func or ''} REFUTED".strip())
    if not mine:
        o.site(ps.f, ps.f.node, "no default of a leaf is applied under a condition other than `is None` (remaining-work shape: C04)")


def release_bound(ctx, o, ps: PassShape, pt):
    """operands of the `max(..)` that gives an unfixed leaf its release day: besides the prerequisite term, the bound, the clock
    and the task's own min_start, an operand that reads a field of ANOTHER task (a loop / comprehension variable ranging over
    the ancestors or the parent) delays the task although nothing the property names holds it back."""
    found = 0
    for st, tgt, val, reg in ps.stores('start'):
        if reg['milestone'] is not False or reg['leaf'] is not True:
            continue
        v = ps.ex.expand(val, ps.cfg.node_of(st))
        calls = [x for x in ast.walk(v) if isinstance(x, ast.Call) and isinstance(x.func, ast.Name) and x.func.id == 'max']
        for mx in calls:
            ops = []
            for a in mx.args:
                if isinstance(a, ast.Starred):
                    inner = a.value
                    if isinstance(inner, ast.Name):
                        syn = facts.accumulated_list(ps.f, inner.id)
                        inner = syn if syn is not None else ps.ex.expand(inner, ps.cfg.node_of(st))
                    ops.append(('star', a, inner))
                else:
                    ops.append(('plain', a, a))
            for kind, a, e in ops:
                foreign = None
                # comprehension variables ranging over other tasks
                for n in ast.walk(e):
                    if isinstance(n, (ast.ListComp, ast.GeneratorExp, ast.SetComp)):
                        for g in n.generators:
                            if isinstance(g.target, ast.Name) and any(isinstance(x, ast.Attribute) and x.attr in ('all_parents', 'parent') for x in ast.walk(g.iter)):
                                reads = [x for x in ast.walk(n.elt) if isinstance(x, ast.Attribute) and isinstance(x.value, ast.Name) and x.value.id == g.target.id
                                         and x.attr in ('min_start', 'start', 'end')]
                                if reads:
                                    foreign = (reads[0], g.iter)
                    if isinstance(n, ast.Attribute) and n.attr in ('min_start',) and not (isinstance(n.value, ast.Name) and n.value.id == ps.task):
                        pth = n.value
                        if isinstance(pth, ast.Attribute) and pth.attr == 'parent' and isinstance(pth.value, ast.Name) and pth.value.id == ps.task:
                            foreign = foreign or (n, pth)
                if kind == 'star' and foreign is None and isinstance(a.value, ast.Name):
                    # a list grown in a statement loop over the task and its ancestors
                    for n in walk_no_nested(ps.f.node):
                        if isinstance(n, ast.For) and isinstance(n.target, ast.Name) and \
                                any(isinstance(x, ast.Attribute) and x.attr in ('all_parents', 'parent') for x in ast.walk(n.iter)):
                            for x in walk_no_nested(n):
                                if isinstance(x, ast.Call) and isinstance(x.func, ast.Attribute) and x.func.attr in ('append', 'extend') and \
                                        isinstance(x.func.value, ast.Name) and x.func.value.id == a.value.id:
                                    reads = [y for y in ast.walk(x) if isinstance(y, ast.Attribute) and isinstance(y.value, ast.Name) and y.value.id == n.target.id
                                             and y.attr in ('min_start', 'start', 'end')]
                                    if reads:
                                        foreign = (reads[0], n.iter)
                # (the prerequisite term reads `.end` of other tasks - that is the dependency bound, not a foreign one)
                if foreign is not None and foreign[0].attr != 'end':
                    found += 1
                    o.refute(ps.f, st, a, f"the release day of a leaf also takes `{src(foreign[0])}` of the tasks in `{src(foreign[1])[:50]}` (operand "
                                          f"`{src(a)[:50]}` of the max): the task inherits a constraint of another task and leaves its resource idle "
                                          f"until then although its own release day (project start, clock, own min_start, prerequisite ends) has come")
    if not found:
        o.site(ps.f, ps.f.node, "no operand of the leaf's release day reads a field of another task")
